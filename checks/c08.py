"""C08 — range and location lists resolve to the standard's address ranges.

Deciding spec: Lists.tla (wire format Enc/Dec of every entry kind, DebugAddr and
offset-table lookups, the raw and resolving iterator machines as coded, the
standard's resolution written independently, the attribute-level helpers of
read::Dwarf) over BV.tla / Leb.tla.

 G: MCLists (list mode) enumerates, at address size 1, every list up to the
    tier's length over the boundary alphabets for the five wire-format families,
    checks inside TLC (a) raw iteration = encoded entries, (b) every yielded
    range non-empty and below the tombstone for any list / truncation, (c) for
    well-formed lists machine-as-coded = standard's resolution, and emits the
    expected raw and resolved items; gvh-lists replays every case on the real
    iterators under every version / format / dwo setting that shares the bytes.
    MCLists (die mode) enumerates root-DIE attribute sequences x version class
    x format x dwo over fixed sections and emits the expected Unit fields,
    attr_ranges_offset / attr_locations_offset / attr_ranges / attr_locations
    results, die_ranges and unit_ranges.
 V: gvh-lists records the real iterators on seeded random sections (lists of up
    to 40 entries, arbitrary bytes; address sizes 1/2/4/8); ListsTrace.tla
    decodes the bytes itself and validates every raw and resolved item.
"""
import json, os
from vlib import read_ndjson, write_ndjson, canon, ToolError, log

OVERFLOW = ("MulOverflow", "AddOverflow")


def strip_err(x):
    """Error kinds are not part of the property: compare only that it is an error."""
    if isinstance(x, dict):
        if x.get("t") == "err":
            return {"t": "err"}
        return {k: strip_err(v) for k, v in x.items()}
    if isinstance(x, list):
        return [strip_err(v) for v in x]
    return x


def err_kinds(x, out):
    if isinstance(x, dict):
        if x.get("t") == "err":
            out.append(x.get("err"))
        for v in x.values():
            err_kinds(v, out)
    elif isinstance(x, list):
        for v in x:
            err_kinds(v, out)
    return out


def same(exp, got, ctx, where):
    """exp/got equal up to error kinds; kind differences are drift."""
    if exp == got:
        return True
    if strip_err(exp) != strip_err(got):
        return False
    ke, kg = err_kinds(exp, []), err_kinds(got, [])
    if ke != kg:
        note_drift(ctx, {"where": where, "model_error": ke, "observed_error": kg})
    return True


def note_drift(ctx, d):
    """Drift entries are aggregated: one entry per distinct content, with a count."""
    k = canon(d)
    tab = ctx.__dict__.setdefault("_c08_drift", {})
    if k in tab:
        tab[k]["count"] += 1
    elif len(tab) < 60:
        tab[k] = dict(d, count=1)
        ctx.drift.append(tab[k])


def fam_sig(cf):
    coded = (cf["fam"] == "rng" and cf["ver"] >= 5) or (cf["fam"] == "loc" and (cf["dwo"] or cf["ver"] >= 5))
    return "%s:%s" % (cf["fam"], ("gnu-v4" if cf["ver"] < 5 else "v5") if coded else "pair-format")


def chunks_of(ctx, cases_path, tag, size=60000):
    """Yield (chunk_path, cases) so that observations of at most `size` cases are in memory."""
    # the table of minimal unit images goes first in every part (the harness keeps it)
    header = []
    with open(cases_path) as f:
        for line in f:
            if '"sys":"unitimages"' in line:
                header = [line]
                break
    buf, k = list(header), 0
    def flush():
        nonlocal buf, k
        p = os.path.join(ctx.work, "%s-part%d.ndjson" % (tag, k))
        with open(p, "w") as f:
            f.writelines(buf)
        cases = [json.loads(l) for l in buf]
        buf = list(header)
        k += 1
        return p, cases
    with open(cases_path) as f:
        for line in f:
            if line.strip() and '"sys":"unitimages"' not in line:
                buf.append(line)
                if len(buf) >= size:
                    yield flush()
    if len(buf) > len(header):
        yield flush()


def check_list_cases(ctx, binpath, cases_path, tag):
    n = 0
    for part, cases in chunks_of(ctx, cases_path, tag):
        obs = ctx.replay(binpath, part, tag=tag)
        n += check_list_chunk(ctx, cases, obs, n)
        os.remove(part)
    return n


def check_list_chunk(ctx, cases, obs, base):
    n = 0
    for i, case in enumerate(cases):
        if case.get("sys") != "list":
            continue
        n += 1
        o = obs.get(i)
        fs = fam_sig(case["cf"])
        unchecked = any(k in json.dumps(case["res"]) for k in OVERFLOW)
        if unchecked:
            # index * address_size leaves u64 (index >= 2^61): unchecked arithmetic in
            # DebugAddr::get_address, C01's subject; the raw iteration is still compared
            if o is not None and "outcome" not in o and same(case["raw"], o["raw"], ctx, "list:raw") \
                    and same(case["res"], o["res"], ctx, "list:res"):
                pass
            else:
                note_drift(ctx, {"where": "list", "c01_candidate": (o or {}).get("loc", "wrapped arithmetic"),
                                 "msg": (o or {}).get("msg", "")})
            ctx.nontrivial(canon([case["cf"], case["sec"], case["ub"]]))
            continue
        if o is None or "outcome" in o:
            ctx.violation("list:%s:%s:%s" % (fs, (o or {}).get("outcome"), (o or {}).get("loc", "")),
                          "list iterators did not return normally: %s" % json.dumps(o)[:300], case, o)
            continue
        if (base + i) % 20011 == 7:
            ctx.sample({"case": case, "obs": {k: o[k] for k in ("raw", "res", "variants")}})
        if not same(case["raw"], o["raw"], ctx, "list:raw"):
            ctx.violation("list:%s:raw" % fs,
                          "raw iteration differs from the encoded entries: section %s offset %s expected %s observed %s" %
                          (case["sec"], case["off"], json.dumps(case["raw"])[:400], json.dumps(o["raw"])[:400]), case, o)
        if not same(case["res"], o["res"], ctx, "list:res"):
            ctx.violation("list:%s:resolved" % fs,
                          "resolved ranges differ: section %s offset %s unit base %s expected %s observed %s" %
                          (case["sec"], case["off"], case["ub"], json.dumps(case["res"])[:400], json.dumps(o["res"])[:400]), case, o)
        if not (o["raw_fused"] and o["res_fused"]):
            ctx.violation("list:%s:not-fused" % fs, "iterator yielded again after returning None", case, o)
        if not o["manual_same"]:
            ctx.violation("list:%s:convert_raw-differs-from-next" % fs,
                          "next_raw + convert_raw does not give what next() gives", case, o)
        for d in o["diff"]:
            ctx.violation("list:%s:config-dependent:v%s-fmt%s-dwo%s" % (fs, d["cf"]["ver"], d["cf"]["fmt"], d["cf"]["dwo"]),
                          "the same bytes resolve differently under %s: %s" % (d["cf"], json.dumps(d["obs"])[:400]), case, o)
        if o.get("dvariants", 0) < o["variants"]:
            ctx.violation("list:%s:dwarf-level-not-run" % fs, "only %s of the Dwarf-level configurations were run" % o.get("dvariants"), case, o)
        for d in o.get("ddiff", []):
            ctx.violation("list:%s:dwarf-level:v%s-%s" % (fs, d["cf"]["ver"], "dwo" if d["cf"]["dwo"] else "main"),
                          "Dwarf::/UnitRef:: raw_ranges / ranges / raw_locations / locations of a %s unit differ from the section-level "
                          "iterators on the same bytes: %s, section-level raw %s resolved %s" %
                          (d["cf"], json.dumps(d["obs"])[:400], json.dumps(o["raw"])[:300], json.dumps(o["res"])[:300]), case, o)
        if case["n"] >= 1:
            ctx.nontrivial(canon([case["cf"], case["sec"], case["ub"]]))
    return n


def cmp_die(ctx, case, o, exp=None):
    exp = exp if exp is not None else case["exp"]
    sig = "die:v%s-fmt%s-%s" % ("2-4" if case["cf"]["ver"] <= 4 else "5", case["cf"]["fmt"], "dwo" if case["cf"]["dwo"] else "main")
    bad = []
    if exp["unit"]["t"] == "err":
        if o.get("unit", {}).get("t") != "err":
            bad.append(("unit", "Unit::new must fail (low_pc index outside .debug_addr)"))
        return sig, bad
    if not same(exp["unit"], o.get("unit"), ctx, "die:unit"):
        bad.append(("unit", "unit fields: expected %s observed %s" % (exp["unit"], o.get("unit"))))
        return sig, bad
    ea, oa = exp["attrs"], o.get("attrs", [])
    if len(ea) != len(oa):
        bad.append(("attrs", "attribute count"))
        return sig, bad
    for k, (e, g) in enumerate(zip(ea, oa)):
        if e["at"] != g["at"]:
            bad.append(("attrs", "attribute name")); continue
        if not same(e["ro"], g["ro"], ctx, "die:attr_ranges_offset"):
            bad.append(("attr_ranges_offset", "attribute %d (DW_AT 0x%x): expected %s observed %s" % (k, e["at"], e["ro"], g["ro"])))
        if not same(e["lo"], g["lo"], ctx, "die:attr_locations_offset"):
            bad.append(("attr_locations_offset", "attribute %d (DW_AT 0x%x): expected %s observed %s" % (k, e["at"], e["lo"], g["lo"])))
        if not same(e["rr"], g["rr"], ctx, "die:attr_ranges"):
            bad.append(("attr_ranges", "attribute %d: expected %s observed %s" % (k, e["rr"], g["rr"])))
        if not same(e["lr"], g["lr"], ctx, "die:attr_locations"):
            bad.append(("attr_locations", "attribute %d: expected %s observed %s" % (k, e["lr"], g["lr"])))
        if not same(e["rw"], g.get("rw"), ctx, "die:raw_ranges"):
            bad.append(("raw_ranges", "attribute %d: Dwarf::raw_ranges at the attribute's offset: expected %s observed %s" % (k, e["rw"], g.get("rw"))))
        if not same(e["lw"], g.get("lw"), ctx, "die:raw_locations"):
            bad.append(("raw_locations", "attribute %d: Dwarf::raw_locations at the attribute's offset: expected %s observed %s" % (k, e["lw"], g.get("lw"))))
    ed = exp["die"]
    want = ed if ed["t"] == "err" else {"t": "ok", "items": ed["items"]}
    for name in ("die", "ur"):
        if not same(want, o.get(name), ctx, "die:" + name):
            bad.append(("die_ranges" if name == "die" else "unit_ranges", "expected %s observed %s" % (want, o.get(name))))
    if o.get("api_same") is False:
        bad.append(("offset-api", "Dwarf::ranges/locations(unit, offset) differ from attr_ranges/attr_locations at the same offset"))
    if o.get("uref_same") is False:
        bad.append(("unitref", "UnitRef methods differ from the Dwarf methods: %s" % json.dumps(o.get("uref"))[:500]))
    if exp["raw0"] != o.get("raw0"):
        bad.append(("ranges_offset_from_raw", "raw offset 5: expected %s observed %s" % (exp["raw0"], o.get("raw0"))))
    return sig, bad


def check_die_cases(ctx, binpath, cases_path, tag):
    files = {}
    cases = []
    for c in read_ndjson(cases_path):
        if c["sys"] == "file":
            files[canon(c["fk"])] = c["file"]
        else:
            cases.append(c)
    for c in cases:
        c["file"] = files[canon(c["fk"])]
    merged = os.path.join(ctx.work, tag + "-cases.ndjson")
    write_ndjson(merged, cases)
    obs = ctx.replay(binpath, merged, tag=tag)
    for i, case in enumerate(cases):
        o = obs.get(i)
        unchecked = any(k in json.dumps(case["exp"]) for k in OVERFLOW)
        if o is None or "outcome" in o:
            if unchecked and (o or {}).get("outcome") == "panic":
                # unchecked u64/usize arithmetic on a wild index/offset: C01's subject, not C08's
                note_drift(ctx, {"where": "die", "c01_candidate": (o or {}).get("loc"), "msg": (o or {}).get("msg")})
                ctx.nontrivial(canon([case["cf"], case["abbrev"], case["info"]]))
                continue
            ctx.violation("die:%s:%s" % ((o or {}).get("outcome"), (o or {}).get("loc", "")),
                          "Dwarf helpers did not return normally: %s" % json.dumps(o)[:300], case, o)
            continue
        if i % 5003 == 0:
            ctx.sample({"case": {k: case[k] for k in ("cf", "info", "abbrev", "exp")}, "obs": o})
        sig, bad = cmp_die(ctx, case, o)
        for what, msg in bad:
            if unchecked:
                note_drift(ctx, {"where": "die:" + what, "c01_candidate": "wrapped arithmetic"})
                continue
            ctx.violation("%s:%s" % (sig, what), msg[:900], case, o)
        for d in o.get("diff", []):
            ctx.violation("%s:version-dependent:v%s" % (sig, d["ver"]),
                          "the same unit body gives different results in version %s: %s" % (d["ver"], json.dumps(d["obs"])[:400]), case, o)
        ctx.nontrivial(canon([case["cf"], case["abbrev"], case["info"]]))
        # the same unit as the split unit of a skeleton: make_dwo + copy_relocated_attributes
        for sp in case.get("split", []):
            so = o.get("split")
            if so is None or "outcome" in so:
                ctx.violation("split:%s:%s" % ((so or {}).get("outcome"), (so or {}).get("loc", "")),
                              "split-unit queries did not return normally: %s" % json.dumps(so)[:300], case, o)
                continue
            sig, bad = cmp_die(ctx, case, so, sp["exp"])
            for what, msg in bad:
                ctx.violation("split:%s:%s" % (sig[4:], what),
                              "after make_dwo + copy_relocated_attributes from the skeleton unit: " + msg[:900], case, so)
            for d in so.get("diff", []):
                ctx.violation("split:%s:version-dependent:v%s" % (sig[4:], d["ver"]),
                              "split unit: different results in version %s: %s" % (d["ver"], json.dumps(d["obs"])[:400]), case, so)
            ctx.nontrivial(canon(["split", case["cf"], case["abbrev"], case["info"]]))
    return len(cases)


def validate_groups(ctx, trace, module="ListsTrace", chunk_events=30000):
    """Validate the event file in chunks cut at Reset boundaries; on a rejected
    event report it and continue with the next group."""
    groups, cur = [], []
    for line in open(trace):
        if not line.strip():
            continue
        if line.startswith('{"addr"') or '"ev":"Reset"' in line:
            if cur:
                groups.append(cur)
            cur = []
        cur.append(line)
    if cur:
        groups.append(cur)
    gi = 0
    rejected = 0
    while gi < len(groups):
        part, ng = [], 0
        while gi + ng < len(groups) and (ng == 0 or len(part) + len(groups[gi + ng]) <= chunk_events):
            part += groups[gi + ng]; ng += 1
        p = os.path.join(ctx.work, "chunk.ndjson")
        with open(p, "w") as f:
            f.writelines(part)
        ok, info = ctx.validate_trace(module, p)
        if ok:
            ctx.cov["traces_validated_against_impl"] += len(part)
            gi += ng
            continue
        um = info.get("unmatched")
        if not um:
            raise ToolError("trace validation failed without an unmatched event: %s" % info.get("error"))
        idx_s, js = um.split(", ", 1)
        idx = int(idx_s)
        ev = json.loads(json.loads(js))
        # which group does event idx (1-based) belong to?
        acc = 0
        k = 0
        while acc + len(groups[gi + k]) < idx:
            acc += len(groups[gi + k]); k += 1
        ctx.cov["traces_validated_against_impl"] += acc
        reset = json.loads(groups[gi + k][0])
        cf = reset.get("cf", {})
        r = ev.get("r", {}) if isinstance(ev.get("r"), dict) else {}
        if ev.get("ev") == "Panic":
            pr = ev.get("r", {})
            if "overflow" in str(pr.get("msg", "")) and ("read/addr.rs" in str(pr.get("loc")) or "lists.rs" in str(pr.get("loc"))):
                # index * size on a wild index: unchecked arithmetic, C01's subject
                note_drift(ctx, {"where": "trace", "c01_candidate": pr.get("loc"), "msg": pr.get("msg")})
            else:
                ctx.violation("trace:panic:%s" % pr.get("loc"), "list iteration panicked: %s" % json.dumps(pr)[:300], reset, ev)
        else:
            sig = "trace:%s:%s:%s" % (fam_sig(cf) if cf else "?", ev.get("ev"), r.get("t", ""))
            ctx.violation(sig, "event %d of the group is not a step of the Lists machines: %s (configuration %s)" %
                          (idx - acc, json.dumps(ev)[:500], cf), {"reset": reset, "group": [json.loads(x) for x in groups[gi + k][:idx - acc]][-6:]}, ev)
        rejected += 1
        gi += k + 1
        if rejected >= 8:
            log("[c08] 8 trace groups rejected; the remaining %d groups are not examined" % (len(groups) - gi))
            break


def run(ctx):
    q = ctx.quick
    profiles = ["dev"] if q else ["dev", "release"]
    bins = {p: ctx.build("gvh-lists", p) for p in profiles}
    tier = os.environ.get("C08_CFG") or ("quick" if q else "thorough")   # C08_CFG=tiny: development smoke run

    # --- G: lists
    r1 = ctx.tlc("MCLists", "MCLists_" + tier, timeout=7200)
    for prof, b in bins.items():
        check_list_cases(ctx, b, r1.cases_path, "list-" + prof)

    # --- G: attribute-level helpers
    r2 = ctx.tlc("MCLists", "MCLists_die_" + tier, timeout=7200)
    for prof, b in bins.items():
        check_die_cases(ctx, b, r2.cases_path, "die-" + prof)

    # --- V: random long lists and arbitrary bytes
    n = int(os.environ.get("C08_TRACE_N") or (300 if q else 6000))
    tr = ctx.record(bins["dev"], "lists.ndjson", ["--seed", ctx.seed, "--n", n, "--maxlen", 40])
    validate_groups(ctx, tr)

    ctx.assumptions += [
        "error kinds are not compared (the property speaks of the ranges yielded); kind differences are listed as drift",
        "DW_LLE_default_location is reported by gimli as the range 0..u64::MAX whatever the address size; the model takes that as the meaning of 'default'",
        "the GNU split-DWARF v4 location entries have no standard: the model follows gimli's reading (DW_LLE codes, 2-byte expression length, 4-byte startx_length length)",
        "index * size and base + offset are unchecked in DebugAddr::get_address / get_offset / die_ranges; such inputs (index >= 2^61) are outside any table, the model expects an error, a panic or wrapped result there is recorded as a C01 candidate in drift, not as a C08 violation",
        "the non-empty / below-tombstone clause is enforced on what list iterators yield, not on the single low_pc/high_pc range of die_ranges (DESIGN C08)",
        "exhaustive enumeration is at address size 1; address sizes 2/4/8 and long lists are covered by trace validation of seeded random sections (sampled)",
        "corpus lists / llvm-dwarfdump comparison is not performed (differential testing is a different technique, DESIGN section 6)",
    ]
    ctx.finish("model_checking",
               rule="one case per distinct (family, unit base, flavour, list) / (version class, format, dwo, attribute sequence) state explored by TLC; "
                    "non-trivial = list with at least one entry, or any attribute-level case; every case is replayed under all versions/formats/dwo settings sharing the bytes; "
                    "trace events are validated one by one by ListsTrace",
               exhaustive=True)
