"""C04 — line-number rows equal the DWARF state machine; sequences consistent;
monotone in-range addresses for any input.

Deciding spec: LineSM.tla (instruction codec Dec/Enc, the register machine as
coded in gimli incl. tombstone mode, the DWARF 6.2 machine with exact arithmetic,
header encoder for v2-5).
 G: MCLineSM enumerates, at address size 1, every program over the instruction
    alphabet up to the tier's length per header tuple (prog), every opcode byte
    (opc), header tables / v5 entry formats (hdr), address sizes 2/4/8 (wide) and every
    concatenation of up to 3 sequence templates mixing live and tombstoned sequences (seq);
    inside TLC: Dec o Enc = id, as-coded = DWARF machine on well-formed programs,
    monotone / in-range rows for every program, sequences consistent.  Each
    state is one `.debug_line` section with the expected observation, replayed by
    gvh-linesm through DebugLine::program / rows / sequences / resume_from.
 V: gvh-linesm single-steps gimli over random, arbitrary-byte and fixture
    programs (address sizes 2/4/8, 64-bit operands); LineSMTrace validates every
    instruction event against Dec/Exec and the rows()/sequences() results
    against the accumulated run.
"""
import json, os
from vlib import read_ndjson, canon, ToolError, SPEC

FIELDS = ["addr", "op_index", "file", "line", "column", "flags", "isa", "discriminator"]
ZERO16 = [0] * 16


def write_cfg(name, full, core, opc, fmt, wide, tuples, modes):
    with open(os.path.join(SPEC, name + ".cfg"), "w") as f:
        f.write("INIT Init\nNEXT Next\nINVARIANT Inv\nCHECK_DEADLOCK FALSE\nCONSTANTS\n  FullLen = %d\n  CoreLen = %d\n"
                "  OpcLen = %d\n  FmtLen = %d\n  WideLen = %d\n  Tuples = {%s}\n  Modes = {%s}\n"
                % (full, core, opc, fmt, wide, ", ".join(map(str, tuples)), ", ".join('"%s"' % m for m in modes)))
    return name


# fixed finding (gimli 47b1cb1): "monotone:tombstone-swallows-end_sequence"; see notes/C04.md


def num(b):
    return int.from_bytes(bytes(b), "little")


def mono_ok(rows, asz):
    """The any-input clause evaluated on an observation that the model does not
    explain: addresses never decrease within a sequence, never exceed the
    address size.  (The same predicate is LineSM!Monotone / InRange, which TLC
    checks on every model run and on every recorded trace.)"""
    for k, r in enumerate(rows):
        if len(r[0]) > asz:
            return False
        if k + 1 < len(rows) and not (r[5] >> 2) & 1 and num(r[0]) > num(rows[k + 1][0]):
            return False
    return True


def seqs_consistent(o):
    """The sequence clause evaluated on the observation alone (any input): resuming the reported sequences one
    after the other gives exactly the rows of the straight run up to its last end_sequence row; every sequence
    ends with its only end_sequence row, whose address is the reported end; the reported start is the address of
    its first row.  (Same predicate as LineSM!SequencesConsistent, which TLC checks on every model run.)"""
    if o.get("end") != "done" or not o["seqs"].get("ok"):
        return None
    rows = o["rows"]
    last = max([k for k, r in enumerate(rows) if (r[5] >> 2) & 1], default=-1)
    cat = []
    for s in o["seqs"]["list"]:
        sr = s["rows"]
        if s.get("rend") != "done" or not sr:
            return "a resumed sequence yields no rows or fails"
        if not (sr[-1][5] >> 2) & 1 or any((r[5] >> 2) & 1 for r in sr[:-1]):
            return "a resumed sequence does not end with its only end_sequence row"
        if sr[-1][0] != s["end"]:
            return "reported end is not the end_sequence address"
        if len(sr) >= 2 and sr[0][0] != s["start"]:
            return "reported start is not the first row's address"
        cat += sr
    if cat != rows[:last + 1]:
        return "resumed rows differ from the straight run"
    return None


def norm_files(fs):
    out = []
    for f in fs:
        f = list(f)
        if f[4] == []:
            f[4] = ZERO16
        out.append(f)
    return out


def first_diff(erows, orows):
    if len(erows) != len(orows):
        return "count"
    for e, o in zip(erows, orows):
        for i, n in enumerate(FIELDS):
            if e[i] != o[i]:
                return n
    return "none"


def sig_ctx(case):
    h = case["exp"]["hdr"]
    return "%s:v%d:ob%d:mo%d:asz%d" % (case["sys"], h["ver"], h["obase"], h["maxops"], h["asz"])


def compare(ctx, case, o):
    exp = case["exp"]
    wf = exp["wf"]
    sc = sig_ctx(case)
    if o is None or "outcome" in (o or {}):
        oc = (o or {}).get("outcome")
        loc = (o or {}).get("loc", "")
        if wf or oc in ("abort", "timeout"):
            ctx.violation("%s:%s:%s" % (sc, oc, loc), "line program did not return normally: %s" % json.dumps(o)[:300], case, o)
        else:
            ctx.drift.append({"what": "panic on an ill-formed program (C01 matter)", "loc": loc, "prog": case["prog"], "ctx": sc})
        return
    # ---- header and tables (the header itself is always well formed here)
    hdr = dict(o["hdr"])
    if not hdr.pop("ok", False):
        ctx.violation("%s:hdr:rejected:%s" % (sc, o["hdr"].get("err")), "well-formed header rejected: %s" % o["hdr"], case, o)
        return
    for k, v in exp["hdr"].items():
        if hdr.get(k) != v:
            ctx.violation("%s:hdr:%s" % (sc, k), "header field %s: gimli %s, spec %s" % (k, hdr.get(k), v), case, o)
    if o["dirs"] != exp["dirs"]:
        ctx.violation("%s:dirs" % sc, "directory table: gimli %s, spec %s" % (o["dirs"], exp["dirs"]), case, o)
    if o["files0"] != norm_files(exp["files0"]):
        ctx.violation("%s:files0" % sc, "file table: gimli %s, spec %s" % (o["files0"], norm_files(exp["files0"])), case, o)
    # ---- any-input clause on whatever gimli produced
    asz = case["asz"]
    if not mono_ok(o["rows"], asz):
        ctx.violation("%s:monotone:rows" % sc, "row addresses decrease within a sequence or exceed the address size: %s" % o["rows"], case, o)
    if o["seqs"].get("ok"):
        for s in o["seqs"]["list"]:
            if not mono_ok(s["rows"], asz):
                ctx.violation("%s:monotone:resumed" % sc, "resumed rows not monotone / in range: %s" % s["rows"], case, o)
    why = seqs_consistent(o)
    if why:
        ctx.violation("%s:seqs:resume-inconsistent" % sc, "sequences()/resume_from() inconsistent with rows(): %s; rows %s, seqs %s"
                      % (why, o["rows"], json.dumps(o["seqs"].get("list"))[:500]), case, o)
    # ---- rows
    same = o["rows"] == exp["rows"] and o["end"] == exp["end"]
    if not same:
        what = "rows: gimli %s (%s %s), spec %s (%s)" % (o["rows"], o["end"], o.get("err"), exp["rows"], exp["end"])
        if wf:
            ctx.violation("%s:rows:%s" % (sc, first_diff(exp["rows"], o["rows"]) if o["end"] == exp["end"] else "end=" + o["end"]),
                          what, case, o)
        else:
            ctx.drift.append({"what": "ill-formed program: rows differ from the as-coded model (allowed: monotone/in-range)",
                              "prog": case["prog"], "ctx": sc, "diff": first_diff(exp["rows"], o["rows"])})
    if o["files"] != norm_files(exp["files"]):
        if wf:
            ctx.violation("%s:files" % sc, "file table after the run: gimli %s, spec %s" % (o["files"], norm_files(exp["files"])), case, o)
        else:
            ctx.drift.append({"what": "ill-formed program: file table differs", "prog": case["prog"], "ctx": sc})
    # ---- sequences and resumed rows
    if exp["end"] == "done":
        got = o["seqs"]
        if not got.get("ok"):
            bad = "seqs:err"
        else:
            bad = None
            el, gl = exp["seqs"], got["list"]
            if len(el) != len(gl):
                bad = "seqs:count"
            else:
                for e, g in zip(el, gl):
                    if g["rend"] != "done" or g["rows"] != e["rows"]:
                        bad = "seqs:resumed-rows"; break
                    if g["end"] != e["end"]:
                        bad = "seqs:end"; break
                    if g["start"] != e["start"]:
                        if len(e["rows"]) >= 2:
                            bad = "seqs:start"; break
                        ctx.drift.append({"what": "start of a sequence that has only its end_sequence row", "prog": case["prog"]})
        if bad:
            what = "%s: gimli %s, spec %s" % (bad, json.dumps(got)[:400], json.dumps(exp["seqs"])[:400])
            if wf:
                ctx.violation("%s:%s" % (sc, bad), what, case, o)
            else:
                ctx.drift.append({"what": "ill-formed program: " + bad, "prog": case["prog"], "ctx": sc})
    else:
        if o["seqs"].get("ok"):
            ctx.drift.append({"what": "sequences() succeeded where the model run fails", "prog": case["prog"], "ctx": sc})
    if exp["rows"] or exp["end"] == "err" or case["sys"] == "hdr":
        ctx.nontrivial(canon(case["sect"]))


def run_model(ctx, bins, cfg, timeout):
    r = ctx.tlc("MCLineSM", cfg, timeout=timeout)
    for prof, b in bins.items():
        obs = ctx.replay(b, r.cases_path, tag="g-%s" % prof)
        shown = {}
        for i, case in enumerate(read_ndjson(r.cases_path)):
            o = obs.get(i)
            compare(ctx, case, o)
            k = case["sys"]
            if shown.get(k, 0) < 1 and len(case["exp"]["rows"]) >= 2 and prof == "dev":
                ctx.sample({"sys": k, "prog": case["prog"], "exp_rows": case["exp"]["rows"], "obs_rows": (o or {}).get("rows")})
                shown[k] = shown.get(k, 0) + 1
    return r


def run(ctx):
    q = ctx.quick
    profiles = ["dev"] if q else ["dev", "release"]
    bins = {p: ctx.build("gvh-linesm", p) for p in profiles}
    all6 = [1, 2, 3, 4, 5, 6]
    modes = ["prog", "opc", "hdr", "wide", "seq"]

    # --- G: programs over the alphabet per header tuple, every opcode byte,
    #        header tables / v5 entry formats, address sizes 2/4/8
    if q:
        cfg = write_cfg("MCLineSM_run", 2, 3, 1, 2, 2, all6, modes)
    else:
        cfg = write_cfg("MCLineSM_run", 3, 4, 3, 3, 3, all6, modes)
    run_model(ctx, bins, cfg, 4 * 3600)

    # --- V: recorded executions
    fixture = "/repo/fixtures/self/debug_line"
    args = ["--seed", ctx.seed, "--n", 30 if q else 150, "--len", 80 if q else 150, "--raw", 30 if q else 150]
    if os.path.exists(fixture):
        args += ["--fixture", fixture, "--fixture-units", 3 if q else 30, "--fixture-maxprog", 1500 if q else 3000]
    tr = ctx.record(bins["dev"], "linesm.ndjson", args)
    validate(ctx, tr, chunk_units=80 if q else 60)

    ctx.assumptions += [
        "well-formed = the DWARF 6.2 machine (exact arithmetic) never leaves the address space, never moves the address backwards inside a sequence with DW_LNE_set_address (A1), never sets an address >= 2^W-2 (A2, reserved tombstones), keeps `line` within 0..2^64-1, and every instruction decodes; only then rows/files/sequences are compared strictly",
        "for ill-formed programs the any-input clause (monotone, in-range addresses) and the sequence clause as self-consistency of the observation (resumed rows = straight rows, bounds = first/end addresses) are enforced; other differences from the as-coded model are drift",
        "DW_LNS_advance_line with operand i64::MIN is outside the alphabet (debug-build negate overflow, a C01 finding)",
        "standard_opcode_lengths entries for opcodes 1..12 carry the DWARF-defined operand counts (gimli ignores them for known opcodes)",
        "rows()/sequences() are stopped at the first error",
        "exhaustive part at address size 1; address sizes 2/4/8 by the `wide` model and by trace validation",
    ]
    ctx.finish("model_checking",
               rule="one case per distinct TLC state = one (header tuple, program) / (prefix, opcode byte, tail) / header table; "
                    "non-trivial = the program emits at least one row or ends in an error, or a header-table case; trace events are validated one by one by LineSMTrace",
               exhaustive=True)


def validate(ctx, trace, chunk_units=80):
    """Validate chunks of whole units (a unit = Header .. End); on rejection report
    the event and continue with the next unit."""
    units, cur = [], []
    for line in open(trace):
        if not line.strip():
            continue
        if '"ev":"Header"' in line or '"ev":"BadHeader"' in line:
            if cur:
                units.append(cur)
            cur = []
        cur.append(line)
    if cur:
        units.append(cur)
    pos = 0
    rejected = 0
    while pos < len(units):
        part = [l for u in units[pos:pos + chunk_units] for l in u]
        p = os.path.join(ctx.work, "chunk.ndjson")
        with open(p, "w") as f:
            f.writelines(part)
        res = ctx.tlc("LineSMTrace", "LineSMTrace", workers=1, env={"TRACE": p}, timeout=3600, deque=True, xmx="8g",
                      allow_error=True, cases_name="LineSMTrace-tv")

        def unit_of(idx):
            n = 0
            for k in range(pos, min(pos + chunk_units, len(units))):
                if n + len(units[k]) >= idx:
                    return k
                n += len(units[k])
            return pos

        def hdr_of(k):
            h = json.loads(units[k][0])
            return {x: v for x, v in h.items() if x != "raw"}

        # units of ill-formed programs that the as-coded model does not explain (only the any-input clause applies)
        for idx in sorted({int(body) for tag, body in res.prints if tag == "DRIFT"}):
            k = unit_of(idx)
            ctx.drift.append({"what": "recorded event of an ill-formed unit differs from the as-coded model (any-input clause still checked)",
                              "unit": hdr_of(k).get("tag"), "event": json.loads(part[idx - 1]).get("ev")})
        if res.error is None:
            ctx.cov["traces_validated_against_impl"] += len(part)
            pos += chunk_units
            continue
        um = [body for tag, body in res.prints if tag == "UNMATCHED"]
        if not um:
            raise ToolError("trace validation failed without an unmatched event: %s" % res.error[:2000])
        idx = int(um[-1].split(",", 1)[0])
        ev = json.loads(part[idx - 1])
        ctx.cov["traces_validated_against_impl"] += idx - 1
        bad_unit = unit_of(idx)
        hdr = hdr_of(bad_unit)
        sig = "trace:%s" % ev.get("ev")
        if ev.get("ev") in ("Ins", "ExecErr"):
            sig += ":" + ev["ins"]["op"]
        sig += ":v%s:asz%s:mo%s" % (hdr.get("ver"), hdr.get("asz"), hdr.get("maxops"))
        small = {k: v for k, v in ev.items() if k not in ("rows", "seqs", "raw")} if ev.get("ev") in ("End", "Header") else ev
        ctx.violation(sig, "recorded event not explainable by LineSM (unit %s): %s" % (hdr.get("tag"), json.dumps(small)[:500]),
                      {"header": hdr, "event": small}, None)
        pos = bad_unit + 1
        rejected += 1
        if rejected > 30:
            raise ToolError("too many rejected trace units")
