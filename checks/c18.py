"""C18 — relocation is transparent on the reading and the writing side.

Deciding spec: Reloc.tla (field-class schema; RelocateReader semantics over Reader.tla;
Apply; write::RelocateWriter semantics; ApplyW).
 G/read : MCReloc encodes a unit (v2-5, type unit), line programs (v4, v5 with
          line_strp/strp), .debug_ranges, .debug_rnglists and a CIE+CIE+FDE section with
          their field maps, and every non-empty relocation set of <= MaxRel relocatable
          fields x addends {1, 0x1000, -1}.  TLC checks Transparent in the model.  gvh-reloc
          parses the section through RelocateReader<TracingReader, map> and the model's
          pre-applied section through a plain reader.
            (a) the two dumps must be equal                         (property, 1st sentence)
            (b) interposition log vs field map: addr/secoffset fields that were read must
                have been read through read_address/read_offset/read_sized_offset, plain
                fields must not                                     (property, 3rd sentence)
            (c) every Relocate callback must carry the model's (offset, value in, value out)
 G/write: scripts of Writer calls on a RelocateWriter and, symbols resolved by the model,
          on a plain EndianVec; TLC checks ApplyW(recorded) = direct; the harness output
          must equal the model's recorded (bytes, relocations) and direct bytes.
 V/I    : gimli's own writers (units, line programs, range/location lists, frame tables)
          written through a recording RelocateWriter with symbolic addresses and directly
          with the symbols resolved; RelocTrace.tla checks ApplyW(recorded) = direct and
          that the relocated offsets are exactly the offsets the parsers read through the
          relocatable primitives.
"""
import json, os
from vlib import read_ndjson, ToolError

RELOC_PRIMS = {"read_address", "read_offset", "read_sized_offset"}


def check_read(ctx, case, o, stats):
    kind = case["kind"]
    tag = "%s-v%d%s" % (kind, case["ver"], "-tu" if case.get("tu") else "")
    if kind in ("ehframe", "ehhdr"):
        tag = "%s-format%d-app%d-asz%d" % (kind, case.get("form", 0), case["ver"], case["asz"])
    fields = case["fields"]
    small = {k: case[k] for k in ("kind", "ver", "asz", "tu", "main", "applied", "relmap")}
    d1, d2 = o["d1"], o["d2"]
    if case["nrel"] == 0 and not d1.get("ok"):
        raise ToolError("baseline parse of the model-encoded %s failed: %s" % (tag, d1))
    by_off = {}
    for prim, off, n, ok in o["log"]:
        by_off.setdefault(off, []).append((prim, n, ok))
    relocated = {r["off"] for r in case["relmap"]}
    name_at = {f["off"]: f for f in fields if f["len"] > 0}
    called = {c[1] for c in o["calls"]}
    # (b) schema
    for f in fields:
        if f["len"] == 0 or f["off"] not in by_off:
            continue
        evs = by_off[f["off"]]
        via_reloc = [e for e in evs if e[0] in RELOC_PRIMS]
        stats["fields_checked"] += 1
        if f["cls"] in ("addr", "secoffset"):
            if not any(e[1] == f["len"] for e in via_reloc):
                ctx.violation("schema:%s:%s:%s-read-with-plain-primitive" % (kind, f["name"], f["cls"]),
                              "%s: field %s (%s, offset %d, %d bytes) was read by %s, never through a relocatable primitive" %
                              (tag, f["name"], f["cls"], f["off"], f["len"], sorted(set(e[0] for e in evs))),
                              small, {"events_at_field": evs})
        elif f["cls"] == "plain":
            if via_reloc:
                ctx.violation("schema:%s:%s:plain-read-with-relocatable-primitive" % (kind, f["name"]),
                              "%s: plain field %s (offset %d) was read through %s" %
                              (tag, f["name"], f["off"], sorted(set(e[0] for e in via_reloc))),
                              small, {"events_at_field": evs})
        else:
            if via_reloc:
                stats["exempt_via_reloc"].add("%s:%s(%s)" % (kind, f["name"], f["cls"]))
    # a relocatable primitive at an offset that is not a field start at all
    for off, evs in by_off.items():
        if off not in name_at and any(e[0] in RELOC_PRIMS for e in evs):
            ctx.violation("schema:%s:offset-%d:relocatable-read-inside-a-field" % (kind, off),
                          "%s: relocatable primitive at offset %d which is not the start of a model field" % (tag, off),
                          small, {"events": evs})
    # (c) Relocate callbacks
    exp = {c["off"]: c for c in case["calls"]}
    for knd, off, vin, vout in o["calls"]:
        e = exp.get(off)
        if e is None or e["vin"] != vin or e["vout"] != vout:
            ctx.violation("reloc-call:%s:%s" % (kind, name_at.get(off, {}).get("name", off)),
                          "%s: Relocate::%s(offset %d, %s) -> %s, model expects %s" % (tag, knd, off, vin, vout, e),
                          small, {"calls": o["calls"]})
    # (a) transparency
    if d1 != d2:
        missed = sorted(name_at[off]["name"] for off in relocated if off not in called and off in by_off)
        why = ("not-relocated:" + "+".join(missed)) if missed else "values"
        ctx.violation("read:%s:%s" % (kind, why),
                      "%s with relocations %s: RelocateReader parse %s, parse of pre-applied bytes %s" %
                      (tag, [(name_at[r["off"]]["name"], r["add"]) for r in case["relmap"]],
                       json.dumps(d1)[:500], json.dumps(d2)[:500]), small, {"d1": d1, "d2": d2})
    if case["nrel"] >= 1 and d1.get("ok"):
        ctx.nontrivial(("r", kind, case["ver"], case["asz"], case["tu"], json.dumps(case["relmap"], sort_keys=True)))


def check_write(ctx, case, o, stats):
    names = "+".join(c["c"] for c in case["calls"])
    for side in ("rec", "dir"):
        got, exp = o[side], case[side]
        bad = None
        if got["ok"] != exp["ok"]:
            bad = "ok"
        elif exp["ok"]:
            if got["bytes"] != exp["bytes"]:
                bad = "bytes"
            elif side == "rec" and got["rels"] != exp["rels"]:
                bad = "relocations"
        if bad:
            ctx.violation("write:%s:%s:%s" % (side, names, bad),
                          "writer calls %s (%s): model %s, observed %s" %
                          (json.dumps(case["calls" if side == "rec" else "dcalls"]), side, json.dumps(exp), json.dumps(got)),
                          {"calls": case["calls"], "dcalls": case["dcalls"]}, o)
    if case["rec"]["ok"] and case["rec"]["rels"]:
        ctx.nontrivial(("w", json.dumps(case["calls"], sort_keys=True)))


def run(ctx):
    q = ctx.quick
    profiles = ["dev"] if q else ["dev", "release"]
    bins = {p: ctx.build("gvh-reloc", p) for p in profiles}
    stats = {"fields_checked": 0, "exempt_via_reloc": set()}
    r = ctx.tlc("MCReloc", "MCReloc_quick" if q else "MCReloc_thorough", timeout=3000)
    for prof, b in bins.items():
        obs = ctx.replay(b, r.cases_path, tag="reloc-" + prof)
        ns = 0
        for i, case in enumerate(read_ndjson(r.cases_path)):
            o = obs.get(i)
            if o is None or "outcome" in o:
                ctx.violation("replay:%s:%s:%s" % (case.get("side"), case.get("kind"), (o or {}).get("outcome")),
                              "harness did not return normally", {k: v for k, v in case.items() if k != "fields"}, o)
                continue
            if case["side"] == "read":
                check_read(ctx, case, o, stats)
                if case["nrel"] == 2 and ns < 2:
                    ns += 1
                    ctx.sample({"case": {k: case[k] for k in ("kind", "ver", "asz", "relmap", "calls")},
                                "obs": {"d1": o["d1"], "calls": o["calls"]}})
            else:
                check_write(ctx, case, o, stats)
    for x in sorted(stats["exempt_via_reloc"]):
        ctx.drift.append({"exempt_field_read_through_relocatable_primitive": x})

    # --- V/I: gimli's own writers
    if os.path.exists(os.path.join(os.path.dirname(__file__), "..", "spec", "RelocTrace.tla")):
        n = 12 if q else 120
        tr = ctx.record(bins["dev"], "reloc-trace.ndjson", ["--seed", ctx.seed, "--n", n])
        validate(ctx, tr)

    ctx.assumptions += [
        "relocations are placed only on fields of class addr/secoffset (not on list terminators / base-address selectors)",
        "unitoffset (type-unit type_offset) and addrlen (FDE address_range, aranges length) fields may be read through either kind of primitive (recorded as drift)",
        "the Relocate implementation used is a map offset -> (addend, width) computing (value + addend) mod 2^(8 width)",
        "write side: write_offset_at is only used as a fix-up of a plain placeholder; pointer encodings with application other than absptr/pcrel and LEB128 formats are outside the byte-equality claim",
    ]
    ctx.finish("model_checking",
               rule="one case per (structure, address size, relocation set with addends) state and per writer call script explored by "
                    "TLC; non-trivial = at least one relocation and the parse succeeds / at least one relocation recorded",
               exhaustive=True, extra_cov={"fields_checked_against_schema": stats["fields_checked"]})


def validate(ctx, trace, module="RelocTrace"):
    lines = [l for l in open(trace) if l.strip()]
    pos = 0
    runs = 0
    while pos < len(lines):
        p = os.path.join(ctx.work, "chunk.ndjson")
        with open(p, "w") as f:
            f.writelines(lines[pos:])
        ok, info = ctx.validate_trace(module, p)
        runs += 1
        if ok:
            ctx.cov["traces_validated_against_impl"] += len(lines) - pos
            return
        um = info.get("unmatched")
        if not um:
            raise ToolError("trace validation failed without an unmatched event: %s" % info.get("error"))
        idx_s, js = um.split(", ", 1)
        idx = int(idx_s)
        ev = json.loads(json.loads(js))
        ctx.cov["traces_validated_against_impl"] += idx - 1
        if ev.get("ev") == "WOutcome":
            sig = "trace:WOutcome:v%s:variant%s:recorded-%s:direct-%s" % (ev.get("ver"), ev.get("variant"), ev.get("rec"), ev.get("dir"))
        else:
            sig = "trace:%s:%s:%s" % (ev.get("ev"), ev.get("sec"), ev.get("why", ""))
            if ev.get("ev") == "WSection":
                # bytes after applying the relocations, or the target sections of the relocations, are wrong
                sig += "v%s:targets=%s" % (ev.get("ver"), "+".join(sorted(set(r.get("ts", "") for r in ev.get("rels", []) if r.get("tk") == "sec"))))
        ctx.violation(sig,
                      "event not explainable by Reloc.tla: %s" % json.dumps(ev)[:1500], ev, None)
        pos += idx
        if runs > 40:
            raise ToolError("too many rejected events")
