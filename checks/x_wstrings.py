"""x_wstrings — extension beyond the listed properties (NOT registered in MANIFEST):
the write-side string tables (src/write/str.rs), the byte sink EndianVec, the section
container Sections and Dwarf::write with string-valued DW_AT_name.

Deciding spec: WStrings.tla (the builders as coded, one operator per public call; the
meaning of a table = distinct NUL-free strings in order of first insertion).
 G: MCWStrings explores, in one TLC run, every call script on a string table (add over a
    4-string alphabet + a NUL string, get, count, write, foreign get), every EndianVec
    script (write / write_at / len / take), every short list of named DIEs x versions
    2..5 x formats 32/64 x one or two units, and for_each / for_each_mut / get on
    Sections; TLC checks "as coded = meaning" as an invariant on every state and emits
    one replay case per script; gvh-wstrings replays them on gimli.
 V: gvh-wstrings records random longer scripts (Add / Get / Count / Write / ReadBack /
    ReadAt and VWrite / VWriteAt / VSlice / VTake events); WStringsTrace.tla validates
    every event against the same operators.
Run:  ./check X_WSTRINGS --tier quick     (evidence/X_WSTRINGS.json)
"""
import json, os
from vlib import read_ndjson, canon, ToolError
from c17 import mismatch, err_drift, abnormal, write_cfg, is_err


def is_panic(o):
    return isinstance(o, dict) and o.get("panic") is True


def harness_bug(ctx, o):
    if isinstance(o, dict) and "harness" in o:
        raise ToolError("harness could not perform a call of the script: %s" % o["harness"])


def opname(o):
    if o["op"] == "add":
        return "add(%s)" % ("nul" if 0 in o["b"] else "len%d" % len(o["b"]))
    return o["op"]


# ------------------------------------------------------------------ string table
def check_tbl(ctx, case, o):
    for which in ("str", "line_str"):
        got = o.get(which)
        if not isinstance(got, list) or len(got) != len(case["exp"]):
            ctx.violation("wstrings:tbl:%s:shape" % which, "observation list %s" % json.dumps(got)[:300], case, o)
            continue
        for k, (op, e, g) in enumerate(zip(case["ops"], case["exp"], got)):
            harness_bug(ctx, g)
            where = "wstrings:tbl:%s:%s" % (which, opname(op))
            hist = " after %s" % [opname(x) for x in case["ops"][:k]]
            if op["op"] == "getf":
                # a foreign id: debug builds refuse it (BaseId), release builds index with it
                if not any(mismatch(a, g, "") is None for a in e["allowed"]):
                    ctx.violation(where + (":in-range" if len(e["allowed"]) > 1 else ":out-of-range"),
                                  "get with a foreign id of index %d%s: %s, allowed %s" % (op["k"], hist, json.dumps(g)[:200], e["allowed"]), case, o)
                continue
            if is_panic(e):
                if not is_panic(g):
                    ctx.violation(where + ":accepted", "%s%s did not panic: %s (contract: 'Panics if bytes contains a null byte')" %
                                  (opname(op), hist, json.dumps(g)[:200]), case, o)
                continue
            if is_panic(g):
                ctx.violation(where + ":panic", "%s%s panicked: %s at %s" % (opname(op), hist, g.get("msg"), g.get("loc")), case, o)
                continue
            if op["op"] == "add":
                if g.get("rank") != e["id"]:
                    kind = "dedup" if e["id"] < g.get("rank", -1) else "id"
                    ctx.violation(where + ":" + kind, "add(%s)%s returned the id of rank %s, spec id %s" %
                                  (op["b"], hist, g.get("rank"), e["id"]), case, o)
                elif g.get("id") is None:
                    ctx.drift.append({"where": "tbl.add", "note": "id index not observable through Debug"})
                elif g["id"] != e["id"]:
                    ctx.violation(where + ":index-not-dense", "add(%s)%s returned index %s, spec %s" % (op["b"], hist, g["id"], e["id"]), case, o)
                continue
            if op["op"] == "write":
                if g.get("res") != "ok" or g.get("res_fresh") != "ok":
                    ctx.violation(where + ":error", "write%s failed: %s" % (hist, json.dumps(g)[:200]), case, o)
                    continue
                want_id = "DebugStr" if which == "str" else "DebugLineStr"
                if g.get("sec_id") != want_id or g.get("secoff") != g.get("len"):
                    ctx.violation(where + ":section-identity", "section id %s, offset() %s, len %s" % (g.get("sec_id"), g.get("secoff"), g.get("len")), case, o)
            m = mismatch(e, g, "")
            if m:
                ctx.violation(where + m.replace("[]", ""), "%s%s: gimli %s, spec %s" % (opname(op), hist, json.dumps(g)[:400], json.dumps(e)[:400]), case, o)
            else:
                err_drift(ctx, e, g, "tbl." + op["op"])
    nadd = [x for x in case["ops"] if x["op"] == "add" and 0 not in x["b"]]
    return canon(case["ops"]) if nadd else None


# --------------------------------------------------------------------- EndianVec
def check_vec(ctx, case, o):
    if not isinstance(o, list) or len(o) != len(case["exp"]):
        ctx.violation("wstrings:vec:shape", "observation %s" % json.dumps(o)[:300], case, o)
        return None
    for k, (op, e, g) in enumerate(zip(case["ops"], case["exp"], o)):
        harness_bug(ctx, g.get("r"))
        m = mismatch(e, g, "")
        if m:
            detail = m.replace("[]", "")
            if op["op"] == "write_at":
                before = case["exp"][k - 1]["v"] if k else []
                fits = op["off"] + len(op["b"]) <= len(before)
                detail += ":fits" if fits else (":offset-beyond" if op["off"] > len(before) else ":length-beyond")
            ctx.violation("wstrings:vec:%s%s" % (op["op"], detail), "%s after %s: gimli %s, spec %s" %
                          (json.dumps(op), json.dumps(case["ops"][:k])[:200], json.dumps(g)[:200], json.dumps(e)[:200]), case, o)
        else:
            err_drift(ctx, e, g, "vec." + op["op"])
        if g.get("len") != len(g.get("v", [])):
            ctx.violation("wstrings:vec:len", "len() = %s but the slice has %d bytes" % (g.get("len"), len(g.get("v", []))), case, o)
    return canon(case["ops"]) if case["ops"] else None


# ---------------------------------------------------------------------- Sections
def check_secs(ctx, case, o):
    e = case["exp"]
    api = "for_each_mut" if case["mut"] else "for_each"
    for key in ("first", "second"):
        exp, got = e[key], o[key]
        ids_e = [v["id"] for v in exp["visits"]]
        ids_g = [v["id"] for v in got["visits"]]
        which = api if key == "first" else "for_each"
        if sorted(ids_g) != sorted(ids_e) or len(set(ids_g)) != len(ids_g):
            ctx.violation("wstrings:secs:%s:visited-set" % which, "fail=%s: visited %s, spec %s" % (case["fail"], ids_g, ids_e), case, o)
        elif ids_g != ids_e:
            # the particular order is the code's choice; the property is the partial order of references, checked below
            ctx.drift.append({"where": "secs.order", "gimli": ids_g, "model": ids_e})
        if got["res"] != exp["res"]:
            ctx.violation("wstrings:secs:%s:result" % which, "fail=%s: result %s, spec %s" % (case["fail"], got["res"], exp["res"]), case, o)
        for v in got["visits"]:
            if v["b"] != e["fields"].get(v["id"]):
                ctx.violation("wstrings:secs:%s:wrong-section:%s" % (which, v["id"]),
                              "the section passed with id %s holds %s, the %s field holds %s" % (v["id"], v["b"], v["id"], e["fields"].get(v["id"])), case, o)
        pos = {x: i for i, x in enumerate(ids_g)}
        for a, b in case.get("refs", []):
            if a in pos and b in pos and pos[b] > pos[a]:
                ctx.violation("wstrings:secs:%s:order:%s-before-%s" % (which, a, b), "section %s (references %s) visited first" % (a, b), case, o)
    if not case["mut"] and [v["id"] for v in o["first"]["visits"]] != [v["id"] for v in o["second"]["visits"]]:
        ctx.violation("wstrings:secs:for_each:order-unstable", "two calls visited in different orders", case, o)
    m = mismatch(e["fields"], o["fields"], "")
    if m:
        ctx.violation("wstrings:secs:%s:fields%s" % (api, m), "contents after: %s, spec %s" % (o["fields"], e["fields"]), case, o)
    for key in ("get", "get_mut"):
        for idn, ex, got in zip(case["probe"], e["get"], o[key]):
            if mismatch(ex, got, "") or ("none" in ex) != ("none" in got):
                ctx.violation("wstrings:secs:%s:%s" % (key, idn), "%s(%s) = %s, spec %s" % (key, idn, got, ex), case, o)
    m = mismatch(e["names"], o["names"], "")
    if m:
        ctx.violation("wstrings:secs:names%s" % m.replace("[]", ""), "Section::id/name: %s, spec %s" % (o["names"], e["names"]), case, o)
    return canon([case["mut"], case["fail"], case["prefill"]])


# ------------------------------------------------------------------ Dwarf::write
def check_dwarf(ctx, case, o):
    e = case["exp"]
    cfg = "+".join("v%d/%d" % (u["ver"], u["fmt"] * 8) for u in case["units"]) + ("" if case["times"] == 1 else ":twice")
    if o.get("write") != "ok":
        ctx.violation("wstrings:dwarf:write-error", "%s: Dwarf::write failed: %s" % (cfg, o.get("write")), case, o)
        return None
    if is_err(o.get("units")):
        ctx.violation("wstrings:dwarf:read-error", "%s: reading back failed: %s" % (cfg, o["units"]), case, o)
        return None
    for sec in ("debug_str", "debug_line_str"):
        if o[sec] != e[sec]:
            ctx.violation("wstrings:dwarf:section:%s%s" % (sec, ":twice" if case["times"] == 2 else ""),
                          "%s: .%s is %s, spec %s" % (cfg, sec, o[sec], e[sec]), case, o)
    if len(o["units"]) != len(e["units"]):
        ctx.violation("wstrings:dwarf:unit-count", "%s: %d units read back, spec %d" % (cfg, len(o["units"]), len(e["units"])), case, o)
        return None
    some = False
    for ui, (eu, gu) in enumerate(zip(e["units"], o["units"])):
        if (eu["version"], eu["format"]) != (gu["version"], gu["format"]):
            ctx.violation("wstrings:dwarf:encoding", "%s unit %d: read back v%s/%s" % (cfg, ui, gu["version"], gu["format"]), case, o)
        if len(eu["names"]) != len(gu["names"]):
            ctx.violation("wstrings:dwarf:name-count", "%s unit %d: %d names, spec %d" % (cfg, ui, len(gu["names"]), len(eu["names"])), case, o)
            continue
        for en, gn in zip(eu["names"], gu["names"]):
            some = True
            kind = en["form"].replace("DW_FORM_", "")
            where = "wstrings:dwarf:%s:v%d:fmt%d" % (kind, eu["version"], eu["format"] * 8)
            if is_err(gn):
                ctx.violation(where + ":unresolved", "%s: %s at offset %s does not resolve: %s (spec: %s)" %
                              (cfg, en["form"], gn.get("off"), gn["err"], en["s"]), case, o)
            elif gn.get("s") != en["s"]:
                ctx.violation(where + ":wrong-string", "%s: %s offset %s resolves to %s, the string added was %s" %
                              (cfg, gn.get("form"), gn.get("off"), gn.get("s"), en["s"]), case, o)
            elif gn.get("form") != en["form"]:
                # which form carries the string is the writer's choice
                ctx.drift.append({"where": "dwarf.form", "model": en["form"], "gimli": gn.get("form"), "version": eu["version"]})
            elif "off" in en and gn.get("off") != en["off"]:
                ctx.drift.append({"where": "dwarf.offset", "model": en["off"], "gimli": gn.get("off")})
    return canon([case["units"], case["times"]]) if some else None


def check_dwarf_nul(ctx, case, o):
    """Violated precondition (a NUL inside AttributeValue::String): nothing is demanded; what gimli does is recorded."""
    if o.get("write") == "ok":
        back = o.get("units")
        ctx.drift.append({"where": "dwarf.string-with-nul", "version": case["units"][0]["ver"],
                          "note": "Dwarf::write accepted AttributeValue::String containing NUL; reading the output back gives %s" %
                                  (("error " + str(back.get("err"))) if is_err(back) else json.dumps(back)[:200])})
    return None


CHECKERS = {"dwarf_nul": check_dwarf_nul, "tbl": check_tbl, "vec": check_vec, "secs": check_secs, "dwarf": check_dwarf}


# ------------------------------------------------------------------------ traces
def validate_traces(ctx, trace, module="WStringsTrace", chunk=20000):
    """Modelled on c09.validate_chunks.  A trace file is a concatenation of scripts, each
    starting with a Reset / VReset event.  Chunks are cut at script boundaries; on a
    rejected event the rest of that script is skipped (its state is unknown) and
    validation continues with the next script."""
    lines = [l for l in open(trace) if l.strip()]
    starts = [i for i, l in enumerate(lines) if '"ev":"Reset"' in l or '"ev":"VReset"' in l]
    if not starts or starts[0] != 0:
        raise ToolError("trace does not start with a Reset event")
    starts.append(len(lines))
    pos = 0
    rejected = 0
    while pos < len(lines):
        end = max([s for s in starts if pos < s <= pos + chunk] or [min(s for s in starts if s > pos)])
        part = lines[pos:end]
        p = os.path.join(ctx.work, "chunk.ndjson")
        with open(p, "w") as f:
            f.writelines(part)
        ok, info = ctx.validate_trace(module, p)
        if ok:
            pos = end
            ctx.cov["traces_validated_against_impl"] += len(part)
            continue
        um = info.get("unmatched")
        if not um:
            raise ToolError("trace validation failed without an unmatched event: %s" % info.get("error"))
        idx_s, js = um.split(", ", 1)
        idx = int(idx_s)
        ev = json.loads(part[idx - 1])
        ctx.cov["traces_validated_against_impl"] += idx - 1
        detail = ""
        if ev["ev"] == "Add":
            detail = ":panic" if "panic" in ev["res"] else (":nul-accepted" if 0 in ev["b"] else ":id")
        elif ev["ev"] == "VWriteAt":
            detail = ":" + str(ev.get("res"))
        elif ev["ev"] in ("ReadBack", "ReadAt"):
            detail = ":err" if "err" in ev.get("r", {}) else ":string"
        ctx.violation("wstrings:trace:%s%s" % (ev["ev"], detail),
                      "recorded event %d is not explainable by WStrings.tla: %s" % (pos + idx, json.dumps(ev)[:500]), ev, None)
        rejected += 1
        if rejected > 40:
            raise ToolError("too many rejected events")
        pos = min(s for s in starts if s > pos + idx - 1)


def run(ctx):
    q = ctx.quick
    profiles = ["dev"] if q else ["dev", "release"]
    bins = {p: ctx.build("gvh-wstrings", p) for p in profiles}
    cfg = write_cfg("MCWStrings_%s_run" % ctx.tier, {"MaxTbl": 4 if q else 5, "MaxVec": 3 if q else 4, "MaxDies": 3 if q else 4,
                                       "TwoFull": "FALSE" if q else "TRUE"})
    res = ctx.tlc("MCWStrings", cfg, workers=min(4, ctx.workers), timeout=6000)
    counts = {}
    for prof, b in bins.items():
        obs = ctx.replay(b, res.cases_path, tag="wstrings-" + prof)
        for i, case in enumerate(read_ndjson(res.cases_path)):
            o = obs.get(i)
            if abnormal(ctx, o, "wstrings:" + case["sys"], case):
                continue
            harness_bug(ctx, o)
            key = CHECKERS[case["sys"]](ctx, case, o)
            if key:
                ctx.nontrivial(case["sys"] + key)
            if prof == "dev":
                counts[case["sys"]] = counts.get(case["sys"], 0) + 1
            if i % 4001 == 17 or (case["sys"] == "secs" and case["fail"] == 3 and case["mut"] and not case["prefill"]):
                ctx.sample({"case": case, "obs": o}, limit=8)

    # --- V: recorded random scripts
    tr = ctx.record(bins["dev"], "wstrings.ndjson", ["--seed", ctx.seed, "--n", 45 if q else 600, "--ops", 120 if q else 200])
    validate_traces(ctx, tr)

    ctx.assumptions += [
        "ids are observed as the rank of the returned id among the distinct ids returned so far (==) and as the `index` field of its Debug output; if Debug does not show it, only the rank is compared",
        "get with an id of a different table: a panic (debug builds, BaseId) or the string at that index (release builds, index in range) are both allowed; out of range must panic",
        "offset(id) is relative to the start of the table: read-back = added is demanded of a write into an empty section; for a second write into the same section the spec predicts what get_str finds (as coded)",
        "Dwarf::write twice on the same Sections: units are skipped, both string tables are appended again (as coded); references must still resolve",
        "the form carrying a string (strp / line_strp / string) and the numeric offset are compared as drift; the property is that the reference resolves to the string added",
        "DW_FORM_line_strp is emitted for LineStringRef in units of every version 2..5 (as coded); read::Dwarf accepts it",
        "error kinds (OffsetOutOfBounds vs LengthOutOfBounds, UnexpectedEof) are compared as drift only",
        "the visiting order of for_each is drift; the property is: every section exactly once, the section passed is the one of that id, a section is visited after the sections it references, same order on each call",
        "cases per sub-model: %s" % json.dumps(counts, sort_keys=True),
    ]
    ctx.finish("model_checking",
               rule="one case per call script explored by TLC (string table, EndianVec, Sections) and per (item list, unit configuration) for Dwarf::write; "
                    "non-trivial = a table script with at least one accepted add, a non-empty sink script, a Dwarf with at least one name, every Sections case; "
                    "plus every recorded event validated by WStringsTrace",
               exhaustive=True)
