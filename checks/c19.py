"""C19 — filtered conversion output is dependency-closed, complete and minimal.

Deciding spec: Filter.tla (declarative closure = the property; FilterDependencies /
FilterUnit::read_entry / get_reachable worklist / per-unit reservation as coded).
 G: MCFilter enumerates every small input graph (ordered forests over 1-2 units,
    tag classes at every position where they matter, every set of reference edges
    incl. self references, cycles, invalid offsets, unit roots; concrete tags and
    reference kinds rotated over the tables of the spec).  Inside TLC: for EVERY
    subset of required entries the worklist as coded = the closure, the result is
    complete/minimal/dangling-free, reserved per unit, nesting intact.  Each graph is
    one replay case carrying, per required subset, the bounds the property allows
    (must = closure, may = connected set).  gvh-filter builds real DWARF with gimli's
    writer, runs the unfiltered and every filtered conversion, writes, reads back.
 V: gvh-filter records the filter traversal of random forests of 50-500 entries;
    FilterTrace.tla replays add_entry/add_edge/require_entry and checks the retained
    set against the closure computed on the accumulated graph.
"""
import json, os
from vlib import read_ndjson, write_ndjson, canon, ToolError

SPEC = os.path.join(os.path.dirname(os.path.abspath(__file__)), "..", "spec")

ENCODINGS = [(v, f, a) for v in (2, 3, 4, 5) for f in (32, 64) for a in (4, 8)]
FLOWS = ["convert", "steps", "incremental"]
SUSPECT_OPS = ("implptr", "varval", "entryval")


def opname(kind):
    return kind[2:] if kind[:2] in ("x_", "l_") else kind


def refname(r):
    """Name of a reference for signatures; references held by a unit root are marked."""
    return ("root:" if r["from"] < 0 else "") + opname(r["kind"])


def held(r, S):
    """The reference is held by an entry of S or by a (always converted) unit root."""
    return r["from"] < 0 or r["from"] in S


def write_cfg(name, consts):
    with open(os.path.join(SPEC, name + ".cfg"), "w") as f:
        f.write("INIT Init\nNEXT Next\nINVARIANT Inv\nCHECK_DEADLOCK FALSE\nCONSTANTS\n")
        for k, v in consts.items():
            f.write("  %s = %s\n" % (k, v))


def ids(names):
    return set(int(n[1:]) for n in names)


def judge(ctx, case, o, guilty, stats, recheck):
    """Compare one replayed graph (all required subsets) with the allowed sets."""
    if o is None or "outcome" in o:
        ctx.violation("filter:%s:%s" % ((o or {}).get("outcome"), (o or {}).get("loc", "")),
                      "filtered conversion did not return normally: %s" % json.dumps(o)[:300], case, o)
        return
    if o.get("build") != "ok":
        raise ToolError("input for case could not be built with gimli's writer: %s / %s" % (o.get("build"), json.dumps(case)[:400]))
    if case.get("version") == 5 and "lockinds" in o:
        want = {}
        for r in case["refs"]:
            if r.get("loc"):
                want.setdefault("root%d" % -r["from"] if r["from"] < 0 else "e%d" % r["from"], []).append(r["loc"])
        camel = {"offset_pair": "OffsetPair", "start_end": "StartEnd", "start_length": "StartLength", "startx_endx": "StartxEndx",
                 "startx_length": "StartxLength", "default_location": "DefaultLocation"}
        for holder, locs in want.items():
            got = [k for k in o["lockinds"].get(holder, []) if k != "BaseAddress"]
            if got != [camel[l] for l in locs]:
                raise ToolError("input builder produced location entries %s for %s, asked for %s" % (got, holder, locs))
    invalid = set(case["invalid"])
    unf_ok = o["unfiltered"].get("ok") is True
    refs = case["refs"]
    split = case.get("split") is True
    # the split flow drops the dwo attributes of the root by design
    nonroot = lambda d: [n for n in (d or []) if not (split and n.startswith("root"))]
    if unf_ok and (nonroot(o["unfiltered"].get("diff_in")) or o["unfiltered"].get("dangling")):
        ctx.drift.append({"what": "unfiltered conversion does not reproduce the input forest (C12 territory)",
                          "entries": o["unfiltered"].get("diff_in"), "case": case["id"]})
    if len(o["runs"]) != len(case["exp"]):
        raise ToolError("harness returned %d runs for %d required subsets" % (len(o["runs"]), len(case["exp"])))
    for x, run in zip(case["exp"], o["runs"]):
        stats["runs"] += 1
        must, may, req = set(x["must"]), set(x["may"]), set(x["req"])
        sub = dict(case, exp=[x])
        inner = sorted(set(refname(r) for r in refs if held(r, must)))
        if run.get("ok") is not True:
            if must & invalid or case.get("rootinvalid"):
                stats["expected_err"] += 1
                if not str(run.get("err", "")).startswith("Invalid"):
                    ctx.drift.append({"what": "error variant", "err": run.get("err"), "case": case["id"]})
                continue
            if may & invalid:
                # malformed input connected to the required entries: the property does not say
                # whether such a conversion succeeds
                ctx.drift.append({"what": "conversion failed; an invalid reference is connected to (not in the closure of) the required entries",
                                  "err": run.get("err"), "case": case["id"], "req": sorted(req)})
                continue
            # nothing connected to the required entries is malformed: the filtered conversion must succeed
            cand = [k for k in inner if k in guilty] or inner
            who = cand[0] if len(cand) == 1 or (cand and cand[0] in guilty) else "+".join(cand)
            if str(run.get("err", "")).startswith("Invalid") and run.get("stage") == "convert":
                ctx.violation("filter:unrecorded-ref:%s" % who,
                              "filtered conversion fails with %s%s: a reference of kind %s held by a retained entry targets an "
                              "entry the filter did not reserve; required=%s closure=%s refs=%s"
                              % (run.get("err"), " (unfiltered conversion succeeds)" if unf_ok else "", who, sorted(req), sorted(must), json.dumps(refs)),
                              sub, run)
            else:
                ctx.violation("filter:%s-failed:%s:%s" % (run.get("stage"), run.get("err"), who),
                              "filtered conversion failed at %s with %s although nothing connected to the required entries is malformed; required=%s"
                              % (run.get("stage"), run.get("err"), sorted(req)), sub, run)
            continue
        S = ids(run["retained"])
        if run["dangling"]:
            ctx.violation("filter:dangling:%s" % "+".join(inner),
                          "output holds references to missing entries: %s" % run["dangling"], sub, run)
        if S & invalid or case.get("rootinvalid"):
            ctx.violation("filter:invalid-ref-kept", "an entry with an invalid reference was converted without error", sub, run)
        missing = must - S
        if missing:
            why = sorted(set(refname(r) for r in refs if r["to"] in missing and held(r, must)))
            parents = set(e["parent"] for e in case["entries"] if e["id"] in must)
            if missing & req:
                why.append("required")
            if missing & parents:
                why.append("parent")
            members = sorted(set(e["tag"] for e in case["entries"] if e["id"] in missing and e["parent"] in must))
            if members and not why:
                why = ["member:" + t for t in members]
            ctx.violation("filter:missing:%s" % "+".join(why or ["?"]),
                          "entries %s must be in the output (required=%s, closure=%s) but only %s were retained"
                          % (sorted(missing), sorted(req), sorted(must), sorted(S)), sub, run)
        extra = S - may
        if extra:
            ctx.violation("filter:unconnected-kept",
                          "entries %s are in the output but not connected to any required entry (required=%s)"
                          % (sorted(extra), sorted(req)), sub, run)
        if not missing and not extra and S != must:
            tags = sorted(set(e["tag"] for e in case["entries"] if e["id"] in S - must))
            if any(r["from"] < 0 for r in refs):
                ctx.drift.append({"what": "output larger than the closure (root-held reference present; closedness not re-validated)",
                                  "req": sorted(req), "S": sorted(S)})
            else:
                recheck.append({"case": case, "req": sorted(req), "S": sorted(S), "tags": tags, "run": run})
        if run.get("diff_unf"):
            ctx.violation("filter:attrs-differ",
                          "retained entries %s differ (tag, parent or attribute list) from the unfiltered conversion"
                          % run["diff_unf"], sub, run)
        elif nonroot(run.get("diff_in")) and not unf_ok:
            ctx.drift.append({"what": "retained entries differ from the input forest", "entries": run["diff_in"], "case": case["id"]})
        if S == must:
            stats["exact"] += 1
    if any(set(x["must"]) != set(x["req"]) for x in case["exp"]):
        ctx.nontrivial(case["id"])


def recheck_supersets(ctx, recheck):
    """Outputs strictly between the closure and the connected set: the property
    allows them only if they are closed; Filter.tla decides (AllowedWith)."""
    if not recheck:
        return
    evs = []
    for r in recheck[:300]:
        c = r["case"]
        evs.append({"ev": "Reset", "nunits": c["nunits"]})
        for e in c["entries"]:
            p = e["parent"]
            ptag = "" if p == 0 else c["entries"][p - 1]["tag"]
            evs.append({"ev": "Entry", "idx": e["id"], "unit": e["unit"], "parent": p, "cparent": p, "parent_tag": ptag,
                        "tag": e["tag"], "decl": e["decl"],
                        "refs": [{"to": x["to"], "kind": x["kind"]} for x in c["refs"] if x["from"] == e["id"]]})
            if e["id"] in r["req"]:
                evs.append({"ev": "Require", "idx": e["id"]})
        evs.append({"ev": "Result", "ok": True, "retained": r["S"], "dangling": []})
    groups = split_groups(evs)
    bad = validate_groups(ctx, groups, "superset")
    for gi, ev in bad:
        r = recheck[gi]
        ctx.violation("filter:superset-not-closed:%s" % "+".join(r["tags"]),
                      "retained set %s (required %s) is larger than the closure and not closed under the property's edges"
                      % (r["S"], r["req"]), dict(r["case"], exp=[]), r["run"])
    badset = set(g for g, _ in bad)
    for gi, r in enumerate(recheck[:300]):
        if gi not in badset:
            ctx.drift.append({"what": "output larger than the closure but allowed", "req": r["req"], "S": r["S"], "tags": r["tags"]})


def split_groups(evs):
    groups = []
    for e in evs:
        if e["ev"] == "Reset" or not groups:
            groups.append([])
        groups[-1].append(e)
    return groups


def validate_groups(ctx, groups, tag, chunk_events=4000):
    """Validate groups of events (one input section each); a rejected group is
    reported and skipped so that the rest is still examined.  Returns [(group index, event)]."""
    bad = []
    pos = 0
    nruns = 0
    while pos < len(groups):
        part = []
        n = 0
        end = pos
        while end < len(groups) and (n == 0 or n + len(groups[end]) <= chunk_events):
            part.append(groups[end]); n += len(groups[end]); end += 1
        p = os.path.join(ctx.work, "chunk-%s.ndjson" % tag)
        write_ndjson(p, [e for g in part for e in g])
        ok, info = ctx.validate_trace("FilterTrace", p)
        nruns += 1
        if ok:
            ctx.cov["traces_validated_against_impl"] += n
            pos = end
            continue
        um = info.get("unmatched")
        if not um:
            raise ToolError("trace validation failed without an unmatched event: %s" % info.get("error"))
        idx_s, js = um.split(", ", 1)
        idx = int(idx_s)
        ev = json.loads(json.loads(js))
        # which group holds event number idx (1-based)?
        k = 0
        g = pos
        while k + len(groups[g]) < idx:
            k += len(groups[g]); g += 1
        ctx.cov["traces_validated_against_impl"] += k
        bad.append((g, ev))
        pos = g + 1
        if nruns > 60:
            raise ToolError("too many rejected traces")
    return bad


def run(ctx):
    q = ctx.quick
    b = ctx.build("gvh-filter", "dev")
    bins = [("dev", b)]
    if not q:
        bins.append(("release", ctx.build("gvh-filter", "release")))

    # ---------------------------------------------------------------- G
    if q:
        runs = [dict(MaxN=4, MaxUnits=2, MaxEdges=2, MaxEdgesBig=1, Salt=ctx.seed % 97, EmitMod=2, CheckSplit="FALSE", KindN=2, FewSubsets="TRUE", RootN=2)]
    else:
        runs = [dict(MaxN=4, MaxUnits=2, MaxEdges=3, MaxEdgesBig=1, Salt=1, EmitMod=3, CheckSplit="TRUE", KindN=3, FewSubsets="FALSE", RootN=3),
                dict(MaxN=4, MaxUnits=2, MaxEdges=0, MaxEdgesBig=2, Salt=0, EmitMod=7, CheckSplit="FALSE", KindN=0, FewSubsets="TRUE", RootN=0),
                dict(MaxN=5, MaxUnits=1, MaxEdges=0, MaxEdgesBig=1, Salt=7, EmitMod=3, CheckSplit="FALSE", KindN=0, FewSubsets="FALSE", RootN=0)]
    stats = {"runs": 0, "exact": 0, "expected_err": 0}
    decisive, dtags, dlocs, dshapes = set(), set(), set(), set()
    allk = set()
    guilty = set()
    recheck = []
    for ri, consts in enumerate(runs):
        write_cfg("MCFilter_run", consts)
        r = ctx.tlc("MCFilter", "MCFilter_run", timeout=5400, cases_name="filter-%d" % ri)
        cases = []
        for i, c in enumerate(read_ndjson(r.cases_path)):
            v, f, a = ENCODINGS[(i + consts["Salt"]) % len(ENCODINGS)]
            if c.get("want5"):
                v = 5          # the case enumerates .debug_loclists entry kinds
            c.update(id="%d.%d" % (ri, i), version=v, format=f, asz=a, flow=FLOWS[(i // 3) % 3], be=(i % 5 == 0))
            cases.append(c)
            decisive.update(c["decisive"]); dtags.update(c["dtags"])
            if v == 5:
                dlocs.update(c.get("dlocs", []))
            dshapes.update(c.get("dshapes", []))
            # single-unit graphs are also converted as a split unit through a skeleton unit
            # (FilterUnitSection::new_split -> ConvertUnit::convert_split_with_filter)
            if c["nunits"] == 1 and i % 2 == 0:
                cases.append(dict(c, id=c["id"] + "s", split=True))
        path = os.path.join(ctx.work, "filter-%d-replay.ndjson" % ri)
        write_ndjson(path, cases)
        for prof, binp in bins:
            obs = ctx.replay(binp, path, tag="filter-%d-%s" % (ri, prof))
            # pass 1: which single reference kinds make a well-formed conversion fail
            for i, c in enumerate(cases):
                o = obs.get(i)
                if not o or o.get("build") != "ok" or c["invalid"] or c.get("rootinvalid"):
                    continue
                for x, run_ in zip(c["exp"], o["runs"]):
                    if run_.get("ok") is not True:
                        inner = set(refname(rr) for rr in c["refs"] if held(rr, set(x["must"])))
                        if len(inner) == 1:
                            guilty |= inner
            for i, c in enumerate(cases):
                judge(ctx, c, obs.get(i), guilty, stats, recheck)
                if i < 2 and prof == "dev" and ri == 0:
                    ctx.sample({"case": {k: c[k] for k in ("entries", "refs", "version", "flow")}, "exp": c["exp"][-1],
                                "obs": (obs.get(i) or {}).get("runs", [None])[-1]})
    recheck_supersets(ctx, recheck)
    # vacuity: every reference kind / a good share of the tag table must have decided some result
    kinds_tbl = ["attr_info", "attr_unit"] + [p + o for p in ("x_", "l_") for o in
                 ("callref", "implptr", "varval", "entryval", "call", "paramref", "deref_type", "regval_type", "const_type", "convert", "reinterpret")]
    for k in kinds_tbl:
        if k not in decisive:
            ctx.cov["not_exercised"].append("reference kind never decisive: " + k)
    for k in ("offset_pair", "start_end", "start_length", "startx_endx", "startx_length", "default_location"):
        if k not in dlocs:
            ctx.cov["not_exercised"].append("location entry kind never decisive in a DWARF 5 case: " + k)
    for k in ("normal", "empty", "reversed", "tomb", "tombbase"):
        if k not in dshapes:
            ctx.cov["not_exercised"].append("location entry range shape never decisive: " + k)
    extra = {"required_subsets_replayed": stats["runs"], "exact_closure": stats["exact"], "expected_errors": stats["expected_err"],
             "decisive_kinds": sorted(decisive), "decisive_tags": len(dtags), "decisive_loc_entry_kinds": sorted(dlocs), "decisive_loc_range_shapes": sorted(dshapes)}

    # ---------------------------------------------------------------- V
    kinds = ["attr_unit", "attr_info", "x_call", "x_callref", "x_paramref", "x_deref_type", "x_regval_type", "x_const_type",
             "x_convert", "x_reinterpret", "l_callref", "l_call", "l_paramref", "l_deref_type", "l_convert"]
    for op in SUSPECT_OPS:       # only when the G part found them recorded correctly on this tree
        if op not in guilty:
            kinds += ["x_" + op, "l_" + op]
    n = 8 if q else 60
    tr = ctx.record(b, "forests.ndjson", ["--seed", ctx.seed, "--n", n, "--min", 50, "--max", 300 if q else 500,
                                          "--kinds", ",".join(kinds)])
    groups = split_groups(list(read_ndjson(tr)))
    for gi, ev in validate_groups(ctx, groups, "forest"):
        what = ev.get("ev")
        if what == "Outcome" and isinstance(ev.get("o"), dict) and ev["o"].get("build") not in (None, "ok"):
            # the random input could not be built with gimli's writer: a generator problem, not a filter result
            raise ToolError("record: input forest %d could not be built: %s" % (gi, ev["o"].get("build")))
        sig = "trace:%s" % what
        if what == "Result":
            sig += ":ok" if ev.get("ok") else ":%s:%s" % (ev.get("stage"), ev.get("err"))
        elif what == "Entry":
            sig += ":parent" if ev.get("parent") != ev.get("cparent") else ":other"
        ctx.violation(sig, "forest %d: event not explainable by Filter.tla: %s" % (gi, json.dumps(ev)[:500]), ev, None)
    ctx.assumptions += [
        "the unit root entries are outside the filter's universe: they are never presented to the user, always output, and references to them are satisfied",
        "an output strictly between the closure and the set connected to the required entries is accepted if closed (recorded as drift)",
        "inputs with an invalid reference: an error is required when the holder is in the closure; elsewhere ok/err both accepted (drift)",
        "DW_TAG_base_type entries are not placed directly under a root in generated inputs (the writer that builds the input would reorder them)",
        "split-unit filters: every second single-unit graph is additionally converted through a DWARF 4 style skeleton unit (GNU dwo id); the split sections are loaded with the default file type",
        "concrete tags / reference kinds are rotated over the spec's tables rather than multiplied into the state space; evidence lists kinds that never decided a result",
    ]
    ctx.finish("model_checking",
               rule="one case per input graph explored by TLC (forest x tag classes x reference-edge set), replayed for every subset of required entries; "
                    "non-trivial = the closure of some subset is larger than the subset; trace events validated one by one by FilterTrace",
               exhaustive=True, extra_cov=extra)
