"""C13 — written line programs read back to exactly the rows that were generated.

Deciding spec: LineWriter.tla (opcode selection of generate_row as coded, builder
machine, directory/file identity) composed with LineSM.tla (DWARF line machine).
 TLC (MCLineWriter): for each parameter tuple and each line advance the theorem
    Exec(Select(dline, dop)) = (dline, dop) for every operation advance of the grid,
    SelectRefines against LineSM's machine on the selection frontiers, and for call
    scripts: the emitted instructions run on LineSM's machine give the meaning rows.
 G: every grid point (two-row sequence) and every call script is replayed on
    gimli::write::LineProgram, written, and read back with gimli::read by
    gvh-linew; rows and tables must equal the generated ones; the emitted opcodes
    are compared with the model's selection (difference with equal rows = drift).
 V: random multi-sequence scripts with 64-bit values: LineWriterTrace validates
    that the rows read back are the meaning of the recorded calls.
"""
import json, os
from vlib import read_ndjson, canon, ToolError, SPEC

FIELDS = ["addr", "op_index", "file", "line", "column", "flags", "isa", "discriminator"]
DEF_OVF = "select:special-opcode-overflow"
DEF_OPI = "vliw:set_address-keeps-stale-op_index"
DEF_NEW = "new:line_range>=128:i8-cast-in-assert"


def new_panic(ctx, P, o, case):
    """LineProgram::new evaluates `line_base + line_range as i8 > 0`: for line_range >= 128 the cast is negative, so
    valid parameters are rejected (assertion failure, or an add overflow in debug builds)."""
    if o and o.get("outcome") == "panic" and P["lrange"] >= 128 and P["lbase"] + P["lrange"] > 0 and \
            ("line_base + line_encoding.line_range" in o.get("msg", "") or
             (o.get("msg") == "attempt to add with overflow" and o.get("loc", "").startswith("src/write/line.rs"))):
        ctx.violation(DEF_NEW, "LineProgram::new panics for line_base %d, line_range %d (documented: only if line_base + line_range <= 0): %s"
                      % (P["lbase"], P["lrange"], o.get("msg")), {"P": P}, o)
        return True
    return False


def write_cfg(name, maxdl, maxdop, slen, flen, tuples, modes, band):
    with open(os.path.join(SPEC, name + ".cfg"), "w") as f:
        f.write("INIT Init\nNEXT Next\nINVARIANT Inv\nCHECK_DEADLOCK FALSE\nCONSTANTS\n  MaxDL = %d\n  MaxDop = %d\n"
                "  ScriptLen = %d\n  FilesLen = %d\n  Tuples = {%s}\n  Modes = {%s}\n  BandOnly = %s\n"
                % (maxdl, maxdop, slen, flen, ", ".join(map(str, tuples)), ", ".join('"%s"' % m for m in modes),
                   "TRUE" if band else "FALSE"))
    return name


def tb(n):
    out = []
    while n:
        out.append(n & 255); n >>= 8
    return out


def rows_diff(exp, got):
    """first difference; end_sequence rows are compared on address, op_index and the flag only"""
    if len(exp) != len(got):
        return "count"
    for e, g in zip(exp, got):
        es = (e[5] >> 2) & 1
        if es:
            if not (g[5] >> 2) & 1:
                return "flags"
            if e[0] != g[0]:
                return "addr"
            if e[1] != g[1]:
                return "op_index"
            continue
        for i, n in enumerate(FIELDS):
            if e[i] != g[i]:
                return n
    return None


def hdr_check(ctx, P, o, case, sig):
    h = o.get("hdr") or {}
    want = {"ver": P["ver"], "fmt": P["fmt"], "asz": P["asz"], "mil": P["mil"],
            "maxops": P["maxops"] if P["ver"] >= 4 else 1, "dis": P["dis"], "lbase": P["lbase"], "lrange": P["lrange"],
            "obase": 13, "unit_end": True}
    for k, v in want.items():
        if h.get(k) != v:
            ctx.violation("%s:hdr:%s" % (sig, k), "header read back: %s = %s, written %s" % (k, h.get(k), v), case, o)


def ptag(P):
    return "v%d:mil%d:mo%d:lb%d:lr%d" % (P["ver"], P["mil"], P["maxops"], P["lbase"], P["lrange"])


def compare_script(ctx, case, o):
    exp, P = case["exp"], case["P"]
    if new_panic(ctx, P, o, case):
        return
    if case["sys"] == "mixed":
        u = case["uenc"]
        tag = "mixed:prog-v%d-fmt%d:unit-v%d-fmt%d" % (P["ver"], P["fmt"], u["ver"], u["fmt"])
        ctx.nontrivial(canon([P, u]))
        if exp.get("refuse"):
            # a version >= 5 program under a unit of version < 5: write() must refuse; which error is drift
            if o is not None and "outcome" not in o and o.get("ok"):
                ctx.violation(tag + ":not-refused", "LineProgram::write accepted an incompatible unit encoding", case, o)
            elif o is None or "outcome" in o:
                ctx.violation(tag + ":%s" % (o or {}).get("outcome"), "write did not return normally: %s" % json.dumps(o)[:300], case, o)
            return
        if o is not None and "outcome" not in o and o.get("ok") and "read" not in o:
            d = rows_diff(exp["rows"], o["rows"]) or ("rerr" if o.get("rerr") else None)
            if d:
                ctx.violation("%s:rows:%s" % (tag, d), "program written for a unit of another version/format: rows read back %s (%s), generated %s; opcodes %s"
                              % (o["rows"], o.get("rerr"), exp["rows"], o.get("ins")), case, o)
                return
    if o is None or "outcome" in o:
        oc, loc = (o or {}).get("outcome"), (o or {}).get("loc", "")
        if exp.get("ovf"):
            ctx.violation(DEF_OVF + ":panic", "generate_row: special opcode > 255 (debug assertion): %s" % json.dumps(o)[:300], case, o)
        else:
            ctx.violation("script:%s:%s" % (oc, loc), "writer/reader did not return normally: %s" % json.dumps(o)[:300], case, o)
        return
    if not o.get("ok") or "read" in o:
        ctx.violation("script:write-error:%s" % (o.get("err") or o.get("read")), "write/read failed: %s" % json.dumps(o)[:300], case, o)
        return
    hdr_check(ctx, P, o, case, "script")
    d = rows_diff(exp["rows"], o["rows"]) or ("rerr" if o.get("rerr") else None)
    if d:
        what = "rows read back %s (%s), generated %s; calls %s" % (o["rows"], o.get("rerr"), exp["rows"], json.dumps(case["calls"])[:500])
        if exp.get("ovf"):
            ctx.violation(DEF_OVF + ":rows", what, case, o)
        elif exp.get("opireset") and not exp.get("modelok"):
            ctx.violation(DEF_OPI, what, case, o)
        else:
            ctx.violation("%s:rows:%s:%s" % (case["sys"], d, ptag(P)), what, case, o)
    elif o["ins"] != exp["ins"]:
        ctx.drift.append({"what": "emitted opcodes differ from the model's selection (rows equal)", "calls": case["calls"],
                          "got": o["ins"], "model": exp["ins"]})
    ctx.nontrivial(canon([P, case["calls"]]))


def compare_files(ctx, case, o):
    exp, P = case["exp"], case["P"]
    sig = "files:v%d:%s" % (P["ver"], case.get("strform"))
    if new_panic(ctx, P, o, case):
        return
    if o is None or "outcome" in o:
        ctx.violation("%s:%s:%s" % (sig, (o or {}).get("outcome"), (o or {}).get("loc", "")),
                      "writer/reader did not return normally: %s" % json.dumps(o)[:300], case, o)
        return
    if not o.get("ok") or "read" in o:
        ctx.violation("%s:write-error:%s" % (sig, o.get("err") or o.get("read")), "write/read failed: %s" % json.dumps(o)[:300], case, o)
        return
    hdr_check(ctx, P, o, case, sig)
    if o["dirs"] != exp["dirs"]:
        ctx.violation(sig + ":dirs", "directories read back %s, built %s" % (o["dirs"], exp["dirs"]), case, o)
    if o["files"] != exp["files"]:
        ctx.violation(sig + ":files", "files read back %s, built %s" % (o["files"], exp["files"]), case, o)
    if rows_diff(exp["rows"], o["rows"]):
        ctx.violation(sig + ":rows", "rows read back %s, generated %s" % (o["rows"], exp["rows"]), case, o)
    ctx.nontrivial(canon([P, case.get("strform"), case.get("flags"), case["calls"]]))


def compare_grid(ctx, case, obs):
    P = case["P"]
    stmt = 1 if P["dis"] else 0
    base, l0 = case["base"], case["L0"]
    nbad = 0
    if obs is None or "outcome" in obs:
        ctx.violation("grid:%s" % (obs or {}).get("outcome"), "grid case did not return: %s" % json.dumps(obs)[:300], case, obs)
        return
    for key, pt in case["dops"].items():
        lineb, addrb, opib, insb = pt
        o = obs.get(key)
        ctx.nontrivial((canon(P), case["dline"], key))
        def report(kind, what):
            nonlocal nbad
            nbad += 1
            small = {"P": P, "dline": case["dline"], "dop": int(key), "L0": l0, "base": base, "point": pt}
            if case.get("ovf"):
                ctx.violation("%s:%s" % (DEF_OVF, "panic" if kind == "panic" else "rows"), what, small, o)
            else:
                ctx.violation("grid:%s:%s" % (kind, ptag(P)), what, small, o)
        if new_panic(ctx, P, o, case):
            continue
        if o is None or "outcome" in o:
            report("panic", "dline %d dop %s: %s" % (case["dline"], key, json.dumps(o)[:300])); continue
        if not o.get("ok"):
            report("write-error", "dline %d dop %s: %s" % (case["dline"], key, json.dumps(o)[:300])); continue
        exp_rows = [[tb(base), [], [1], tb(l0), [], stmt, [], []],
                    [tb(addrb), tb(opib), [1], tb(lineb), [], stmt, [], []],
                    [tb(addrb), tb(opib), [1], tb(lineb), [], stmt | 4, [], []]]
        d = rows_diff(exp_rows, o["rows"]) or ("rerr" if o.get("rerr") else None)
        if d:
            report("rows:" + d, "dline %d dop %s: read back %s, generated %s; opcodes %s" % (case["dline"], key, o["rows"], exp_rows, o["ins"]))
        elif o["ins"] != case["pre"] + insb + case["post"]:
            ctx.drift.append({"what": "emitted opcodes differ from the model's selection (rows equal)", "P": P,
                              "dline": case["dline"], "dop": int(key), "got": o["ins"], "model": case["pre"] + insb + case["post"]})


def run(ctx):
    q = ctx.quick
    profiles = ["dev"] if q else ["dev", "release"]
    bins = {p: ctx.build("gvh-linew", p) for p in profiles}
    if q:
        cfg = write_cfg("MCLineWriter_run", 300, 600, 3, 2, [1, 3, 4, 8], ["grid", "script", "files", "mixed", "lines"], True)
    else:
        cfg = write_cfg("MCLineWriter_run", 300, 600, 4, 3, list(range(1, 13)), ["grid", "script", "files", "mixed", "lines"], False)
    r = ctx.tlc("MCLineWriter", cfg, timeout=4 * 3600)
    for tag, body in r.prints:
        if tag == "MODELDIFF":
            raise ToolError("LineWriter model: emitted instructions do not give the meaning rows on LineSM's machine: %s" % body[:1500])
    for prof, b in bins.items():
        obs = ctx.replay(b, r.cases_path, tag="g-" + prof, per_case_timeout=120)
        shown = set()
        for i, case in enumerate(read_ndjson(r.cases_path)):
            o = obs.get(i)
            k = case["sys"]
            if k == "grid":
                compare_grid(ctx, case, o)
            elif k == "files":
                compare_files(ctx, case, o)
            else:
                compare_script(ctx, case, o)
            if k not in shown and prof == "dev" and k != "grid" and len(case.get("calls", [])) >= 2:
                shown.add(k)
                ctx.sample({"sys": k, "P": case["P"], "calls": case["calls"], "exp_rows": case["exp"]["rows"],
                            "obs_rows": (o or {}).get("rows"), "obs_ins": (o or {}).get("ins")})
    # --- V
    tr = ctx.record(bins["dev"], "linew.ndjson", ["--seed", ctx.seed, "--n", 60 if q else 1500, "--len", 30 if q else 60])
    res = ctx.tlc("LineWriterTrace", "LineWriterTrace", workers=1, env={"TRACE": tr}, timeout=3600, deque=True, xmx="8g",
                  allow_error=True, cases_name="LineWriterTrace-tv")
    lines = [l for l in open(tr) if l.strip()]
    if res.error is None:
        ctx.cov["traces_validated_against_impl"] += len(lines)
    else:
        um = [body for tag, body in res.prints if tag == "UNMATCHED"]
        if not um:
            raise ToolError("trace validation failed without an unmatched event: %s" % res.error[:2000])
        idx = int(um[-1].split(",", 1)[0])
        ev = json.loads(lines[idx - 1])
        ctx.cov["traces_validated_against_impl"] += idx - 1
        k = idx - 1
        while k > 0 and json.loads(lines[k]).get("ev") != "New":
            k -= 1
        new = json.loads(lines[k])
        calls = [json.loads(l)["c"] for l in lines[k + 1:idx - 1] if '"ev":"Call"' in l]
        ctx.violation("trace:%s:%s" % (ev.get("ev"), ptag(new["P"])),
                      "rows read back are not the rows generated (unit %s): %s" % (new.get("tag"), json.dumps(ev)[:400]),
                      {"P": new["P"], "calls": calls, "event": ev}, None)
    ctx.assumptions += [
        "call scripts respect the documented preconditions: address offsets never decrease within a sequence and are multiples of minimum_instruction_length, op_index < maximum_operations_per_instruction, the operation pointer never moves backwards, set_address never moves backwards",
        "an end_sequence row is compared on address, op_index and the end_sequence flag (DWARF: the other registers of that row are not meaningful)",
        "addresses are Address::Constant (relocatable addresses belong to C18)",
        "bounded models use values < 2^31; 64-bit addresses/lines/columns/discriminators are covered by trace validation",
        "a different opcode choice with equal rows is drift, not a violation",
    ]
    ctx.finish("model_checking",
               rule="one case per (parameter tuple, line advance) carrying every operation advance of the grid / band (each point counted), "
                    "one case per call script and per directory/file script; random scripts are validated by LineWriterTrace",
               exhaustive=True)
