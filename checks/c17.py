"""C17 — accelerated lookups and section plumbing agree with exhaustive scans.

Deciding spec: Lookup.tla (abstract tables, DWARF encoders, the lookups as coded
in gimli, the exhaustive scans) over BV.tla.
 G: MCIndex (hash index: every table of 1/2/4/8 slots at every load, raw slot
    arrays, every column subset of versions 2/5, package unit assembly),
    MCNames (.debug_names hash buckets, entry pool, parent chains, CU/TU
    resolution, DJB hash), MCAranges (aranges, pubnames/pubtypes, str_offsets /
    addr indexing), MCLoader (section loader as a function SectionId -> field).
    TLC checks "lookup as coded = exhaustive scan" as an invariant on every
    explored table and emits one replay case per state; gvh-lookup replays them.
 V: gvh-lookup builds large random tables, probes every key on gimli and logs
    the table (hint) and every result; LookupTrace.tla re-encodes the hint and
    compares every result with the scan of the abstract table.
"""
import json, os
from vlib import read_ndjson, canon, ToolError, SPEC


# ---------------------------------------------------------------- comparison
def is_err(x):
    return isinstance(x, dict) and "err" in x


def mismatch(exp, obs, path=""):
    """First path where the observation is outside the expectation, or None.
    {"err": k} in the expectation matches any error (kinds are compared as drift)."""
    if is_err(exp):
        return None if is_err(obs) else path + ":expected-error"
    if isinstance(exp, dict):
        if not isinstance(obs, dict):
            return path + ":shape"
        if is_err(obs):
            return path + ":unexpected-error:" + str(obs.get("err"))
        for k, v in exp.items():
            if k not in obs:
                return "%s.%s:missing" % (path, k)
            m = mismatch(v, obs[k], "%s.%s" % (path, k))
            if m:
                return m
        return None
    if isinstance(exp, list):
        if not isinstance(obs, list):
            return path + (":unexpected-error:" + str(obs.get("err")) if is_err(obs) else ":shape")
        if len(exp) != len(obs):
            return path + ":length"
        for i, (a, b) in enumerate(zip(exp, obs)):
            m = mismatch(a, b, path + "[]")
            if m:
                return m
        return None
    return None if exp == obs else path + ":value"


def err_drift(ctx, exp, obs, where):
    """Record error-kind differences (the property only says 'an error')."""
    if is_err(exp) and is_err(obs):
        if exp["err"] != "any" and exp["err"] != obs["err"]:
            ctx.drift.append({"where": where, "model_error": exp["err"], "gimli_error": obs["err"]})
    elif isinstance(exp, dict) and isinstance(obs, dict):
        for k in exp:
            if k in obs:
                err_drift(ctx, exp[k], obs[k], where + "." + k)
    elif isinstance(exp, list) and isinstance(obs, list):
        for a, b in zip(exp, obs):
            err_drift(ctx, a, b, where)


def abnormal(ctx, o, prefix, case):
    if o is None or (isinstance(o, dict) and "outcome" in o):
        oc = (o or {}).get("outcome", "missing")
        ctx.violation("%s:%s:%s" % (prefix, oc, (o or {}).get("loc", "")),
                      "%s case did not return normally: %s" % (prefix, json.dumps(o)[:300]), case, o)
        return True
    return False


def write_cfg(name, consts, extra=""):
    with open(os.path.join(SPEC, name + ".cfg"), "w") as f:
        f.write("INIT Init\nNEXT Next\nINVARIANT Inv\nCHECK_DEADLOCK FALSE\n" + extra + "CONSTANTS\n")
        for k, v in consts.items():
            f.write("  %s = %s\n" % (k, v))
    return name


# -------------------------------------------------------------------- index
def check_index(ctx, case, o):
    mode = case["mode"]
    for which in ("cu", "tu"):
        ob = o[which]
        m = mismatch(case["parse"], ob.get("parse"), "parse")
        if m:
            ctx.violation("index:%s:%s" % (mode, m), "UnitIndex::parse on %s: got %s, spec %s" %
                          (case["bytes"], ob.get("parse"), case["parse"]), case, o)
            continue
        err_drift(ctx, case["parse"], ob.get("parse"), "index.parse")
        if is_err(case["parse"]):
            continue
        for i, p in enumerate(case["probes"]):
            got = ob["find"][i]
            allowed = [canon(a) for a in case["find"][i]]
            if canon(got) not in allowed:
                kind = "miss-of-present" if not got.get("hit") else ("hit-of-absent" if case["find"][i] == [{"hit": False}] else "wrong-row")
                ctx.violation("index:find:%s:%s" % (mode, kind),
                              "find(%s) = %s, exhaustive scan allows %s (slots=%d)" %
                              (p, got, case["find"][i], case["parse"]["ncount"]), case, o)
            elif canon(got) != canon(case["coded"][i]):
                ctx.drift.append({"where": "index.find", "id": p, "model": case["coded"][i], "gimli": got})
        for i, r in enumerate(case["rows"]):
            m = mismatch(case["sections"][i], ob["sections"][i], "sections")
            if m:
                ctx.violation("index:%s:%s" % (mode, m), "sections(%d) = %s, spec %s" %
                              (r, ob["sections"][i], case["sections"][i]), case, o)
            err_drift(ctx, case["sections"][i], ob["sections"][i], "index.sections")


def check_unit_view(ctx, exp, got, what, case, o):
    if "none" in exp:
        if not (isinstance(got, dict) and got.get("none")):
            ctx.violation("dwp:%s:expected-none" % what, "%s: got %s, spec: not in the index" % (what, json.dumps(got)[:300]), case, o)
        return
    if is_err(exp):
        if not is_err(got):
            ctx.violation("dwp:%s:expected-error" % what, "%s: got %s, spec: error" % (what, json.dumps(got)[:300]), case, o)
        else:
            err_drift(ctx, exp, got, "dwp." + what)
        return
    if is_err(got) or got.get("none"):
        ctx.violation("dwp:%s:%s" % (what, "unexpected-error" if is_err(got) else "unexpected-none"),
                      "%s: got %s, spec: a unit" % (what, json.dumps(got)[:300]), case, o)
        return
    for sec, b in exp.items():
        if got["sections"].get(sec) != b:
            ctx.violation("dwp:%s:section:%s" % (what, sec),
                          "%s: section %s of the assembled unit is %s (origin %s), spec %s" %
                          (what, sec, got["sections"].get(sec), got["origin"].get(sec), b), case, o)
    if got.get("file_type") != "Dwo":
        ctx.violation("dwp:%s:file_type" % what, "file_type %s" % got.get("file_type"), case, o)


def check_dwp(ctx, case, o):
    m = mismatch(case["load"], o.get("load"), "load")
    if m:
        ctx.violation("dwp:%s" % m, "DwarfPackage::load: got %s, spec %s" % (o.get("load"), case["load"]), case, o)
        return
    if is_err(case["load"]):
        return
    for key, what in (("cu", "find_cu"), ("tu", "find_tu"), ("cu_sections", "cu_sections")):
        for i, exp in enumerate(case[key]):
            check_unit_view(ctx, exp, o[key][i], what, case, o)


def check_names(ctx, case, o):
    exp = []
    for e in case["exp"]:
        exp.append(e)
        if is_err(e.get("hdr")):
            break                      # a failing header ends the iteration
    mode = case["mode"]
    if not isinstance(o, list) or len(o) != len(exp):
        ctx.violation("names:%s:index-count" % mode, "headers() yielded %s items, spec %d" %
                      (len(o) if isinstance(o, list) else o, len(exp)), case, o)
        return
    wf = case["extra"]["wf"]
    for k, (e, ob) in enumerate(zip(exp, o)):
        strict = e
        if not wf and not is_err(e.get("index", {})):
            strict = dict(e, index={kk: v for kk, v in e["index"].items() if kk not in ("buckets", "by_hash")})
        m = mismatch(strict, ob, "names")
        if m:
            ctx.violation("names:%s:%s" % (mode, m.replace("[]", "")), "name index %d: %s; got %s" %
                          (k, m, json.dumps(ob)[:700]), case, o)
            continue
        err_drift(ctx, strict, ob, "names")
        if not wf and not is_err(e.get("index", {})) and not is_err(ob.get("index")):
            # ill-formed hash table: only soundness is required of find_by_hash
            for j, got in enumerate(ob["index"]["by_hash"]):
                scan = case["extra"]["scan"][j]
                items = [] if is_err(got) else [x for x in got["items"] if not is_err(x)]
                if any(x not in scan for x in items) or sorted(set(items)) != items:
                    ctx.violation("names:raw:unsound-hit", "find_by_hash(%s) yielded %s, names with that hash: %s" %
                                  (case["hash_probes"][j], items, scan), case, o)
                elif mismatch(e["index"]["by_hash"][j], got, "x"):
                    ctx.drift.append({"where": "names.raw.by_hash", "model": e["index"]["by_hash"][j], "gimli": got})
            for j, got in enumerate(ob["index"]["buckets"]):
                if got.get("runaway"):
                    ctx.violation("names:raw:runaway-bucket", "bucket walk did not end", case, o)
                elif mismatch(e["index"]["buckets"][j], got, "x"):
                    ctx.drift.append({"where": "names.raw.bucket", "model": e["index"]["buckets"][j], "gimli": got})


def check_djb(ctx, case, o):
    if o.get("hash") != case["exp"]:
        ctx.violation("djb:value", "case_folding_djb_hash(%s) = %s, spec %s" % (case["s"], o.get("hash"), case["exp"]), case, o)


def check_aranges(ctx, case, o):
    exp = case["exp"]
    mode = case["mode"]
    if not isinstance(o, list) or len(o) != len(exp):
        ctx.violation("aranges:%s:set-count" % mode, "headers() yielded %s, spec %d sets" % (json.dumps(o)[:300], len(exp)), case, o)
        return
    for e, ob in zip(exp, o):
        m = mismatch(e["hdr"], ob.get("hdr"), "hdr")
        if m:
            ctx.violation("aranges:%s:%s" % (mode, m), "arange header: got %s, spec %s" % (ob.get("hdr"), e["hdr"]), case, o)
            continue
        if is_err(e["hdr"]):
            continue
        if not ob.get("direct_same"):
            ctx.violation("aranges:header-at-offset", "DebugAranges::header(offset) differs from the iterated header", case, o)
        for key, allowed in (("raw", e["raw_allowed"]), ("entries", e["allowed"])):
            if all(mismatch(a, ob[key], key) for a in allowed):
                asz = e["hdr"]["asz"]
                ctx.violation("aranges:%s:%s:asz%d" % (mode, key, asz), "arange %s: got %s, the table holds %s" %
                              (key, json.dumps(ob[key])[:500], json.dumps(e[key])[:500]), case, o)
            elif mismatch(e[key], ob[key], key):
                ctx.drift.append({"where": "aranges." + key, "model": e[key], "gimli": ob[key]})


def check_pub(ctx, case, o):
    for which in ("names", "types"):
        m = mismatch(case["exp"], o[which], "pub" + which)
        if m:
            ctx.violation("pub:%s" % m.replace("[]", ""), "pub%s items: got %s, the table holds %s" %
                          (which, json.dumps(o[which])[:500], json.dumps(case["exp"])[:500]), case, o)
        else:
            err_drift(ctx, case["exp"], o[which], "pub")


def check_idx(ctx, case, o):
    for i, (e, got) in enumerate(zip(case["exp"], o["res"])):
        if mismatch(e, got, "x"):
            n = sum(1 for x in case["exp"] if not is_err(x))
            where = "inside" if case["probes"][i] < n else ("at-end" if case["probes"][i] == n else "beyond-end")
            ctx.violation("idx:%s:%s" % (case["kind"], where), "%s index %d of a table with %d entries (width %d): got %s, spec %s" %
                          (case["kind"], case["probes"][i], n, case["w"], got, e), case, o)
    for i, (e, got) in enumerate(zip(case.get("big_exp", []), o.get("big", []))):
        if isinstance(got, dict) and got.get("outcome") == "panic":
            # the property demands an error for an index beyond the end (fixed in gimli by 77caf5a: checked_mul)
            ctx.violation("idx:%s:index-overflow:panic" % case["kind"],
                          "%s index %s (far beyond the table): panic %s at %s instead of an error" %
                          (case["kind"], case["big_probes"][i], got.get("msg"), got.get("loc")), case, o)
        elif mismatch(e, got, "x"):
            ctx.violation("idx:%s:index-overflow:wrapped" % case["kind"],
                          "%s index %s (far beyond a table of %d entries, width %d) returned %s instead of an error" %
                          (case["kind"], case["big_probes"][i], sum(1 for x in case["exp"] if not is_err(x)), case["w"], got), case, o)
    if not is_err(o["bad_base"]):
        ctx.violation("idx:%s:base-beyond-end" % case["kind"], "base beyond the section accepted: %s" % o["bad_base"], case, o)


def check_loader(ctx, case, o):
    api, exp = case["api"], case["exp"]
    if o.get("result") != exp["outcome"]:
        ctx.violation("loader:%s:outcome" % api, "loader failing on %s: got %s, spec %s" % (case["fail"], o.get("result"), exp["outcome"]), case, o)
        return
    if "failed" in exp["outcome"]:
        return
    if sorted(o["requested"]) != sorted(exp["requested"]):
        ctx.violation("loader:%s:requested" % api, "requested ids %s, spec %s" % (sorted(o["requested"]), sorted(exp["requested"])), case, o)
    parsed = api in ("DwarfPackageSections::borrow", "DwarfPackage::load")
    for f, b in exp["fields"].items():
        if parsed and f in ("DebugCuIndex", "DebugTuIndex"):
            continue
        if o["fields"].get(f) != b:
            ctx.violation("loader:%s:field:%s" % (api, f), "field for %s holds %s, its section's data is %s" % (f, o["fields"].get(f), b), case, o)
    if parsed:
        for key in ("cu_find", "tu_find"):
            if o.get(key) != case[key]:
                ctx.violation("loader:%s:%s" % (api, key), "%s: got %s, spec %s" % (key, o.get(key), case[key]), case, o)
    if "none" in exp["sup_fields"]:
        if o["sup_fields"] != {"none": True}:
            ctx.violation("loader:%s:sup" % api, "unexpected supplementary sections", case, o)
    else:
        for f, b in exp["sup_fields"].items():
            if o["sup_fields"].get(f) != b:
                ctx.violation("loader:%s:sup-field:%s" % (api, f), "sup field for %s holds %s, spec %s" % (f, o["sup_fields"].get(f), b), case, o)
    if o.get("file_type") != exp["file_type"]:
        ctx.violation("loader:%s:file_type" % api, "file_type %s, spec %s" % (o.get("file_type"), exp["file_type"]), case, o)


CHECKERS = {"loader": check_loader, "aranges": check_aranges, "pub": check_pub, "idx": check_idx, "index": check_index, "dwp": check_dwp, "names": check_names, "djb": check_djb}


def replay_and_check(ctx, b, res, tag, nontrivial):
    obs = ctx.replay(b, res.cases_path, tag=tag)
    n = 0
    for i, case in enumerate(read_ndjson(res.cases_path)):
        o = obs.get(i)
        n += 1
        if abnormal(ctx, o, case["sys"], case):
            continue
        CHECKERS[case["sys"]](ctx, case, o)
        k = nontrivial(case)
        if k:
            ctx.nontrivial(k)
        if i % 997 == 3:
            ctx.sample({"case": {k: v for k, v in case.items() if k not in ("pkg", "parent", "main", "sup")}, "obs": o}, limit=8)
    return n


def validate_lookup_trace(ctx, trace, tag):
    """LookupTrace must consume every event.  A rejected lookup event is reported and
    removed, and validation continues (a rejected table event ends that trace)."""
    lines = [l for l in open(trace) if l.strip()]
    accepted = 0
    for attempt in range(3):
        p = os.path.join(ctx.work, "trace-%s-%d.ndjson" % (tag, attempt))
        with open(p, "w") as f:
            f.writelines(lines)
        ok, info = ctx.validate_trace("LookupTrace", p, timeout=3000)   # one TLC worker
        if ok:
            return accepted + len(lines)
        um = info.get("unmatched")
        if not um:
            raise ToolError("trace validation failed without an unmatched event: %s" % info.get("error"))
        idx_s, js = um.split(", ", 1)
        idx = int(idx_s)
        ev = json.loads(lines[idx - 1])
        res = ev.get("res") if isinstance(ev.get("res"), dict) else {}
        detail = ""
        if ev["ev"] == "Find":
            detail = ":hit" if res.get("hit") else ":miss"
        elif ev["ev"] == "FindByHash":
            detail = ":present" if ev.get("present") else ":absent"
        elif "outcome" in res:
            detail = ":" + str(res.get("outcome"))
        elif "err" in res:
            detail = ":err"
        brief = {k: v for k, v in ev.items() if k in ("ev", "id", "h", "i", "b", "row", "present", "res", "kind", "file", "stroff")}
        ctx.violation("trace:%s%s" % (ev["ev"], detail),
                      "event %d of %s is not explainable by Lookup.tla (lookup differs from the scan of the logged table, "
                      "or the logged table does not re-encode to the bytes): %s" % (idx, tag, json.dumps(brief)[:500]), brief, None)
        if ev["ev"] in ("IndexTable", "NamesTable", "Table", "CorpusIndex", "CorpusNames", "CorpusTable"):
            return accepted + idx - 1
        del lines[idx - 1]
    return accepted


def run(ctx):
    from concurrent.futures import ThreadPoolExecutor
    q = ctx.quick
    profiles = ["dev"] if q else ["dev", "release"]
    bins = {p: ctx.build("gvh-lookup", p) for p in profiles}
    B = lambda x: "TRUE" if x else "FALSE"

    # --- G: one TLC run per sub-system; at most ctx.workers (<= 4) TLC worker threads in total
    jobs = [
        ("index", "MCIndex", write_cfg("MCIndex_run", {"Mode": '"all"', "Big": B(not q), "RawBig": B(not q), "ColsFull": B(not q)})),
        ("names", "MCNames", write_cfg("MCNames_run", {"Mode": '"all"', "MaxNames": 3 if q else 4, "MaxEntries": 2 if q else 3,
                                                         "DjbLen": 2 if q else 3, "PoolNames": 2 if q else 3, "RawLen": 2 if q else 3,
                                                         "AbbrBig": B(not q)})),
        ("tables", "MCAranges", write_cfg("MCAranges_run", {"Mode": '"all"', "MaxTuples": 2 if q else 3})),
        ("loader", "MCLoader", "MCLoader"),
    ]
    par = max(1, min(4, ctx.workers))
    each = 2 if par >= 2 else 1            # TLC workers per run
    slots = max(1, par // each)            # concurrent TLC runs: each * slots <= 4

    # --- V: record large random tables while TLC runs
    rounds = [(ctx.seed, 10)] if q else [(ctx.seed + i, 12) for i in range(3)]
    traces = [(ctx.record(bins["dev"], "lookup-%d.ndjson" % sd, ["--seed", sd, "--n", 1, "--log2", k]), "seed%d" % sd)
              for sd, k in rounds]
    corpus = os.path.join(os.path.dirname(SPEC), "corpus")
    if os.path.isdir(corpus):
        # real gcc/clang sections (inputs only): judged by LookupTrace through the spec's layout decoders
        traces.append((ctx.record(bins["dev"], "lookup-corpus.ndjson", ["--seed", ctx.seed, "--corpus", corpus]), "corpus"))
    else:
        ctx.assumptions.append("corpus directory absent: no real-section traces were validated")

    if q and len(traces) > 1:
        # one TLC start for all traces (table events reset the trace spec's state)
        allp = os.path.join(ctx.work, "lookup-all.ndjson")
        with open(allp, "w") as f:
            for tr, _ in traces:
                f.write(open(tr).read())
        traces = [(allp, "+".join(t for _, t in traces))]

    def gjob(j):
        tag, module, cfg = j
        return tag, ctx.tlc(module, cfg, workers=each, cases_name=tag, timeout=6000)

    with ThreadPoolExecutor(max_workers=slots) as ex:
        gf = [ex.submit(gjob, j) for j in jobs]
        vf = [ex.submit(validate_lookup_trace, ctx, tr, tag) for tr, tag in traces]
        runs = [f.result() for f in gf]
        nev = sum(f.result() for f in vf)
    ctx.cov["traces_validated_against_impl"] += nev
    ctx.cov["states"] = sum(r["distinct"] for r in ctx.cov["tlc_runs"])
    ctx.cov["transitions"] = sum(r["generated"] for r in ctx.cov["tlc_runs"])

    def nontrivial(case):
        if case["sys"] == "loader":
            return canon([case["api"], case["fail"]])
        if case["sys"] in ("aranges", "pub", "idx"):
            return canon([case["sys"], case["bytes"], case.get("kind"), case.get("w")]) if len(case["bytes"]) > 12 else None
        if case["sys"] == "names":
            return canon([case["bytes"]]) if len(case["bytes"]) > 60 else None
        if case["sys"] == "djb":
            return canon(case["s"]) if case["s"] else None
        if case["sys"] == "index":
            if is_err(case["parse"]) or case["parse"]["ncount"] == 0:
                return None
            return canon([case["bytes"]])
        return canon([case["sys"], case.get("cu_index"), case["le"]])

    for prof, b in bins.items():
        for tag, res in runs:
            replay_and_check(ctx, b, res, "%s-%s" % (tag, prof), nontrivial)

    ctx.assumptions += [
        "index id 0 is the unused-slot marker: find(0) may report absent or the row stored in an unused slot",
        "hash tables not built by the standard's insertion (mode raw) may miss a present id; a hit must still name a row stored with that id",
        "ill-formed name-index hash tables (mode raw): find_by_hash may miss names but may only yield names with the probed hash",
        "aranges: a (0,0) tuple may be skipped (gimli) or end the set (standard); iteration may continue or stop after an overflowing tuple",
        "error kinds are compared as drift only",
        "trace validation uses tables built by the harness with the standard's construction; the logged table is re-encoded by the spec and must equal the bytes",
        "corpus sections (gcc/clang, /verif/corpus) carry no hint: the table is read off the bytes by the spec's layout decoders (Enc(Dec(bytes)) = bytes is checked); the name-index entry pool of corpus sections is not decoded",
        "full-minus-one index tables are recorded only with <= 256 slots (every miss walks the whole table); larger recorded tables are loaded up to 90 %",
        "name-index chains in recorded tables are kept short (bucket_count >= names/8) except on tables of <= 64 names",
    ]
    ctx.finish("model_checking",
               rule="one case per distinct state explored by TLC (table layout / column set / description / api x failing id); "
                    "non-trivial = the table parses and is non-empty; plus every lookup event on recorded tables validated by LookupTrace",
               exhaustive=True)
