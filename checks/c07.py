"""C07 — expression decoding and evaluation equal the DWARF stack machine.

Deciding specs: OpCodec.tla (decode), Value.tla (typed / generic arithmetic on BV),
Expr.tla (the evaluator as a state machine in the shape of gimli's Evaluation).
 G: MCExpr explores, on an 8-bit target, every program up to MaxLen symbols over
    several alphabet slices with every choice of resume answer, iteration limit and
    storage; machine invariants are checked in every state; each terminated
    behaviour is replayed on the real evaluator (events + final result compared).
    MCOpDecode enumerates all 256 opcode bytes x operand patterns x encodings.
 V: gvh-expr records random programs (address sizes 1/2/4/8, 64-bit operands,
    random resume answers); ExprTrace.tla re-runs the machine on each program and
    must reproduce every Requires* payload and the final result.
"""
import json, os
from vlib import read_ndjson, canon, ToolError, SPEC

ARITH = ["abs", "and", "div", "minus", "mod", "mul", "neg", "not", "or", "plus", "shl", "shr", "shra", "xor",
         "eq", "ge", "gt", "le", "lt", "ne"]
STACK = ["dup", "drop", "over", "pick2", "swap", "rot"]
CONST = ["lit0", "lit1", "lit2", "lit7", "lit8", "c80", "cff", "c7f", "c181", "c102", "c100", "cm2"]
CTRL = ["nop", "bra1", "skip1", "skipb", "brab", "skipbad", "skipend"]
LOC = ["reg0", "regx", "stackv", "piece1", "bitpiece", "implv", "implp"]
SUSP = ["deref", "derefsz", "derefbig", "xderef", "dereft", "breg0", "bregx", "regvalt", "fbreg", "cfa", "tls", "addr",
        "addrx", "constx", "call2", "callref", "entryv", "paramref", "consttype", "convert", "convert0", "reinterp",
        "pushobj", "plusu", "wasm", "uninit", "bad", "trunc"]
ALL = ARITH + STACK + CONST + CTRL + LOC + SUSP


def slices(tier):
    q = tier == "quick"
    return [
        # name, alphabet, maxlen, maxiters, stores, inits
        ("arith", ARITH + STACK[:3] + CONST, 3 if q else 3, [999], ["heap"], ["none", "some"] if not q else ["none"]),
        ("full2", ALL, 2, [3], ["heap", "small"], ["none", "some"]),
        ("ctrl", CTRL + ["lit0", "lit1", "c80", "plus", "dup", "drop", "eq"], 3 if q else 4, [0, 1, 2, 3, 5], ["heap"], ["none"]),
        ("loc", LOC + ["lit1", "c80", "deref", "breg0", "call2", "dup", "plus", "consttype", "nop"], 3, [999], ["heap", "small"] if not q else ["heap"], ["none"]),
        ("susp", ["deref", "breg0", "regvalt", "fbreg", "consttype", "convert", "reinterp", "call2", "entryv", "plus", "shl",
                  "lt", "neg", "lit1", "c80", "stackv", "piece1", "dereft"], 3 if not q else 2, [999], ["heap"], ["none"]),
    ] + ([] if q else [
        ("arith4", ARITH + ["dup", "swap"] + ["lit1", "lit7", "lit8", "c80", "cff", "c181"], 4, [999], ["heap"], ["none"]),
    ])


def tlaset(xs):
    return "{" + ", ".join('"%s"' % x if isinstance(x, str) else str(x) for x in xs) + "}"


def norm_final(f):
    return f


def compare(ctx, case, o, tag):
    exp = case["exp"]
    fin = exp["final"]
    if o is None or "outcome" in o:
        ctx.violation("expr:%s:%s" % ((o or {}).get("outcome"), (o or {}).get("loc", "")),
                      "evaluator did not return normally on %s script=%s: %s" % (case["code"], case["script"], o), case, o)
        return
    if fin["o"] == "opaque":
        # depends on IEEE-754 arithmetic: only the events before the opaque point are compared
        n = len(exp["events"])
        if o["events"][:n] != exp["events"]:
            ctx.violation("expr:events-before-float", "requests differ before float arithmetic", case, o)
        return
    if canon(o["events"]) != canon(exp["events"]):
        ctx.violation("expr:requires:%s" % tag, "Requires* sequence differs: prog=%s code=%s got %s expected %s" %
                      (case.get("prog"), case["code"], o["events"], exp["events"]), case, o)
        return
    of = o["final"]
    if fin["o"] == "error":
        if of["o"] != "error":
            ctx.violation("expr:missing-error:%s:%s" % (fin["kind"], tag),
                          "prog=%s code=%s: spec says error %s, evaluator returned %s" % (case.get("prog"), case["code"], fin["kind"], of), case, o)
        elif of["kind"] != fin["kind"]:
            if "TooManyIterations" in (of["kind"], fin["kind"]):
                ctx.violation("expr:limit-error:%s" % tag, "iteration-limit error expected %s got %s (prog=%s maxiter=%s)" %
                              (fin["kind"], of["kind"], case.get("prog"), case["maxiter"]), case, o)
            else:
                ctx.drift.append({"prog": case.get("prog"), "code": case["code"], "spec": fin["kind"], "impl": of["kind"]})
        return
    # complete
    if of["o"] != "complete":
        ctx.violation("expr:unexpected-%s:%s:%s" % (of["o"], of.get("kind"), tag),
                      "prog=%s code=%s script=%s: spec completes with %s, evaluator returned %s" %
                      (case.get("prog"), case["code"], case["script"], fin, of), case, o)
        return
    if canon(of["pieces"]) != canon(fin["pieces"]) or canon(of["value"]) != canon(fin["value"]):
        ctx.violation("expr:result:%s" % tag, "prog=%s code=%s script=%s: result differs: got %s expected %s" %
                      (case.get("prog"), case["code"], case["script"], of, fin), case, o)


def sigtag(case):
    """A coarse, stable tag for signatures: the set of symbols involved."""
    p = case.get("prog") or []
    shifts = [s for s in p if s in ("shl", "shr", "shra")]
    if shifts:
        return "shift"
    return "-".join(sorted(set(p)))[:60] if p else "code"


def run(ctx):
    q = ctx.quick
    profiles = ["dev"] if q else ["dev", "release"]
    bins = {p: ctx.build("gvh-expr", p) for p in profiles}

    # ---- G: evaluator
    for (name, alpha, maxlen, mis, stores, inits) in slices(ctx.tier):
        cfg = "MCExpr_%s_run" % name
        with open(os.path.join(SPEC, cfg + ".cfg"), "w") as f:
            f.write("INIT Init\nNEXT Next\nINVARIANT MachineInv\nINVARIANT Emit\nCONSTRAINT Horizon\nCHECK_DEADLOCK FALSE\nCONSTANTS\n")
            f.write("  Alpha = %s\n  MaxLen = %d\n  MaxIters = %s\n  Stores = %s\n  Inits = %s\n" %
                    (tlaset(alpha), maxlen, tlaset(mis), tlaset(stores), tlaset(inits)))
        r = ctx.tlc("MCExpr", cfg, timeout=600 if q else 3000)
        for prof, b in bins.items():
            obs = ctx.replay(b, r.cases_path, tag="expr-%s-%s" % (name, prof))
            for i, case in enumerate(read_ndjson(r.cases_path)):
                compare(ctx, case, obs.get(i), sigtag(case))
                if prof == "dev":
                    if len(case.get("prog") or []) >= 2 and case["exp"]["final"]["o"] != "error":
                        ctx.nontrivial(canon([case["code"], case["script"], case["maxiter"], case["store"], case["init"]]))
                    if i in (5, 500):
                        ctx.sample({"slice": name, "case": case, "obs": obs.get(i)})

    # ---- G: decoder, all 256 opcode bytes
    r = ctx.tlc("MCOpDecode", "MCOpDecode", timeout=1200)
    for prof, b in bins.items():
        obs = ctx.replay(b, r.cases_path, tag="dec-" + prof)
        for i, case in enumerate(read_ndjson(r.cases_path)):
            o = obs.get(i)
            e = case["exp"]
            if o is None or "outcome" in o:
                ctx.violation("decode:%s:%s" % ((o or {}).get("outcome"), (o or {}).get("loc", "")),
                              "Operation::parse did not return normally on %s" % case["code"], case, o); continue
            if "err" in e:
                if "err" not in o:
                    ctx.violation("decode:missing-error:op%02x" % case["code"][0], "spec rejects %s (%s), parse returned %s" % (case["code"], e["err"], o), case, o)
                elif o["err"] != e["err"]:
                    ctx.drift.append({"code": case["code"], "spec": e["err"], "impl": o["err"]})
            else:
                e2 = {k: v for k, v in e.items()}
                if canon(o) != canon(e2):
                    ctx.violation("decode:operands:op%02x" % case["code"][0], "code %s enc=%s: parse returned %s, spec %s" %
                                  (case["code"], [case["asz"], case["fmt"], case["ver"], case["le"]], o, e2), case, o)
                if prof == "dev":
                    ctx.nontrivial(canon(["dec", case["code"], case["asz"], case["fmt"], case["ver"], case["le"]]))
            if prof == "dev" and i == 7:
                ctx.sample({"decode": case, "obs": o})

    # ---- V: random programs validated by the trace spec
    n = 400 if q else 6000
    tr = ctx.record(bins["dev"], "expr-trace.ndjson", ["--seed", ctx.seed, "--n", n, "--len", 30 if q else 60])
    validate(ctx, tr)

    ctx.assumptions += [
        "IEEE-754 arithmetic is not specified: runs that depend on it are compared only up to that point (DESIGN.md section 6)",
        "exhaustive exploration is at address size 1; address sizes 2/4/8 and 64-bit operands are covered by trace validation of random programs",
        "error kinds other than TooManyIterations are compared as drift (property: 'an error')",
    ]
    ctx.finish("model_checking",
               rule="one case per terminated behaviour (program x resume answers x iteration limit x storage) explored by TLC; non-trivial = program of >= 2 symbols whose run does not end in an error; decode cases: accepted encodings",
               exhaustive=True)


def validate(ctx, trace):
    """Split the recorded file at Reset events into chunks; ExprTrace must accept each."""
    lines = [l for l in open(trace) if l.strip()]
    # group by program
    progs = []
    for l in lines:
        if '"ev":"Reset"' in l:
            progs.append([l])
        else:
            progs[-1].append(l)
    # abnormal outcomes (panic) are violations of C07 only if the spec says the run is defined
    chunk = []
    chunks = []
    for p in progs:
        chunk.extend(p)
        if len(chunk) > 3000:
            chunks.append(chunk); chunk = []
    if chunk:
        chunks.append(chunk)
    for ch in chunks:
        pos = 0
        guard = 0
        while pos < len(ch):
            guard += 1
            if guard > 50:
                raise ToolError("too many rejected events in one chunk")
            p = os.path.join(ctx.work, "chunk.ndjson")
            with open(p, "w") as f:
                f.writelines(ch[pos:])
            ok, info = ctx.validate_trace("ExprTrace", p)
            if ok:
                ctx.cov["traces_validated_against_impl"] += sum(1 for l in ch[pos:] if '"ev":"Reset"' in l)
                break
            um = info.get("unmatched")
            if not um:
                raise ToolError("ExprTrace failed without an unmatched event: %s" % info.get("error"))
            idx_s, js = um.split(", ", 1)
            idx = int(idx_s)
            ev = json.loads(json.loads(js))
            # find the Reset that owns this event
            k = pos + idx - 1
            start = k
            while start > 0 and '"ev":"Reset"' not in ch[start]:
                start -= 1
            reset = json.loads(ch[start])
            prog_events = []
            j = start + 1
            while j < len(ch) and '"ev":"Reset"' not in ch[j]:
                prog_events.append(json.loads(ch[j])); j += 1
            ctx.cov["traces_validated_against_impl"] += sum(1 for l in ch[pos:start] if '"ev":"Reset"' in l)
            kind = ev.get("ev")
            sig = "trace:%s" % kind
            if kind == "Abnormal":
                sig += ":" + str(ev["obs"].get("loc"))
            elif any(b in (0x24, 0x25, 0x26) for b in reset["code"]):
                sig += ":shift"
            ctx.violation(sig, "recorded evaluation not explainable by Expr.tla at event %s; program %s" %
                          (json.dumps(ev)[:400], json.dumps(reset)[:400]),
                          {"reset": reset, "events": prog_events}, ev)
            pos = j
