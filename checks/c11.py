"""C11 — written units read back as the same forest with every reference intact;
unencodable requests are errors.

Deciding spec: UnitWriter.tla (builder machine for write::Unit / UnitTable / Dwarf;
Write = two-pass layout as coded: per-kind form / predicted size / emission tables,
base-type reordering, abbreviation codes, sibling offsets, in-unit patching and
cross-unit fix-ups; meaning = what read::Dwarf must report).
 G: MCUnitWriter enumerates builder call scripts ("kinds": every AttributeValue kind x
    boundary payload x version x format x address size on a skeleton whose references
    jump over the probe; "builder": add / reserve / add_reserved interleavings,
    modifier calls, references to added / reserved-only / deleted ids, 1-2 units).
    Inside TLC: Size(attr) = Len(Emit(attr)) for every attribute of every explored
    script, emitted bytes = layout length, offsets ascend.  Each final state is a
    replay case with the expected read-back forest (and the expected .debug_info
    bytes) or the expected error.  gvh-unitw performs the calls on gimli, writes,
    reads back with read::Dwarf and prints the forest.
 V: gvh-unitw records random larger unit tables (1-4 units, 50-200 entries, random
    attribute kinds, references, reserved ids, sibling flags, delete / delete_child;
    Dwarf::write or incremental) as builder calls + read-back forest; UnitWriterTrace.tla
    replays the calls on the builder machine and demands the read-back to be the
    meaning the spec computes (or an error where the spec says so).
"""
import json, os
from vlib import read_ndjson, write_ndjson, canon, ToolError

SPEC = os.path.join(os.path.dirname(os.path.abspath(__file__)), "..", "spec")


def write_cfg(name, consts):
    with open(os.path.join(SPEC, name + ".cfg"), "w") as f:
        f.write("INIT Init\nNEXT Next\nINVARIANT Inv\nCHECK_DEADLOCK FALSE\nCONSTANTS\n")
        for k, v in consts.items():
            f.write("  %s = %s\n" % (k, v))


def kinds_of(case):
    ks = set()
    for c in case["calls"]:
        if c["op"] == "set":
            ks.add(c["val"]["k"])
    return ks


def tagline(case):
    u = case["units"][0]
    return "v%s/w%s/a%s" % (u["version"], u["format"], u["asz"])


def compare_forest(exp, obs):
    """Meaning comparison.  Returns (list of differences, list of drifts)."""
    diffs, drift = [], []
    eu, ou = exp["units"], obs["units"]
    if len(eu) != len(ou):
        return ["%d units read back, %d written" % (len(ou), len(eu))], drift
    for ui, (a, b) in enumerate(zip(eu, ou)):
        for k in ("version", "format", "asz"):
            if a[k] != b[k]:
                diffs.append("unit %d: %s %s != %s" % (ui + 1, k, b[k], a[k]))
        for k in ("off", "len"):
            if a[k] != b[k]:
                drift.append("unit %d: %s %s (model %s)" % (ui + 1, k, b[k], a[k]))
        ea, ob = a["entries"], b["entries"]
        if len(ea) != len(ob):
            diffs.append("unit %d: %d entries read back, %d expected" % (ui + 1, len(ob), len(ea)))
            continue
        for i, (x, y) in enumerate(zip(ea, ob)):
            where = "unit %d entry %d" % (ui + 1, i + 1)
            for k in ("depth", "tag", "children"):
                if x[k] != y[k]:
                    diffs.append("%s: %s %s != %s" % (where, k, y[k], x[k]))
            if x["off"] != y["off"]:
                drift.append("%s: offset %s (model %s)" % (where, y["off"], x["off"]))
            xa, ya = x["attrs"], y["attrs"]
            if [t[0] for t in xa] != [t[0] for t in ya]:
                diffs.append("%s: attributes %s != %s" % (where, [t[0] for t in ya], [t[0] for t in xa]))
                continue
            for (n1, f1, r1), (n2, f2, r2) in zip(xa, ya):
                if f1 != f2:
                    drift.append("%s: %s form %s (model %s)" % (where, n1, f2, f1))
                if "sib" in r1:
                    # the sibling pointer must address the position right after the subtree
                    if "sib" not in r2 or r2["sib"] != y.get("after"):
                        diffs.append("%s: DW_AT_sibling %s, subtree ends at %s" % (where, r2, y.get("after")))
                    elif r2["sib"] != r1["sib"]:
                        drift.append("%s: sibling offset %s (model %s)" % (where, r2["sib"], r1["sib"]))
                elif canon(r1) != canon(r2):
                    diffs.append("%s: %s reads back as %s, written %s" % (where, n1, json.dumps(r2), json.dumps(r1)))
    return diffs, drift


def bytes_differ(exp, obs):
    """Expected .debug_info bytes (negative = not predicted) vs. produced."""
    if len(exp) != len(obs):
        return "length %d (model %d)" % (len(obs), len(exp))
    for i, (a, b) in enumerate(zip(exp, obs)):
        if a >= 0 and a != b:
            return "byte %d is %d (model %d)" % (i, b, a)
    return None


def judge(ctx, case, o, stats):
    exp = case["exp"]
    probe = case.get("probe", "?")
    kinds = "+".join(sorted(kinds_of(case) - {"StringRef"})) if probe == "builder" else probe
    if probe == "files":
        u = case["units"][0]
        kinds = "files:unit-v%s:lineprog-v%s" % (u["version"], u.get("lineprog"))
    if probe == "twins":
        kinds = "twins:" + "+".join(sorted(kinds_of(case) - {"Udata"} or {"Udata"}))
    if probe == "lists":
        u = case["units"][0]
        pat = [c["val"]["list"][0]["k"] + str(len(c["val"]["list"])) for c in case["calls"]
               if c["op"] == "set" and c["u"] == 1 and c["val"]["k"] == "RangeListRef"]
        kinds = "lists:" + ">".join(pat) + (":lowpc" if any(c["op"] == "set" and c.get("name") == "DW_AT_low_pc" for c in case["calls"]) else "")
    if probe == "wide":
        kinds = "wide%d" % sum(1 for c in case["calls"] if c["op"] == "add" and c["u"] == 1 and c["p"] == 1)
    if case.get("mode") == "incremental":
        kinds += ":incremental"
    if o is None or "outcome" in o:
        oc = (o or {}).get("outcome")
        if case.get("beyond"):
            sig = "unitw:ref-to-unadded-reserved:%s" % oc
            what = ("a reference to an id that was reserved but never added must be reported as an error "
                    "(as it is when a later id was added); got %s at %s: %s" % (oc, (o or {}).get("loc"), (o or {}).get("msg")))
        else:
            sig = "unitw:%s:%s:%s" % (oc, (o or {}).get("loc", ""), kinds)
            what = "write / read-back did not return normally: %s" % json.dumps(o)[:300]
        ctx.violation(sig, what, case, o)
        return
    if not exp["ok"]:
        stats["exp_err"] += 1
        if o.get("ok"):
            ctx.violation("unitw:unencodable-written:%s:%s" % (exp["err"], kinds),
                          "the request cannot be encoded (%s expected) but write() succeeded (%s)" % (exp["err"], tagline(case)), case,
                          {k: o[k] for k in ("ok", "units")})
        elif o.get("stage") != "write":
            ctx.violation("unitw:unreadable:%s:%s" % (o.get("err"), kinds),
                          "write() succeeded but the sections cannot be read back: %s" % o.get("err"), case, o)
        elif o.get("err") != exp["err"]:
            ctx.drift.append({"what": "error variant", "got": o.get("err"), "model": exp["err"], "probe": kinds})
        return
    if not o.get("ok"):
        if o.get("stage") == "write" and case.get("alt_err"):
            # unit v5 + line program v2-4: refusing the pair is as good as writing resolvable indices
            stats["alt_err"] = stats.get("alt_err", 0) + 1
            return
        if o.get("stage") == "write":
            ctx.violation("unitw:write-failed:%s:%s:%s" % (o.get("err"), kinds, tagline(case)),
                          "an encodable request was refused: %s" % o.get("detail"), case, o)
        else:
            ctx.violation("unitw:unreadable:%s:%s:%s" % (str(o.get("err"))[:40], kinds, tagline(case)),
                          "the written sections cannot be read back: %s" % o.get("err"), case, o)
        return
    diffs, drift = compare_forest(exp, o)
    if diffs and probe == "files" and case.get("alt_err"):
        u = case["units"][0]
        ctx.violation("unitw:file-index:unit-v%s:lineprog-v%s" % (u["version"], u.get("lineprog")),
                      "a version %s unit with a version %s line program is written, but its file attributes do not resolve to the "
                      "files that were added (FileId::raw uses the unit's version, the table is the program's): %s"
                      % (u["version"], u.get("lineprog"), "; ".join(diffs[:3])), case, {"units": o["units"]})
        return
    if diffs:
        ctx.violation("unitw:readback:%s:%s" % (kinds, tagline(case)),
                      "read-back differs from what was built: %s" % "; ".join(diffs[:4]), case,
                      {"units": o["units"]})
        return
    stats["same"] += 1
    bd = bytes_differ(exp["info"], o["info"])
    if bd:
        drift.append(".debug_info " + bd)
    elif exp.get("str") is not None and exp["str"] != o["str"]:
        drift.append(".debug_str differs")
    else:
        stats["bytes_equal"] += 1
    if drift:
        ctx.drift.append({"what": "layout differs from the model, meaning intact", "detail": drift[:3], "probe": kinds, "enc": tagline(case)})


def run(ctx):
    q = ctx.quick
    bins = [("dev", ctx.build("gvh-unitw", "dev"))]
    if not q:
        bins.append(("release", ctx.build("gvh-unitw", "release")))
    s = ctx.seed % 89
    if q:
        runs = [("kinds", dict(Mode='"kinds"', MaxS=0, MaxM=0, MaxUnits=2, Salt=s, EmitMod=1, AllPlacements="FALSE")),
                ("builder", dict(Mode='"builder"', MaxS=3, MaxM=1, MaxUnits=2, Salt=s, EmitMod=1, AllPlacements="FALSE")),
                ("wide", dict(Mode='"wide"', MaxS=0, MaxM=0, MaxUnits=2, Salt=s, EmitMod=1, AllPlacements="FALSE")),
                ("lists", dict(Mode='"lists"', MaxS=0, MaxM=0, MaxUnits=2, Salt=s, EmitMod=1, AllPlacements="FALSE")),
                ("twins", dict(Mode='"twins"', MaxS=0, MaxM=0, MaxUnits=2, Salt=s, EmitMod=1, AllPlacements="FALSE")),
                ("files", dict(Mode='"files"', MaxS=0, MaxM=0, MaxUnits=2, Salt=s, EmitMod=1, AllPlacements="FALSE"))]
    else:
        runs = [("kinds", dict(Mode='"kinds"', MaxS=0, MaxM=0, MaxUnits=2, Salt=s, EmitMod=1, AllPlacements="TRUE")),
                ("builder", dict(Mode='"builder"', MaxS=4, MaxM=1, MaxUnits=2, Salt=s, EmitMod=1, AllPlacements="FALSE")),
                ("builder", dict(Mode='"builder"', MaxS=3, MaxM=2, MaxUnits=2, Salt=s + 1, EmitMod=5, AllPlacements="FALSE")),
                ("wide", dict(Mode='"wide"', MaxS=0, MaxM=0, MaxUnits=2, Salt=s, EmitMod=1, AllPlacements="FALSE")),
                ("wide", dict(Mode='"wide"', MaxS=0, MaxM=0, MaxUnits=2, Salt=s + 1, EmitMod=1, AllPlacements="FALSE")),
                ("lists", dict(Mode='"lists"', MaxS=0, MaxM=0, MaxUnits=2, Salt=s, EmitMod=1, AllPlacements="FALSE")),
                ("lists", dict(Mode='"lists"', MaxS=0, MaxM=0, MaxUnits=2, Salt=s + 1, EmitMod=1, AllPlacements="FALSE")),
                ("twins", dict(Mode='"twins"', MaxS=0, MaxM=0, MaxUnits=2, Salt=s, EmitMod=1, AllPlacements="TRUE")),
                ("files", dict(Mode='"files"', MaxS=0, MaxM=0, MaxUnits=2, Salt=s, EmitMod=1, AllPlacements="FALSE"))]
    stats = {"exp_err": 0, "same": 0, "bytes_equal": 0}
    seen_kinds = set()
    for ri, (name, consts) in enumerate(runs):
        write_cfg("MCUnitWriter_run", consts)
        r = ctx.tlc("MCUnitWriter", "MCUnitWriter_run", timeout=7200, cases_name="unitw-%d" % ri)
        cases = []
        for case in read_ndjson(r.cases_path):
            case["mode"] = "dwarf"
            cases.append(case)
            # the same script written unit by unit (ConvertUnit::write) and finished by Dwarf::write
            if case.get("probe") not in ("badversion", "asz3") and \
               not (kinds_of(case) & {"FileIndex"}):
                cases.append(dict(case, mode="incremental"))
        path = os.path.join(ctx.work, "unitw-%d-replay.ndjson" % ri)
        write_ndjson(path, cases)
        for prof, binp in bins:
            obs = ctx.replay(binp, path, tag="unitw-%d-%s" % (ri, prof))
            for i, case in enumerate(cases):
                judge(ctx, case, obs.get(i), stats)
                if prof == "dev":
                    seen_kinds |= kinds_of(case)
                    if case["exp"]["ok"] or case.get("beyond"):
                        ctx.nontrivial(canon([case["units"], case["calls"], case["be"], case["mode"]]))
                    if i in (0, len(cases) // 2) and len(ctx.cov["samples"]) < 4:
                        ctx.sample({"calls": case["calls"][-3:], "units": case["units"],
                                    "exp": (case["exp"]["units"][0]["entries"][:2] if case["exp"]["ok"] else case["exp"]),
                                    "obs_ok": (obs.get(i) or {}).get("ok")})
    # ---------------------------------------------------------------- V
    ntab, lo, hi = (2, 50, 100) if q else (12, 50, 200)
    tr = ctx.record(bins[0][1], "tables.ndjson", ["--seed", ctx.seed, "--n", ntab, "--min", lo, "--max", hi])
    groups = []
    for ev in read_ndjson(tr):
        if ev["ev"] == "Units" or not groups:
            groups.append([])
        groups[-1].append(ev)
    for gi, g in enumerate(groups):
        pth = os.path.join(ctx.work, "table-%d.ndjson" % gi)
        write_ndjson(pth, g)
        ok, info = ctx.validate_trace("UnitWriterTrace", pth)
        if ok:
            ctx.cov["traces_validated_against_impl"] += len(g)
            continue
        um = info.get("unmatched")
        if not um:
            raise ToolError("trace validation failed without an unmatched event: %s" % info.get("error"))
        idx_s, js = um.split(", ", 1)
        ev = json.loads(json.loads(js))
        ctx.cov["traces_validated_against_impl"] += int(idx_s) - 1
        if ev.get("ev") == "Result":
            o = ev.get("obs", {})
            sig = "unitw-trace:Result:%s:%s" % ("ok" if o.get("ok") else "%s:%s" % (o.get("stage"), o.get("err")), ev.get("mode"))
            what = ("table %d (%d calls): the read-back forest / outcome is not what UnitWriter.tla computes for the recorded calls; outcome %s"
                    % (gi, len(g) - 2, json.dumps({k: o.get(k) for k in ("ok", "stage", "err", "loc", "msg")})))
        else:
            sig = "unitw-trace:%s" % ev.get("ev")
            what = "table %d: event not explainable by the builder machine: %s" % (gi, json.dumps(ev)[:400])
        ctx.violation(sig, what, {"trace_group": g[:1] + [{"n_calls": len(g) - 2}], "seed": ctx.seed, "table": gi}, ev if ev.get("ev") != "Result" else {"obs_head": str(ev)[:600]})

    all_kinds = ["Address", "Block", "Data1", "Data2", "Data4", "Data8", "Data16", "Sdata", "Udata", "ImplicitConst", "Exprloc",
                 "Flag", "FlagPresent", "UnitRef", "DebugInfoRef", "DebugInfoRefSup", "LineProgramRef", "LocationListRef",
                 "DebugMacinfoRef", "DebugMacroRef", "RangeListRef", "DebugTypesRef", "StringRef", "DebugStrRefSup",
                 "LineStringRef", "String", "Encoding", "DecimalSign", "Endianity", "Accessibility", "Visibility", "Virtuality",
                 "Language", "AddressClass", "IdentifierCase", "CallingConvention", "Inline", "Ordering", "FileIndex"]
    for k in all_kinds:
        if k not in seen_kinds:
            ctx.cov["not_exercised"].append("AttributeValue::" + k)
    ctx.assumptions += [
        "address sizes are those gimli's reader accepts (1, 2, 4, 8); address size 3 only together with an address (expected: error)",
        "strings contain no NUL byte and expressions are raw bytecode (operation lists are C15's machine)",
        "line programs carry no rows (only the file table is used) and DebugInfoRef::Symbol is not generated; incremental per-unit writing goes through ConvertUnit::write on a conversion of an input with pre-reserved dummy entries",
        "offsets of range / location lists, line programs and of the abbreviation tables of later units are not predicted (compared through the reader only)",
        "which error variant is reported is compared as drift; byte-exact .debug_info / entry offsets are compared as drift when the meaning is intact",
    ]
    ctx.finish("model_checking",
               rule="one case per builder script explored by TLC; non-trivial = the script must be written and read back as the modelled forest, "
                    "or references an id without slot; scripts expected to fail are counted separately; trace events (builder calls of random tables) validated one by one by UnitWriterTrace",
               exhaustive=True,
               extra_cov={"expected_errors": stats["exp_err"], "forests_equal": stats["same"], "debug_info_bytes_equal": stats["bytes_equal"]})
