"""C05 — CIE/FDE decoding and address lookup agree with the section contents.

Deciding spec: CfiCodec.tla (encoders + meaning of CIEs, FDEs, DW_EH_PE_*
pointers, .eh_frame_hdr) and CfiSection.tla (section layout, CfiEntriesIter,
fde_for_address, EhHdrTable::lookup as coded, specification-level Covering /
Greatest).
 G: MCCfiSection explores five families (bs, sec, ptr, aug, hdr), checks the
    design-level theorems inside TLC and prints one replay case per state with
    the set of allowed observations; gvh-cfisec replays them on gimli.
 V: gvh-cfisec records hdr binary searches (reader operations via
    TracingReader) and fde_for_address results on random tables of 1..2000
    FDEs; CfiSectionTrace.tla validates every event.
"""
import json, os
from vlib import read_ndjson, canon, ToolError

FAMS = ["aug", "hdr", "bs", "sec", "ptr"]


def strip(o):
    """Drop error names: the property fixes success/failure, not the variant."""
    if isinstance(o, dict):
        if o.get("ok") is False:
            return {"ok": False}
        return {k: strip(v) for k, v in o.items()}
    if isinstance(o, list):
        return [strip(x) for x in o]
    return o


def errname(o):
    return o.get("err") if isinstance(o, dict) else None


def compare_case(ctx, case, o, prof):
    fam = case["fam"]
    soft = bool(case.get("soft"))
    tag = fam + (":" + case["kind"])
    bad = []          # (signature, text)

    def report(sig, text):
        if soft:
            ctx.drift.append({"case": sig, "what": text[:300]})
        else:
            bad.append((sig, text))

    exp = case["exp"]
    if "outcome" in o:
        report("%s:%s:%s" % (tag, o.get("outcome"), o.get("loc", "")), "replay did not return normally: %s" % json.dumps(o)[:300])
        return bad
    # ---- iteration
    if not case.get("nosec"):
        eit, oit = exp["it"], o.get("it", {})
        ee, oe = strip(eit["ents"]), strip(oit.get("ents"))
        if canon(ee) != canon(oe):
            # locate the first differing entry for the signature
            k = 0
            while k < min(len(ee), len(oe or [])) and canon(ee[k]) == canon(oe[k]):
                k += 1
            what = "count" if k >= min(len(ee), len(oe or [])) else ee[k].get("t", "?")
            report("%s:entries:%s" % (tag, what),
                   "entry %d differs: expected %s, observed %s" %
                   (k, json.dumps(ee[k] if k < len(ee) else None)[:400], json.dumps(oe[k] if oe and k < len(oe) else None)[:400]))
        if bool(eit["end"]["ok"]) != bool(oit.get("end", {}).get("ok")):
            report("%s:iter-end" % tag, "iteration ended with %s, expected %s" % (oit.get("end"), eit["end"]))
        elif not eit["end"]["ok"] and errname(eit["end"]) != errname(oit.get("end")):
            ctx.drift.append({"case": tag, "what": "iteration error %s, model %s" % (errname(oit.get("end")), errname(eit["end"]))})
        if oit.get("fused") is not True:
            report("%s:iter-not-fused" % tag, "entries() yielded again after its end")
        for k, (x, y) in enumerate(zip(eit["ents"], oit.get("ents") or [])):
            if x.get("t") == "fde" and not x["p"]["ok"] and isinstance(y.get("p"), dict) and errname(x["p"]) != errname(y["p"]):
                ctx.drift.append({"case": tag, "what": "FDE parse error %s, model %s" % (errname(y["p"]), errname(x["p"]))})
    # ---- .eh_frame_hdr
    eh = exp["hdr"]
    if "none" not in eh:
        oh = o.get("hdr", {})
        if canon(strip(eh)) != canon(strip({k: v for k, v in oh.items()})) :
            e2, o2 = strip(eh), strip(oh)
            e2.pop("notab", None)
            if canon(e2) != canon(o2):
                part = "parse"
                if isinstance(o2, dict) and isinstance(e2, dict) and e2.get("ok") and o2.get("ok"):
                    for f in ("ptr", "table", "iter", "nth"):
                        if canon(e2.get(f)) != canon(o2.get(f)):
                            part = f; break
                report("%s:hdr:%s" % (tag, part), "hdr: expected %s, observed %s" % (json.dumps(e2)[:400], json.dumps(o2)[:400]))
    # ---- lookups
    olook = o.get("look", [])
    if len(olook) != len(exp["look"]):
        report("%s:look-count" % tag, "probe count differs")
    for el, ol in zip(exp["look"], olook):
        if not case.get("nosec"):
            for path in ("scan", "uw"):
                allowed = [canon(strip(a)) for a in el[path]]
                got = canon(strip(ol.get(path)))
                if got not in allowed:
                    report("%s:lookup:%s" % (tag, path), "address %s: %s returned %s, allowed %s" % (el["a"], path, ol.get(path), el[path]))
                elif path == "scan" and got != canon(strip(el["first"])):
                    ctx.drift.append({"case": tag, "what": "scan returned a covering FDE that is not the first in section order at %s" % el["a"]})
        for path in ("hl", "hf", "hu"):
            if path in el:
                if canon(strip(el[path])) != canon(strip(ol.get(path))):
                    report("%s:lookup:%s" % (tag, path), "address %s: %s returned %s, expected %s" % (el["a"], path, ol.get(path), el[path]))
                elif errname(el[path]) and errname(el[path]) != errname(ol.get(path)):
                    ctx.drift.append({"case": tag, "what": "%s error %s, model %s" % (path, errname(ol.get(path)), errname(el[path]))})
    return bad


def nontrivial_key(case):
    exp = case["exp"]
    good = any(e.get("t") == "fde" and e["p"]["ok"] for e in exp["it"]["ents"]) or exp["hdr"].get("table")
    if not good:
        return None
    return canon([case["kind"], case["asz"], case["le"], case["sec"], case["hdr"], case["eb"], case["hb"]])


def run(ctx):
    q = ctx.quick
    profiles = ["dev"] if q else ["dev", "release"]
    bins = {p: ctx.build("gvh-cfisec", p) for p in profiles}
    suffix = "quick" if q else "thorough"
    nsample = {}
    only = os.environ.get("C05_FAMS")            # development knob: restrict the families, e.g. "aug,hdr"
    runs = [(f, "MCCfiSection_%s_%s" % (f, suffix)) for f in FAMS if not only or f in only.split(",")]
    if not q and not only:
        runs.append(("bs", "MCCfiSection_bsdup_thorough"))
    for fam, cfg in runs:
        r = ctx.tlc("MCCfiSection", cfg, timeout=3300)
        for prof, b in bins.items():
            obs = ctx.replay(b, r.cases_path, tag="%s-%s" % (cfg, prof))
            for i, case in enumerate(read_ndjson(r.cases_path)):
                o = obs.get(i)
                if o is None:
                    ctx.violation("%s:no-observation" % fam, "no observation for case %d" % i, case, None)
                    continue
                for sig, text in compare_case(ctx, case, o, prof):
                    ctx.violation(sig, text, case, o)
                k = nontrivial_key(case)
                if k:
                    ctx.nontrivial(k)
                if nsample.get(fam, 0) < 1 and k:
                    nsample[fam] = 1
                    ctx.sample({"fam": fam, "kind": case["kind"], "sec": case["sec"], "hdr": case["hdr"],
                                "exp_entries": len(case["exp"]["it"]["ents"]), "probes": len(case["probes"]),
                                "obs_first_lookup": (o.get("look") or [None])[0]})

    # --- V: binary search steps and lookup results on random tables
    if not only or "trace" in only.split(","):
        tr = ctx.record(bins["dev"], "hdr.ndjson",
                        ["--seed", ctx.seed, "--n", 10 if q else 80, "--max", 2000, "--look", 25 if q else 60])
        validate(ctx, tr)

    ctx.assumptions += [
        "well-formed = sections produced by the CfiCodec encoders; FDE ranges do not wrap around the address space (FrameDescriptionEntry::contains uses a wrapping end address)",
        "error kinds are recorded as drift, not compared; DW_EH_PE_omit inside an augmentation and DW_EH_PE_aligned are drift-only (the reader rejects / does not support them)",
        "instructions in generated entries are DW_CFA_nop / DW_CFA_advance_loc only (row semantics proper is C06)",
        "wide LEB128 alignment factors and registers are not generated here (C09/C06)",
        "corpus comparison with readelf / llvm-dwarfdump is outside this technique (DESIGN section 6)",
    ]
    ctx.finish("model_checking",
               rule="one case per state of MCCfiSection (table / entry sequence / encoding byte x context x bases x raw value / augmentation string); "
                    "non-trivial = distinct (section, hdr, bases) with at least one FDE that must parse or a search table that must be present; "
                    "trace events (Table/Lookup/FdeHdr/FdeScan) are validated one by one by CfiSectionTrace",
               exhaustive=True)


def validate(ctx, trace, chunk_tables=12):
    """Validate the recorded trace table by table group; continue after a rejected event."""
    lines = [l for l in open(trace) if l.strip()]
    # start a new chunk at every chunk_tables-th Table event
    chunks, cur, nt = [], [], 0
    for l in lines:
        if '"ev":"Table"' in l:
            if nt and nt % chunk_tables == 0 and cur:
                chunks.append(cur); cur = []
            nt += 1
        cur.append(l)
    if cur:
        chunks.append(cur)
    for part in chunks:
        pos = 0
        guard = 0
        table_line = None
        while pos < len(part):
            p = os.path.join(ctx.work, "chunk.ndjson")
            body = part[pos:]
            # a chunk restarted after a rejection must begin with its Table event
            if pos and table_line is not None and '"ev":"Table"' not in body[0]:
                body = [table_line] + body
                extra = 1
            else:
                extra = 0
            with open(p, "w") as f:
                f.writelines(body)
            res = ctx.tlc("CfiSectionTrace", "CfiSectionTrace", workers=1, env={"TRACE": p}, timeout=1800,
                          deque=True, xmx="8g", allow_error=True, cases_name="CfiSectionTrace-tv")
            for tagname, b in res.prints:
                if tagname == "DRIFT":
                    ctx.drift.append({"case": "trace", "what": b[:300]})
            if res.error is None:
                ctx.cov["traces_validated_against_impl"] += len(body) - extra
                break
            um = None
            for tagname, b in res.prints:
                if tagname == "UNMATCHED":
                    um = b
            if not um:
                raise ToolError("trace validation failed without an unmatched event: %s" % res.error[:2000])
            idx_s, js = um.split(", ", 1)
            idx = int(idx_s)
            ev = json.loads(json.loads(js))
            ctx.cov["traces_validated_against_impl"] += max(0, idx - 1 - extra)
            sig = "trace:%s" % ev.get("ev")
            if isinstance(ev.get("res"), dict) and ev["res"].get("outcome"):
                sig += ":" + ev["res"]["outcome"]
            small = {k: (v if k not in ("rows", "fdes", "hdr", "raw") else "<%d items>" % len(v)) for k, v in ev.items()}
            ctx.violation(sig, "event not explainable by CfiSection: %s" % json.dumps(small)[:500], small, None)
            # find the governing Table event for the restart
            for l in body[:idx]:
                if '"ev":"Table"' in l:
                    table_line = l
            pos += idx - extra
            if ev.get("ev") == "Table":
                # the table itself was rejected: its lookups cannot be judged, resume at the next table
                table_line = None
                while pos < len(part) and '"ev":"Table"' not in part[pos]:
                    pos += 1
            guard += 1
            if guard >= 3:
                # each restart costs a JVM start; three rejected events in one chunk are reported, the
                # remainder of the chunk is left unvalidated (counted nowhere)
                ctx.assumptions.append("trace chunk abandoned after 3 rejected events")
                break
