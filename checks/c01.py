"""C01 - untrusted DWARF never panics, aborts, overflows the stack or hangs; lazy
iterators finish within a bound given by the input size even when errors are
ignored; iterators documented as stopping after an error yield nothing further;
same under truncation at any byte and a reader failure at any operation; debug
(overflow checks) and release builds alike.

Deciding specs: IterProto.tla (the iterator protocol: abstract variant machine,
the concrete families as coded, the acceptance procedure for an observed result
sequence) model-checked by MCIterProto; RobustTrace.tla (outcome alphabet: only
`returned a value` / `returned an error` have actions, so a trace containing a
panic / abort / timeout cannot be explained; every pumped iterator instance must
be a behaviour of IterProto).
 G/V: gvh-robust replays small *recipes* (base sections + seeded structure-aware
    mutations + reader kind) on the real code in BOTH build profiles, driving every
    public reading / lookup / unwinding / evaluation / conversion entry point; the
    observations become one RobustTrace event file that TLC validates.
Level: exploration (the byte space is sampled; the protocol spec is model-checked).
"""
import json, os, random, threading, time
import c01_operands
from concurrent.futures import ThreadPoolExecutor
from vlib import read_ndjson, write_ndjson, canon, ToolError, SPEC, VERIF, log

CORPUS = os.path.join(VERIF, "corpus")
CLASS24 = [0, 1, 2, 3, 8, 9, 0x0c, 0x0e, 0x0f, 0x10, 0x16, 0x23, 0x2f, 0x40, 0x7f, 0x80, 0x81, 0x90, 0x93, 0x9d, 0xc0, 0xf0, 0xfe, 0xff]

# which call groups read a section (used to keep truncation / fault recipes cheap)
UNIT_GROUPS = ["units", "unit", "convert", "convert_steps", "dwo", "dwo_units", "dwo_unit", "dwp", "dwp_units", "dwp_unit"]
SEC_GROUPS = {
    "debug_info": UNIT_GROUPS, "debug_abbrev": UNIT_GROUPS + ["abbrev"], "debug_types": UNIT_GROUPS,
    "debug_str": UNIT_GROUPS + ["strings", "names"], "debug_line_str": UNIT_GROUPS + ["strings", "lines"],
    "debug_str_offsets": UNIT_GROUPS + ["strings"], "debug_addr": UNIT_GROUPS + ["strings", "lists"],
    "debug_ranges": UNIT_GROUPS + ["lists"], "debug_rnglists": UNIT_GROUPS + ["lists"],
    "debug_loc": UNIT_GROUPS + ["lists"], "debug_loclists": UNIT_GROUPS + ["lists"],
    "debug_line": UNIT_GROUPS + ["lines", "convert_line"],
    "debug_macro": UNIT_GROUPS + ["macros"], "debug_macinfo": UNIT_GROUPS + ["macros"],
    "debug_aranges": ["aranges"], "debug_pubnames": ["pubnames"], "debug_pubtypes": ["pubnames"],
    "debug_names": ["names"], "debug_cu_index": ["index", "dwp", "dwp_units", "dwp_unit"],
    "debug_tu_index": ["index", "dwp", "dwp_units", "dwp_unit"],
    "debug_frame": ["debug_frame", "convert_frames"], "eh_frame": ["eh_frame", "eh_frame_hdr", "convert_frames"],
    "eh_frame_hdr": ["eh_frame_hdr"],
}
FAULT_SETS = [["units", "unit"], ["debug_frame"], ["eh_frame", "eh_frame_hdr"], ["lines", "convert_line"],
              ["lists", "strings", "abbrev", "aranges", "pubnames", "names", "macros", "index"],
              ["convert", "convert_steps"], ["convert_frames"], ["dwo_units", "dwo_unit", "dwp", "dwp_units", "dwp_unit"]]


def groups_for(sec):
    return SEC_GROUPS.get(sec[:-4] if sec.endswith(".dwo") else sec)


# ------------------------------------------------------------ small raw containers
def u32(x):
    return [x & 0xff, (x >> 8) & 0xff, (x >> 16) & 0xff, (x >> 24) & 0xff]


def raw_cie():
    """A minimal .debug_frame CIE (version 1) whose initial instructions are the tail."""
    body = u32(0xffffffff) + [1, 0, 1, 0x78, 16]
    return u32(len(body)) + body, [{"at": 0, "width": 4, "add": len(body)}]


def raw_fde():
    """The CIE above, closed, followed by an FDE whose instructions are the tail."""
    cbody = u32(0xffffffff) + [1, 0, 1, 0x78, 16, 0x0c, 7, 8]
    cie = u32(len(cbody)) + cbody
    fbody = u32(0) + [0, 0x10, 0, 0, 0, 0, 0, 0] + [0, 1, 0, 0, 0, 0, 0, 0]
    return cie + u32(len(fbody)) + fbody, [{"at": len(cie), "width": 4, "add": len(fbody)}]


def raw_line():
    """A fixed valid version-4 line program header; the program is the tail."""
    std = [0, 1, 1, 1, 1, 0, 0, 0, 1, 0, 0, 1]
    after_hl = [1, 1, 1, 0xfb, 14, 13] + std + [0] + [ord("a"), 0, 0, 0, 0] + [0]
    rest = [4, 0] + u32(len(after_hl)) + after_hl
    return u32(len(rest)) + rest, [{"at": 0, "width": 4, "add": len(rest)}]


def raw_families():
    cie, pc = raw_cie()
    fde, pf = raw_fde()
    line, pl = raw_line()
    return [
        ("expr", {"expr": []}, "expr", None, ["decoders"]),
        ("leb", {"leb": []}, "leb", None, ["decoders"]),
        ("cie", {"debug_frame": cie}, "debug_frame", pc, ["debug_frame", "convert_frames"]),
        ("fde", {"debug_frame": fde}, "debug_frame", pf, ["debug_frame", "convert_frames"]),
        ("line", {"debug_line": line}, "debug_line", pl, ["lines", "convert_line"]),
    ]


def exhaustive_recipes(ctx):
    """Every byte string of length <= 2 (thorough; quick: second byte over the class
    alphabet) and length 3 over the 24-value class alphabet, as the whole input of
    the operation / instruction / LEB decoders."""
    out = []
    second = list(range(256)) if not ctx.quick else CLASS24
    for name, secs, sec, patch, only in raw_families():
        def rec(tails, tag):
            t = {"sec": sec, "tails": tails}
            if patch:
                t["patch"] = patch
            return {"sys": "robust", "base": "raw", "sections": secs, "seed": 1, "only": only, "tails": t,
                    "id": "x:%s:%s" % (name, tag), "budget": 4000}
        out.append(rec([[]] + [[b] for b in range(256)], "len01"))
        for b0 in range(256):
            out.append(rec([[b0, b1] for b1 in second], "len2:%02x" % b0))
        if not ctx.quick:
            for b0 in CLASS24:
                for b1 in CLASS24:
                    out.append(rec([[b0, b1, b2] for b2 in CLASS24], "len3:%02x%02x" % (b0, b1)))
    return out


# --------------------------------------------------------------------- recipes
def list_bases(ctx, rnd):
    bases = [{"base": "self"}]
    if os.path.isdir(CORPUS):
        for v in sorted(os.listdir(CORPUS)):
            if os.path.isdir(os.path.join(CORPUS, v)):
                bases.append({"base": "corpus:" + v})
    ngen = 6 if ctx.quick else 20
    for i in range(ngen):
        bases.append({"base": "gen", "gseed": ctx.seed * 1000 + i, "endian": "be" if i % 3 == 2 else "le"})
    return bases


def bkey(b):
    return "%s:%s" % (b["base"], b.get("gseed", ""))


def mutation_recipe(b, rnd, i):
    kinds = []
    r = rnd.random()
    if r < 0.40:
        kinds = [{"k": "extreme"} for _ in range(rnd.choice([1, 1, 2, 3]))]
    elif r < 0.60:
        kinds = [{"k": "flip", "n": rnd.choice([1, 1, 2, 4, 8])}]
    elif r < 0.70:
        kinds = [{"k": "splice"}]
    elif r < 0.78:
        kinds = [{"k": "fill"}]
    elif r < 0.86:
        kinds = [{"k": "trunc"}]
    else:
        kinds = [rnd.choice([{"k": "extreme"}, {"k": "flip", "n": 2}, {"k": "splice"}, {"k": "fill"}, {"k": "trunc"}])
                 for _ in range(rnd.choice([2, 3, 4]))]
    rec = dict(b)
    rec.update({"sys": "robust", "seed": rnd.randrange(1 << 40), "mut": kinds, "id": "m:%s:%d" % (bkey(b), i)})
    if rnd.random() < 0.1:      # the other byte order
        rec["endian"] = "le" if rec.get("endian") == "be" else "be"
    return rec


def targeted_recipes():
    """Deterministic small inputs for shapes that random mutation reaches only sometimes."""
    out = []
    # .debug_aranges, address size 4: a tuple whose begin + length overflows, then a valid tuple
    hdr = [2, 0] + u32(0) + [4, 0] + [0, 0, 0, 0]
    tup = u32(0xfffffff0) + u32(0x20) + u32(0x1000) + u32(0x10) + u32(0) + u32(0)
    out.append({"sys": "robust", "base": "raw", "seed": 21, "id": "tg:aranges-overflow", "only": ["aranges"],
                "sections": {"debug_aranges": u32(len(hdr) + len(tup)) + hdr + tup}, "mut": []})
    # .eh_frame_hdr: version 1, eh_frame_ptr udata4, fde_count udata4 = 1000, table sdata4|datarel, one row only
    out.append({"sys": "robust", "base": "raw", "seed": 22, "id": "tg:ehhdr-count", "only": ["eh_frame_hdr"],
                "sections": {"eh_frame_hdr": [1, 0x03, 0x03, 0x3b] + u32(0x100) + u32(1000) + u32(0x10) + u32(0x20)}, "mut": []})
    # the same with fde_count udata8 = 2^63 and an out-of-range eh_frame pointer
    out.append({"sys": "robust", "base": "raw", "seed": 23, "id": "tg:ehhdr-huge", "only": ["eh_frame_hdr"],
                "sections": {"eh_frame_hdr": [1, 0x04, 0x04, 0x04] + [0xff] * 8 + [0, 0, 0, 0, 0, 0, 0, 0x80] + [1] * 16}, "mut": []})
    # .debug_macinfo without terminator; .debug_macro (v5 header, flags 0) with one entry and no terminator
    out.append({"sys": "robust", "base": "raw", "seed": 24, "id": "tg:macinfo-unterminated", "only": ["macros"],
                "sections": {"debug_macinfo": [1, 5, ord("A"), 0, 3, 1, 2]}, "mut": []})
    out.append({"sys": "robust", "base": "raw", "seed": 25, "id": "tg:macro-unterminated", "only": ["macros"],
                "sections": {"debug_macro": [5, 0, 0, 1, 5, ord("A"), 0]}, "mut": []})
    # index scaling: the getters are called with extreme indices on a tiny section
    out.append({"sys": "robust", "base": "raw", "seed": 26, "id": "tg:index-scaling", "only": ["strings", "lists"],
                "sections": {"debug_str_offsets": [8, 0, 0, 0, 5, 0, 0, 0, 1, 0, 0, 0], "debug_addr": [12, 0, 0, 0, 5, 0, 8, 0, 1, 2, 3, 4, 5, 6, 7, 8],
                             "debug_rnglists": [12, 0, 0, 0, 5, 0, 8, 0, 1, 0, 0, 0, 4, 0, 0, 0], "debug_loclists": [12, 0, 0, 0, 5, 0, 8, 0, 1, 0, 0, 0, 4, 0, 0, 0]}, "mut": []})
    # line programs that are fine to read but hit assertions of the writer when converted
    def line_with(prog, line_base=0xfb, line_range=14, min_inst=1):
        sec, patch = raw_line()
        sec = list(sec)
        sec[10], sec[13], sec[14] = min_inst, line_base, line_range      # fields of the fixed header
        sec[0:4] = u32(patch[0]["add"] + len(prog))
        return {"debug_line": sec + prog}
    end = [0, 1, 1]
    out.append({"sys": "robust", "base": "raw", "seed": 28, "id": "tg:line-base-positive", "only": ["lines", "convert_line"],
                "sections": line_with([1] + end, line_base=1), "mut": []})
    out.append({"sys": "robust", "base": "raw", "seed": 29, "id": "tg:line-range-small", "only": ["lines", "convert_line"],
                "sections": line_with([1] + end, line_base=0xfb, line_range=3), "mut": []})
    # grid of line_base x line_range header values (incl. line_base + line_range = 0 and line_range >= 128)
    for lb in (0x80, 0xfb, 0xfd, 0xff, 0, 1, 0x7f):
        for lr in (0, 1, 2, 3, 5, 127, 128, 129, 255):
            out.append({"sys": "robust", "base": "raw", "seed": 29, "id": "tg:line-enc-%d-%d" % (lb, lr),
                        "only": ["lines", "convert_line"], "sections": line_with([1, 0x20, 0xff] + end, line_base=lb, line_range=lr), "mut": []})
    out.append({"sys": "robust", "base": "raw", "seed": 30, "id": "tg:line-empty-file", "only": ["lines", "convert_line"],
                "sections": line_with([0, 5, 3, 0, 0, 0, 0, 1] + end), "mut": []})
    out.append({"sys": "robust", "base": "raw", "seed": 31, "id": "tg:line-misaligned", "only": ["lines", "convert_line"],
                "sections": line_with([0, 9, 2, 0, 0x10, 0, 0, 0, 0, 0, 0, 1, 9, 3, 0, 1] + end, min_inst=4), "mut": []})
    # a row that cannot be converted (file index 7 does not exist) after a set_address
    out.append({"sys": "robust", "base": "raw", "seed": 32, "id": "tg:line-bad-file", "only": ["lines", "convert_line"],
                "sections": line_with([0, 9, 2, 0, 0x10, 0, 0, 0, 0, 0, 0, 1, 0, 9, 2, 0, 0x20, 0, 0, 0, 0, 0, 0, 4, 7, 1] + end), "mut": []})
    # .debug_cu_index (version 2): 2 slots, both occupied, so a lookup of a third id must stop after 2 probes
    def u64(x):
        return u32(x & 0xffffffff) + u32(x >> 32)
    ix = u32(2) + u32(1) + u32(1) + u32(2) + u64(0x1111111111111111) + u64(0x2222222222222222) + u32(1) + u32(1) + u32(1) + u32(0) + u32(16)
    out.append({"sys": "robust", "base": "raw", "seed": 27, "id": "tg:index-full", "only": ["index", "dwp"],
                "sections": {"debug_cu_index": ix, "debug_tu_index": ix}, "mut": []})
    return out


def u64b(x):
    return u32(x & 0xffffffff) + u32(x >> 32)


def pub_set(entries, version=2, length=None):
    """One .debug_pubnames / .debug_pubtypes set: entries = [(die offset, name bytes incl. NUL or not)]."""
    body = [version & 0xff, version >> 8] + u32(0) + u32(0x100)
    for off, name in entries:
        body += u32(off) + list(name)
    return u32(len(body) if length is None else length) + body


def eh_cie(aug, augdata, instrs=(), version=1):
    body = u32(0) + [version] + list(aug) + [0, 1, 0x78, 16]
    if aug[:1] == b"z":
        body += [len(augdata)] + list(augdata)
    body += list(instrs)
    while (len(body) + 4) % 8:
        body.append(0)
    return u32(len(body)) + body


def eh_fde(cie_off, at, loc=0x1000, rng=0x100, augdata=None, instrs=()):
    """FDE placed at section offset `at` pointing back to the CIE at `cie_off`."""
    body = u32(at + 4 - cie_off) + u64b(loc) + u64b(rng)
    if augdata is not None:
        body += [len(augdata)] + list(augdata)
    body += list(instrs)
    while (len(body) + 4) % 8:
        body.append(0)
    return u32(len(body)) + body


def fused_middle_recipes(ctx):
    """For every iterator documented as fused: an error in the middle followed by perfectly
    valid data (the iterator is pumped after the first Err and must only return None), plain
    and with the reader failing at each of its first operations."""
    out = []
    good = pub_set([(0x20, b"alpha\0"), (0x30, b"beta\0"), (0, b"")])
    cases = {
        # a name that runs into the end of its (non-last) set
        "pub-truncated-name": pub_set([(0x20, b"alpha\0"), (0x30, b"unterminated")]) + good + good,
        # a middle set with an unknown version / a bad length
        "pub-bad-version": good + pub_set([(0x20, b"x\0"), (0, b"")], version=9) + good,
        "pub-short-set": good + pub_set([(0x20, b"x\0")], length=11) + good,
        "pub-first-bad": pub_set([(0x20, b"unterminated")]) + good,
    }
    for name, sec in cases.items():
        out.append({"sys": "robust", "base": "raw", "seed": 40, "id": "fm:" + name, "only": ["pubnames"],
                    "sections": {"debug_pubnames": sec, "debug_pubtypes": sec}, "mut": []})
    # .debug_aranges: two sets, the first with an overflowing tuple in the middle (known finding) and
    # a valid continuation; .debug_addr: one set of addresses (an error can only be injected)
    hdr = [2, 0] + u32(0) + [4, 0] + [0, 0, 0, 0]
    tup = u32(0x1000) + u32(0x10) + u32(0x2000) + u32(0x10) + u32(0) + u32(0)
    aset = u32(len(hdr) + len(tup)) + hdr + tup
    out.append({"sys": "robust", "base": "raw", "seed": 41, "id": "fm:aranges-two-sets", "only": ["aranges"],
                "sections": {"debug_aranges": aset + aset}, "mut": []})
    addr = u32(4 + 8 * 4) + [5, 0, 8, 0] + u64b(1) + u64b(2) + u64b(3) + u64b(4)
    out.append({"sys": "robust", "base": "raw", "seed": 42, "id": "fm:addr-set", "only": ["strings"],
                "sections": {"debug_addr": addr + addr}, "mut": []})
    # line program: an extended opcode whose length runs past the end, an unknown extended opcode with a
    # huge length, each followed by valid instructions
    line, pl = raw_line()
    for name, prog in (("line-ext-overrun", [1, 0, 0x7f, 1, 1, 0x21, 0, 1, 1]), ("line-bad-leb", [1, 2, 0x80, 0x80, 0x80, 0x80, 0x80, 0x80, 0x80, 0x80, 0x80, 0x80, 0x80, 1, 0x21, 0, 1, 1])):
        l = list(line)
        l[0:4] = u32(pl[0]["add"] + len(prog))
        out.append({"sys": "robust", "base": "raw", "seed": 43, "id": "fm:" + name, "only": ["lines", "convert_line"],
                    "sections": {"debug_line": l + prog}, "mut": []})
    # CFI: valid CIE + FDE, an entry with an unknown CIE version in the middle, then valid CIE + FDE
    for secname, grp in (("eh_frame", ["eh_frame", "convert_frames"]),):
        c1 = eh_cie(b"zR", [0x00])
        f1 = eh_fde(0, len(c1), augdata=[])
        bad = eh_cie(b"zR", [0x00], version=9)
        c2 = eh_cie(b"zR", [0x00])
        base2 = len(c1) + len(f1) + len(bad)
        f2 = eh_fde(base2, base2 + len(c2), loc=0x3000, augdata=[])
        out.append({"sys": "robust", "base": "raw", "seed": 44, "id": "fm:%s-bad-version-middle" % secname, "only": grp,
                    "sections": {secname: c1 + f1 + bad + c2 + f2 + u32(0)}, "mut": []})
    cie, pc = raw_cie()
    dbad = list(cie)
    dbad[8] = 9          # version byte of the .debug_frame CIE
    fde, pf = raw_fde()
    out.append({"sys": "robust", "base": "raw", "seed": 45, "id": "fm:debug_frame-bad-version-middle", "only": ["debug_frame", "convert_frames"],
                "sections": {"debug_frame": list(cie) + dbad + list(cie) + [x for x in fde[len(fde) - 24:]]}, "mut": []})
    # the same inputs with the reader failing at each of the first operations (an error in the middle
    # of otherwise valid data, for iterators whose data cannot be made invalid in the middle)
    nops = 30 if ctx.quick else 120
    for r in list(out):
        for k in range(nops):
            out.append(dict(r, id=r["id"] + ":f%d" % k, reader="faulty", fail_at=k))
    return out


def encoding_sweep_recipes():
    """All 256 values of every pointer-encoding byte of .eh_frame / .eh_frame_hdr: the CIE's FDE
    encoding ('zR', with an FDE and a DW_CFA_set_loc), personality encoding ('zP'), LSDA encoding
    ('zL', with an FDE carrying an LSDA pointer) and the three encoding bytes of .eh_frame_hdr."""
    out = []
    allv = [[v] for v in range(256)]

    def add(name, secs, sec, at, only):
        out.append({"sys": "robust", "base": "raw", "seed": 50, "id": "enc:" + name, "only": only, "sections": secs,
                    "mut": [], "tails": {"sec": sec, "at": at, "tails": allv}, "budget": 4000,
                    "addrs": [0x2000, 0x4000, 0x1000]})
    grp = ["eh_frame", "convert_frames"]
    setloc = [0x01] + u64b(0x1010) + [0x0e, 8, 0x01] + u64b(0x1020) + [0] * 6
    c = eh_cie(b"zR", [0x00], [0x0c, 7, 8])
    f = eh_fde(0, len(c), augdata=[], instrs=setloc)
    add("zR-fde", {"eh_frame": c + f + u32(0)}, "eh_frame", 4 + 4 + 1 + 3 + 3 + 1, grp)
    c = eh_cie(b"zP", [0x00] + u64b(0x5000), [0x0c, 7, 8])
    f = eh_fde(0, len(c), augdata=[], instrs=setloc)
    add("zP-personality", {"eh_frame": c + f + u32(0)}, "eh_frame", 4 + 4 + 1 + 3 + 3 + 1, grp)
    c = eh_cie(b"zL", [0x00], [0x0c, 7, 8])
    f = eh_fde(0, len(c), augdata=u64b(0x6000), instrs=setloc)
    add("zL-lsda", {"eh_frame": c + f + u32(0)}, "eh_frame", 4 + 4 + 1 + 3 + 3 + 1, grp)
    c = eh_cie(b"zPLR", [0x00] + u64b(0x5000) + [0x00, 0x00], [0x0c, 7, 8])
    f = eh_fde(0, len(c), augdata=u64b(0x6000), instrs=setloc)
    for i, nm in ((0, "P"), (9, "L"), (10, "R")):
        add("zPLR-" + nm, {"eh_frame": c + f + u32(0)}, "eh_frame", 4 + 4 + 1 + 5 + 3 + 1 + i, grp)
    # .eh_frame_hdr with a two-row table, next to a plain .eh_frame
    c = eh_cie(b"zR", [0x00], [0x0c, 7, 8])
    f = eh_fde(0, len(c), augdata=[])
    eh = c + f + u32(0)
    hdr = [1, 0x04, 0x04, 0x04] + u64b(0x4000) + u64b(2) + u64b(0x1000) + u64b(0x4000 + len(c)) + u64b(0x2000) + u64b(0x4000 + len(c))
    for i, nm in ((1, "eh_frame_ptr"), (2, "fde_count"), (3, "table")):
        add("hdr-" + nm, {"eh_frame": eh, "eh_frame_hdr": hdr}, "eh_frame_hdr", i, ["eh_frame_hdr"])
    return out


def deep_recipes():
    """Shapes the mutations cannot reach by chance: long runs of one element."""
    out = []
    # 200k-deep chain of children (converter / tree recursion), DWARF 4 unit header
    abbrev = [1, 0x11, 1, 0, 0, 0]
    n = 200000
    info = u32(7 + n + 1) + [4, 0] + u32(0) + [8]
    out.append({"sys": "robust", "base": "raw", "seed": 7, "id": "deep:chain",
                "sections": {"debug_abbrev": abbrev, "debug_info": info},
                "mut": [{"k": "repeat", "sec": "debug_info", "bytes": [1], "n": n}, {"k": "repeat", "sec": "debug_info", "bytes": [0], "n": 1}],
                "only": ["units", "convert_steps"], "budget": 2000000, "max_entries": 1000000})
    out.append(dict(out[-1], id="deep:chain-read", only=["units", "unit"], budget=300000, max_entries=3000))
    # 1 MB of zero tuples in .debug_aranges (address size 4)
    hdr = [2, 0] + u32(0) + [4, 0] + [0, 0, 0, 0]
    nt = 131072
    out.append({"sys": "robust", "base": "raw", "seed": 8, "id": "deep:aranges",
                "sections": {"debug_aranges": u32(len(hdr) + 8 * nt + 8) + hdr},
                "mut": [{"k": "repeat", "sec": "debug_aranges", "bytes": [0] * 8, "n": nt},
                        {"k": "repeat", "sec": "debug_aranges", "bytes": [1, 0, 0, 0, 1, 0, 0, 0], "n": 1}],
                "only": ["aranges"], "budget": 2000000})
    # long run of nops in a CIE, long run of DW_OP_nop in an expression, long special-opcode line program
    cie, pc = raw_cie()
    k = 100000
    c = list(cie)
    c[0:4] = u32(pc[0]["add"] + k)
    out.append({"sys": "robust", "base": "raw", "seed": 9, "id": "deep:cfa-nops", "sections": {"debug_frame": c},
                "mut": [{"k": "repeat", "sec": "debug_frame", "bytes": [0], "n": k}], "only": ["debug_frame", "convert_frames"], "budget": 1000000})
    out.append({"sys": "robust", "base": "raw", "seed": 10, "id": "deep:expr-nops", "sections": {"expr": []},
                "mut": [{"k": "repeat", "sec": "expr", "bytes": [0x96], "n": k}], "only": ["decoders"], "budget": 2000000})
    out.append({"sys": "robust", "base": "raw", "seed": 11, "id": "deep:expr-loop", "sections": {"expr": [0x2f, 0xfd, 0xff]},
                "mut": [], "only": ["decoders"]})
    line, pl = raw_line()
    l = list(line)
    l[0:4] = u32(pl[0]["add"] + k)
    out.append({"sys": "robust", "base": "raw", "seed": 12, "id": "deep:line-special", "sections": {"debug_line": l},
                "mut": [{"k": "repeat", "sec": "debug_line", "bytes": [0xff], "n": k}], "only": ["lines", "convert_line"], "budget": 1000000})
    return out


def sharded_replay(ctx, binpath, recipes, tag, nshards, pool, timeout=15):
    """Replay `recipes` split into shards; returns list of observations by index."""
    if not recipes:
        return []
    shards = [[] for _ in range(nshards)]
    for i, r in enumerate(recipes):
        shards[i % nshards].append((i, r))
    futs = []
    for s, items in enumerate(shards):
        if not items:
            continue
        path = os.path.join(ctx.work, "%s-%d.cases" % (tag, s))
        write_ndjson(path, [r for _, r in items])
        futs.append((items, pool.submit(ctx.replay, binpath, path, "%s-%d" % (tag, s), timeout)))
    out = [None] * len(recipes)
    for items, f in futs:
        obs = f.result()
        for j, (i, _) in enumerate(items):
            out[i] = obs.get(j)
    return out


def run(ctx):
    q = ctx.quick
    rnd = random.Random(ctx.seed)
    bins = {p: ctx.build("gvh-robust", p) for p in ("dev", "release")}
    par = max(1, min(4, ctx.workers))
    watchdog = int(os.environ.get("C01_WATCHDOG", "60"))   # seconds without progress before a recipe counts as hung
    pool = ThreadPoolExecutor(max_workers=par)

    # ---- the protocol spec, model-checked (in the background)
    mc = {}

    def model_check():
        try:
            mc["main"] = ctx.tlc("MCIterProto", "MCIterProto" if q else "MCIterProto_thorough", workers=2, timeout=1500)
            for cfg, inv in (("MCIterProto_neg", "Bounded"), ("MCIterProto_cnt", "InputBounded")):
                r = ctx.tlc("MCIterProto", cfg, workers=1, timeout=600, allow_error=True)
                mc[cfg] = (r.error or "", inv)
        except Exception as e:  # reported from the main thread
            mc["exc"] = e
    mt = threading.Thread(target=model_check)
    mt.start()

    # ---- round 1: probes (unmutated bases: section lengths; operation counts per group set)
    bases = list_bases(ctx, rnd)
    probes = []
    for b in bases:
        r = dict(b)
        r.update({"sys": "robust", "seed": 1, "mut": [], "id": "p:" + bkey(b)})
        probes.append(r)
    pobs = sharded_replay(ctx, bins["release"], probes, "probe", par, pool, timeout=watchdog)
    live = []
    for b, o in zip(bases, pobs):
        if o is None or o.get("skipped"):
            continue
        b["lens"] = (o or {}).get("lens") or {}
        live.append(b)
    bases = live
    small = [b for b in bases if sum(b["lens"].values()) <= 6000]
    small.sort(key=lambda b: sum(b["lens"].values()))
    every_bases = [b for b in small if b["base"] == "gen"][: (1 if q else 8)]
    # operation counts of the interposed reader, per base and group set
    fprobes = []
    fault_bases = [b for b in small if b["base"] == "gen"][: (2 if q else 7)] + \
                  [b for b in small if b["base"] != "gen"][: (1 if q else 3)]
    for b in fault_bases:
        for gs in FAULT_SETS:
            r = {k: v for k, v in b.items() if k != "lens"}
            r.update({"sys": "robust", "seed": 5, "mut": [], "reader": "faulty", "fail_at": None, "only": gs,
                      "id": "fp:%s:%s" % (bkey(b), gs[0])})
            fprobes.append(r)
    fobs = sharded_replay(ctx, bins["release"], fprobes, "fprobe", par, pool, timeout=watchdog)
    log("[c01] probes done: %d bases, %d fault probes (%.1fs)" % (len(bases), len(fprobes), time.time() - ctx.t0))

    # ---- round 2: the recipes
    recipes = list(probes) + list(fprobes)
    for b in bases:
        bb = {k: v for k, v in b.items() if k != "lens"}
        total = sum(b["lens"].values())
        big = total > 60000
        nm = {"self": 12 if q else 600, "gen": 30 if q else 300}.get(b["base"], (12 if q else 300) if not big else (10 if q else 300))
        for i in range(nm):
            recipes.append(mutation_recipe(bb, rnd, i))
        # both byte orders on the generated bases, reader through the interposer on a sample
        for i in range(3 if q else 30):
            r = mutation_recipe(bb, rnd, 100000 + i)
            r["reader"] = "faulty"
            r["fail_at"] = rnd.randrange(1 << 30)
            recipes.append(r)
        # truncation: every byte of every section of the small bases (quick: two generated
        # bases every byte, the others sampled), sampled positions for the large ones
        every = b in every_bases
        for sec, n in sorted(b["lens"].items()):
            gs = groups_for(sec)
            if not gs or n == 0:
                continue
            if every:
                cuts = list(range(n))
            else:
                k = min(n, (4 if q else 40) if not big else (3 if q else 30))
                cuts = sorted(set(rnd.randrange(n) for _ in range(k)))
            for at in cuts:
                r = dict(bb)
                r.update({"sys": "robust", "seed": 3, "mut": [{"k": "trunc", "sec": sec, "at": at}], "only": gs,
                          "id": "t:%s:%s:%d" % (bkey(b), sec, at)})
                recipes.append(r)
    # fault at every operation (quick: strided) of the small bases, per group set
    for r0, o in zip(fprobes, fobs):
        n = (o or {}).get("ops") or 0
        if not n:
            continue
        cap = 40 if q else 300
        ks = range(n) if n <= cap else sorted(set(rnd.randrange(n) for _ in range(cap)))
        for k in ks:
            r = dict(r0)
            r.update({"fail_at": k, "id": r0["id"].replace("fp:", "f:") + ":%d" % k})
            recipes.append(r)
    recipes += exhaustive_recipes(ctx)
    recipes += deep_recipes()
    recipes += targeted_recipes()
    recipes += fused_middle_recipes(ctx)
    recipes += encoding_sweep_recipes()
    recipes += c01_operands.recipes(q)
    # every small raw family also through the faulty reader at every operation
    for name, secs, sec, patch, only in raw_families():
        for tail in ([0x10, 0x80, 0x01], [0x03, 1, 2, 3, 4, 5, 6, 7, 8], [0x0f, 2, 0x91, 0x7f, 0x40], [0, 9, 2, 1, 2, 3, 4, 5, 6, 7, 8, 0x21]):
            t = {"sec": sec, "tails": [tail]}
            if patch:
                t["patch"] = patch
            for k in range(25 if q else 60):
                recipes.append({"sys": "robust", "base": "raw", "sections": secs, "seed": 2, "only": only, "tails": t,
                                "reader": "faulty", "fail_at": k, "id": "fr:%s:%d:%d" % (name, len(tail), k)})
    rnd.shuffle(recipes)
    # slow recipes first within a shard does not matter; keep deterministic order
    t0 = time.time()
    f_dev = pool.submit(sharded_replay, ctx, bins["dev"], recipes, "dev", max(1, par // 2), ThreadPoolExecutor(max_workers=par), watchdog)
    f_rel = pool.submit(sharded_replay, ctx, bins["release"], recipes, "rel", max(1, par // 2), ThreadPoolExecutor(max_workers=par), watchdog)
    obs = {"dev": f_dev.result(), "release": f_rel.result()}
    # A hang or an abort is confirmed by replaying that recipe alone with a three times longer
    # watchdog (a loaded machine must not produce a false `timeout`).
    for prof in ("dev", "release"):
        redo = [i for i, o in enumerate(obs[prof]) if o and o.get("outcome") in ("timeout", "abort")]
        hangs_confirmed = 0
        for i in redo[:40]:
            if obs[prof][i].get("outcome") == "timeout" and hangs_confirmed >= 3:
                # three hangs already confirmed in this profile: the verdict stands; the
                # remaining suspected hangs are not reported (each would cost minutes)
                ctx.cov["hangs_not_individually_confirmed"] = ctx.cov.get("hangs_not_individually_confirmed", 0) + 1
                obs[prof][i] = {"skipped": True}
                continue
            path = os.path.join(ctx.work, "confirm-%s-%d.cases" % (prof, i))
            write_ndjson(path, [recipes[i]])
            o2 = ctx.replay(bins[prof], path, "confirm-%s-%d" % (prof, i), 3 * watchdog).get(0)
            if o2 is not None and o2.get("outcome") == "timeout":
                hangs_confirmed += 1
            if o2 is not None:
                if o2.get("outcome") != obs[prof][i].get("outcome"):
                    ctx.cov.setdefault("unconfirmed_abnormal", []).append({"recipe": recipes[i].get("id"), "first": obs[prof][i].get("outcome"), "alone": o2.get("outcome", "returned")})
                obs[prof][i] = o2
    ctx.cov["replay_wall_s"] = round(time.time() - t0, 1)
    log("[c01] replayed %d recipes in both profiles: %.1fs" % (len(recipes), time.time() - t0))

    # ---- observations -> RobustTrace events
    # Per profile: one Calls event per entry point (summed), one Abnormal event per
    # (outcome, entry point, location), one Iter event per distinct result sequence.
    # Instances that differ only in `bound` are represented by the smallest bound
    # (Accept is monotone in the bound - MonoLemma in MCIterProto); if TLC rejects
    # that one, every other bound of the group is validated in a second pass.
    events = []
    meta = []          # per event: (profile, recipe index or None)
    groups = {}        # (profile, key without bound) -> {bound: [n, recipe]}
    evaluations = 0
    variants = 0
    t1 = time.time()
    for prof in ("dev", "release"):
        calls = {}
        abns = {}
        for i, (r, o) in enumerate(zip(recipes, obs[prof])):
            if o is None:
                raise ToolError("no observation for recipe %s (%s)" % (r.get("id"), prof))
            if o.get("skipped"):
                continue
            if "outcome" in o:      # the whole recipe ended abnormally: panic outside a group, abort, timeout
                loc = o.get("loc") or ""
                k = (o["outcome"], "recipe", loc if o["outcome"] == "panic" else recipe_class(r))
                abns.setdefault(k, [0, i, o])[0] += 1
                continue
            nv = o.get("variants", 1)
            variants += nv
            evaluations += len(o["calls"]) + len(o["iters"])
            ok = sum(v[0] for v in o["calls"].values())
            er = sum(v[1] for v in o["calls"].values())
            if prof == "dev" and ok and er:
                ctx.nontrivial(r.get("id"))
            for a, v in o["calls"].items():
                c = calls.setdefault(a, [0, 0])
                c[0] += v[0]
                c[1] += v[1]
            for it in o["iters"]:
                k = (prof, it["it"], it["fused"], it["slack"], json.dumps(it["runs"], separators=(",", ":")))
                e = groups.setdefault(k, {}).setdefault(it["bound"], [0, i])
                e[0] += it.get("n", 1)
            for a in o["abnormal"]:
                k = (a["outcome"], a["api"], a["loc"])
                abns.setdefault(k, [0, i, a])[0] += a.get("n", 1)
        events.append({"ev": "Case", "id": prof})
        meta.append((prof, None, None))
        for a, v in sorted(calls.items()):
            events.append({"ev": "Calls", "api": a, "ok": v[0], "err": v[1]})
            meta.append((prof, None, None))
        for (outcome, api, loc), (n, i, a) in sorted(abns.items()):
            events.append({"ev": "Abnormal", "api": api, "outcome": outcome, "loc": loc, "msg": str(a.get("msg", a.get("stderr", "")))[:200], "n": n})
            meta.append((prof, i, None))
        ctx.cov.setdefault("entry_points", {})[prof] = len(calls)
    ninst = 0
    for k, byb in sorted(groups.items()):
        prof, it, fused, slack, runs = k
        b = min(byb)
        n = sum(v[0] for v in byb.values())
        ninst += n
        events.append({"ev": "Iter", "it": it, "fused": fused, "bound": b, "slack": slack, "runs": json.loads(runs), "n": n})
        meta.append((prof, byb[b][1], k))
    for prof in ("dev", "release"):
        tcat = {}
        for r, o in zip(recipes, obs[prof]):
            if o and "us" in o:
                c = tcat.setdefault(r.get("id", "?").split(":")[0] + ":" + r.get("base", "raw").split(":")[0], [0, 0.0, 0.0])
                c[0] += 1
                c[1] += o["us"] / 1e6
                c[2] = max(c[2], o["us"] / 1e6)
        log("[c01] %s harness seconds by category (n, total, max): %s" % (prof, {k: (v[0], round(v[1], 1), round(v[2], 2)) for k, v in sorted(tcat.items())}))
        ctx.cov.setdefault("slowest_recipe_s", {})[prof] = max([v[2] for v in tcat.values()] or [0])
    ctx.cov["evaluations"] = evaluations
    ctx.cov["recipes"] = len(recipes)
    ctx.cov["input_variants_run"] = variants
    ctx.cov["iterator_instances"] = ninst
    ctx.cov["distinct_iterator_sequences"] = len(groups)
    log("[c01] %d events from %d recipes x 2 profiles (%.1fs)" % (len(events), len(recipes), time.time() - t1))

    def validate(events, meta, tag):
        """TLC validates the event file; returns [(event index, diagnosis)] of the events
        that have no matching action."""
        out = []
        chunk = 30000
        pos = 0
        while pos < len(events):
            part = events[pos:pos + chunk]
            p = os.path.join(ctx.work, "trace-%s-%d.ndjson" % (tag, pos))
            write_ndjson(p, part)
            r = ctx.tlc("RobustTrace", "RobustTrace", workers=1, env={"TRACE": p}, timeout=1800, deque=True, xmx="8g",
                        allow_error=True, cases_name="RobustTrace-tv-%s-%d" % (tag, pos))
            rejected = {}
            stopped = None
            for t, body in r.prints:
                if t == "UNMATCHED":
                    idx_s, js = body.split(", ", 1)
                    rejected[int(idx_s)] = json.loads(json.loads(js))
                elif t == "STOPPED":
                    stopped = int(body)
            if r.error is None:
                if rejected:
                    raise ToolError("TLC accepted the trace but printed unmatched events")
            elif not rejected or stopped != min(rejected):
                raise ToolError("trace validation failed without a consistent diagnosis: %s" % r.error[:2000])
            ctx.cov["traces_validated_against_impl"] += len(part) - len(rejected)
            for idx, d in sorted(rejected.items()):
                out.append((pos + idx - 1, d))
            pos += len(part)
        return out

    def report(rejected, meta):
        for ei, d in rejected:
            ev = d["ev"]
            prof, ri, _ = meta[ei]
            rec = recipes[ri] if ri is not None else None
            if ev.get("ev") == "Abnormal":
                sig = "%s:%s" % (ev["outcome"], ev["loc"])
                what = "%s in %s (%s build, %d occurrence(s)): %s; first recipe: %s" % (
                    ev["outcome"], ev["api"], prof, ev.get("n", 1), ev.get("msg", ""), short(rec))
            else:
                sig = "iter:%s:%s" % (ev.get("it"), d["why"])
                what = "iterator %s (documented fused=%s) over %d bytes/elements produced %s (%s build, %d instance(s)) - %s; first recipe: %s" % (
                    ev.get("it"), ev.get("fused"), ev.get("bound", -1), str(ev.get("runs"))[:300], prof, ev.get("n", 1), why_text(d["why"]), short(rec))
            ctx.violation(sig, what, rec, {"event": ev if len(str(ev)) < 4000 else {k: v for k, v in ev.items() if k != "runs"}, "profile": prof, "why": d["why"]})

    rej1 = validate(events, meta, "a")
    report(rej1, meta)
    ev2, meta2 = [], []
    for ei, d in rej1:
        k = meta[ei][2]
        if k is None:
            continue
        prof, it, fused, slack, runs = k
        byb = groups[k]
        for b in sorted(byb)[1:]:
            ev2.append({"ev": "Iter", "it": it, "fused": fused, "bound": b, "slack": slack, "runs": json.loads(runs), "n": byb[b][0]})
            meta2.append((prof, byb[b][1], k))
    if ev2:
        report(validate(ev2, meta2, "b"), meta2)

    # ---- corrupted-trace control (thorough tier): accepted events, minimally corrupted, must be rejected
    if not q or os.environ.get("C01_CONTROL"):
        rejected_idx = set(ei for ei, _ in rej1)
        bad = [{"ev": "Case", "id": "control"}]
        want = []
        for ei, e in enumerate(events):
            if ei in rejected_idx or e.get("ev") != "Iter":
                continue
            kinds = [r[0] for r in e["runs"]]
            if not e["fused"] and "err" in kinds and "some" in kinds[kinds.index("err"):] and "fused" not in want:
                bad.append(dict(e, fused=True)); want.append("fused")
            nn = sum(r[1] for r in e["runs"] if r[0] != "none")
            if nn > 2 and "bound" not in want:
                bad.append(dict(e, bound=nn - 1 - e["slack"])); want.append("bound")
            if "none" in kinds and "nonone" not in want and len(kinds) > 1:
                bad.append(dict(e, runs=[r for r in e["runs"] if r[0] != "none"])); want.append("nonone")
        bad.append({"ev": "Abnormal", "api": "control", "outcome": "panic", "loc": "control", "msg": ""}); want.append("abnormal")
        got = validate(bad, [("control", None, None)] * len(bad), "ctl")
        ctx.cov["traces_validated_against_impl"] -= len(bad) - len(got)
        ctx.cov["corrupted_trace_control"] = {"corrupted": want, "rejected": [d["why"] for _, d in got]}
        if len(got) != len(bad) - 1:
            raise ToolError("corrupted-trace control: TLC rejected %d of %d corrupted events" % (len(got), len(bad) - 1))

    # ---- spec-generated expression programs (MCExpr, the C07 model) as C01 inputs: every program of
    # the arithmetic slice with every resume answer, both profiles; only the outcome alphabet is
    # judged here (panic / abort / timeout are violations; values are C07's business)
    try:
        import c07
        from vlib import SPEC as _SPEC
        alpha = (c07.ARITH + c07.STACK[:3] + c07.CONST) if not ctx.quick else \
            (["div", "mod", "mul", "plus", "minus", "neg", "abs", "not", "shl", "shr", "shra", "dup", "swap"] + c07.CONST)
        cfgname = "MCExpr_c01_run"
        with open(os.path.join(_SPEC, cfgname + ".cfg"), "w") as f:
            f.write("INIT Init\nNEXT Next\nINVARIANT MachineInv\nINVARIANT Emit\nCONSTRAINT Horizon\nCHECK_DEADLOCK FALSE\nCONSTANTS\n")
            f.write("  Alpha = %s\n  MaxLen = %d\n  MaxIters = {999}\n  Stores = {\"heap\"}\n  Inits = {\"none\"}\n" %
                    (c07.tlaset(alpha), 3))
        rx = ctx.tlc("MCExpr", cfgname, timeout=1200)
        for prof in ("dev", "release"):
            bx = ctx.build("gvh-expr", prof)
            ox = ctx.replay(bx, rx.cases_path, tag="c01-expr-" + prof)
            for i, o in ox.items():
                if isinstance(o, dict) and "outcome" in o:
                    ctx.violation("%s:%s" % (o["outcome"], o.get("loc", "expr")),
                                  "expression evaluation did not return normally (%s profile, MCExpr case %d): %s" % (prof, i, str(o)[:300]),
                                  {"mcexpr_case": i, "profile": prof}, o)
        ctx.cov["mcexpr_programs"] = rx.ncases
    except ImportError:
        pass

    # ---- model checking results
    mt.join()
    if "exc" in mc:
        raise mc["exc"]
    for cfg in ("MCIterProto_neg", "MCIterProto_cnt"):
        err, inv = mc[cfg]
        if ("Invariant %s is violated" % inv) not in err:
            raise ToolError("%s: TLC did not refute %s for the negative family (the model would be vacuous): %s" % (cfg, inv, err[:500]))
    # samples
    for r, o in zip(recipes, obs["dev"]):
        if o and "calls" in o and r.get("id", "").startswith("m:") and o["calls"]:
            ctx.sample({"recipe": {k: v for k, v in r.items() if k != "sections"},
                        "applied": o.get("applied"),
                        "calls": dict(list(sorted(o["calls"].items()))[:8]), "iters": o["iters"][:3], "abnormal": o["abnormal"][:2]}, limit=4)
    ctx.assumptions += [
        "the byte space is sampled: seeded structure-aware mutations of real and writer-generated sections, exhaustive only for short decoder inputs",
        "caller-supplied parameters (address size, encoding) are restricted to valid values; only section bytes, offsets and indices are hostile",
        "Evaluation is always driven with set_max_iterations (an unbounded evaluation loop is the documented caller's responsibility)",
        "stack overflow is observed on the main thread's default 8 MB stack",
        "iterator bound = byte length of the section (or sub-section) the iterator reads, + 1 where an iterator can yield one inline item",
        "which iterators are documented as fused is taken from the doc comments (notes/C01.md lists both sets)",
    ]
    ctx.finish("exploration",
               rule="one evaluation = one (recipe, entry point or iterator family) pair that was exercised; a recipe is non-trivial when at least one entry point returned Ok and at least one returned Err in the dev build; events are the per-profile aggregates (distinct iterator result sequences, per-entry-point counts, abnormal outcomes) validated one by one by RobustTrace",
               exhaustive=False)


def recipe_class(r):
    b = r.get("base", "raw")
    ks = "+".join(sorted(set(m.get("k", "") for m in r.get("mut", [])))) or "none"
    ident = r.get("id", "")
    if ident.startswith(("deep:", "x:", "tg:", "fm:", "enc:", "op:")):
        return ident
    return "%s:%s:%s" % (b.split(":")[0], ks, ",".join(r.get("only", ["all"]))[:40])


def short(r):
    if r is None:
        return "-"
    d = {k: v for k, v in r.items() if k not in ("sections", "tails", "lens")}
    s = json.dumps(d, separators=(",", ":"))
    return s[:400]


def why_text(w):
    return {"unbounded": "more Some/Err results than the input has bytes (+ injected faults), or an error repeated without progress",
            "not-fused": "a result other than None after an error, although the documentation promises None",
            "no-none": "no None within bound+8 calls",
            "malformed": "malformed event"}.get(w, w)
