"""C16 — written range and location lists read back as the same lists.

Deciding spec: ListWriter.tla (builder machine for write::RangeListTable /
LocationListTable: de-duplicating add, per-version emission and validity errors
as coded, the Meaning of a built list, what the property demands to be
rejected) composed with Lists.tla (the reader model that resolves the emitted
bytes).

 G: MCListWriter enumerates units (version class x address size 4/8 x root
    low_pc absent / 0 / non-zero / tombstone) with one list of up to MaxLen entries
    over BaseAddress / OffsetPair / StartEnd / StartLength / DefaultLocation with
    boundary addresses and lengths (begin = end, (0,0), all-ones, values that do
    not fit), and units with 2-3 lists from a pool incl. duplicates; inside TLC:
    on lists the property regards as representable the emission as coded is
    accepted and Lists reads the emitted bytes back as the list's Meaning, and
    equal lists share an id.  gvh-listw builds each unit with the real writer
    (every version of the class x both formats), reads it back with
    read::Dwarf::attr_ranges / attr_locations and reports.
 V: gvh-listw records seeded random tables (1-5 lists of up to 8 entries, both
    byte orders); ListWriterTrace.tla validates each unit.
"""
import json, os
from vlib import read_ndjson, canon, ToolError, log


def strip_err(x):
    if isinstance(x, dict):
        if x.get("t") == "err":
            return {"t": "err"}
        return {k: strip_err(v) for k, v in x.items()}
    if isinstance(x, list):
        return [strip_err(v) for v in x]
    return x


def note_drift(ctx, d):
    k = canon(d)
    tab = ctx.__dict__.setdefault("_c16_drift", {})
    if k in tab:
        tab[k]["count"] += 1
    elif len(tab) < 60:
        tab[k] = dict(d, count=1)
        ctx.drift.append(tab[k])


def expected_classes(case):
    """position (1-based, within the lists of the same table) of the first list with an equal id"""
    out, seen = [], {"rng": [], "loc": []}
    for l, i in zip(case["lists"], case["ids"]):
        s = seen[l["fam"]]
        out.append(s.index(i) + 1 if i in s else len(s) + 1)
        s.append(i)
    return out


def chunks_of(ctx, cases_path, tag, size=30000):
    """Yield (chunk_path, cases) so that observations of at most `size` cases are in memory."""
    buf, k = [], 0
    def flush():
        nonlocal buf, k
        p = os.path.join(ctx.work, "%s-part%d.ndjson" % (tag, k))
        with open(p, "w") as f:
            f.writelines(buf)
        cases = [json.loads(l) for l in buf]
        buf = []
        k += 1
        return p, cases
    with open(cases_path) as f:
        for line in f:
            if line.strip():
                buf.append(line)
                if len(buf) >= size:
                    yield flush()
    if buf:
        yield flush()


def check_cases(ctx, binpath, cases_path, tag):
    base = 0
    for part, cases in chunks_of(ctx, cases_path, tag):
        obs = ctx.replay(binpath, part, tag=tag)
        check_chunk(ctx, cases, obs, base)
        base += len(cases)
        os.remove(part)


def check_chunk(ctx, cases, obs, base):
    for ci, case in enumerate(cases):
        o = obs.get(ci)
        vclass = "pair-format" if case["vc"] <= 4 else "v5"
        if o is None or "outcome" in o:
            ctx.violation("listw:%s:%s" % ((o or {}).get("outcome"), (o or {}).get("loc", "")),
                          "harness did not return normally: %s" % json.dumps(o)[:300], case, o)
            continue
        if (base + ci) % 9973 == 11:
            ctx.sample({"case": {k: case[k] for k in ("vc", "asz", "lp", "lists", "reject", "why")}, "meaning": case["pred"][0]["meaning"], "obs": o["runs"][0]})
        exp_cls = expected_classes(case)
        for run in o["runs"]:
            r = run["obs"]
            pred = [p for p in case["pred"] if p["fmt"] == run["fmt"]][0]
            meaning = pred["meaning"]        # per format: an expression may hold a DIE offset
            where = "v%s fmt%s asz%s low_pc %s lists %s" % (run["ver"], run["fmt"], case["asz"], case["lp"], json.dumps(case["lists"])[:500])
            if "outcome" in r:
                if pred["err"] == "AddOverflow":
                    # StartLength: `begin + length` is an unchecked u64 addition (C01's subject)
                    note_drift(ctx, {"where": "write", "c01_candidate": r.get("loc"), "msg": r.get("msg")})
                else:
                    ctx.violation("listw:%s:%s" % (r.get("outcome"), r.get("loc", "")), "writing panicked: %s; %s" % (json.dumps(r)[:200], where), case, run)
                continue
            if r["t"] not in ("ok", "err"):
                ctx.violation("listw:%s:read-back-failed:%s" % (vclass, r["t"]), "%s; %s" % (json.dumps(r)[:300], where), case, run)
                continue
            if r["classes"] != exp_cls and r["t"] == "ok":
                ctx.violation("listw:dedup:ids", "id classes %s, expected %s; %s" % (r["classes"], exp_cls, where), case, run)
            if r["t"] == "err":
                if not case["reject"]:
                    ctx.violation("listw:%s:rejected-representable:%s" % (vclass, r["err"]),
                                  "write failed with %s on lists the encoding can carry; %s" % (r["err"], where), case, run)
                elif pred["ok"] or pred["err"] != r["err"]:
                    note_drift(ctx, {"where": "error-kind", "model": pred["err"] if not pred["ok"] else "accepted", "observed": r["err"]})
                continue
            # written successfully
            if case["refs"] and r.get("dieoffs") != pred["dieoffs"]:
                # the expected expression bytes hold the DIE offsets of the unit layout the model assumes
                ctx.violation("listw:%s:die-layout" % vclass, "DIE offsets %s, the model's unit layout gives %s; %s" %
                              (r.get("dieoffs"), pred["dieoffs"], where), case, run)
                continue
            faithful = True
            for i, (l, got) in enumerate(zip(case["lists"], r["lists"])):
                if got.get("t") != l["fam"] or strip_err(got.get("items")) != strip_err(meaning[i]):
                    faithful = False
                    bad = (i, got)
            if len(r["lists"]) != len(case["lists"]):
                faithful = False
                bad = (-1, r["lists"])
            if case["reject"]:
                whys = sorted(case["why"])
                if case["named"]:
                    ctx.violation("listw:%s:accepted:%s" % (vclass, "+".join(w for w in whys if w not in ("all-ones-begin", "does-not-fit")) or "named"),
                                  "the writer accepted lists the property requires to be rejected (%s); %s" % (whys, where), case, run)
                elif not faithful:
                    fam = case["lists"][bad[0]]["fam"] if bad[0] >= 0 else "?"
                    if "all-ones-begin" in whys:
                        ctx.violation("listw:pair-format:all-ones-begin-emitted-as-base-selector:%s" % fam,
                                      "an entry whose first word equals the all-ones base-address marker was written and reads back as a base-address selection: "
                                      "list %s read back %s, meaning %s; %s" % (bad[0], json.dumps(bad[1])[:300], json.dumps(meaning)[:300], where), case, run)
                    else:
                        ctx.violation("listw:%s:unrepresentable-accepted-and-misread:%s" % (vclass, "+".join(whys)),
                                      "list %s read back %s, meaning %s; %s" % (bad[0], json.dumps(bad[1])[:300], json.dumps(meaning)[:300], where), case, run)
                else:
                    # accepted although the encoding cannot carry it; the entry happens to read back as
                    # nothing / the same, but the property demands an error (and gimli gives one)
                    ctx.violation("listw:%s:accepted:%s" % (vclass, "+".join(whys)),
                                  "the writer accepted a list the chosen encoding cannot represent (%s) instead of returning an error; %s" % (whys, where), case, run)
                continue
            if not faithful:
                fam = case["lists"][bad[0]]["fam"] if bad[0] >= 0 else "?"
                ctx.violation("listw:%s:%s:readback-differs" % (vclass, fam),
                              "list %s read back %s, meaning %s; %s" % (bad[0], json.dumps(bad[1])[:300], json.dumps(meaning)[:300], where), case, run)
            if r["other"] != 0:
                ctx.violation("listw:%s:wrong-section" % vclass, "bytes were written to the list sections of the other version; %s" % where, case, run)
            if pred["ok"]:
                if len(r["rsec"]) != pred["rlen"] or len(r["lsec"]) != pred["llen"]:
                    ctx.violation("listw:dedup:copies", "emitted section sizes %d/%d, one copy per distinct list gives %d/%d; %s" %
                                  (len(r["rsec"]), len(r["lsec"]), pred["rlen"], pred["llen"], where), case, run)
                elif r["rsec"] != pred["rsec"] or r["lsec"] != pred["lsec"]:
                    note_drift(ctx, {"where": "section-bytes", "vclass": vclass, "fmt": run["fmt"]})
                offs = [x.get("off") for x in r["lists"]]
                if offs != pred["offs"]:
                    note_drift(ctx, {"where": "list-offsets", "vclass": vclass, "fmt": run["fmt"]})
            else:
                note_drift(ctx, {"where": "model-predicted-error", "model": pred["err"], "observed": "accepted"})
        if sum(len(l["L"]) for l in case["lists"]) >= 1:
            ctx.nontrivial(canon([case["vc"], case["asz"], case["lp"], case["lists"]]))


def validate_units(ctx, trace, module="ListWriterTrace", chunk=4000):
    lines = [l for l in open(trace) if l.strip()]
    pos = 0
    rejected = 0
    while pos < len(lines):
        part = lines[pos:pos + chunk]
        p = os.path.join(ctx.work, "chunk.ndjson")
        with open(p, "w") as f:
            f.writelines(part)
        ok, info = ctx.validate_trace(module, p)
        if ok:
            ctx.cov["traces_validated_against_impl"] += len(part)
            pos += len(part)
            continue
        um = info.get("unmatched")
        if not um:
            raise ToolError("trace validation failed without an unmatched event: %s" % info.get("error"))
        idx_s, js = um.split(", ", 1)
        idx = int(idx_s)
        ev = json.loads(part[idx - 1])       # the spec prints only the line number (events are long)
        ctx.cov["traces_validated_against_impl"] += idx - 1
        o = ev.get("obs", {})
        enc = ev.get("enc", {})
        ones = [255] * enc.get("asz", 8) + [0] * (8 - enc.get("asz", 8))
        marker = enc.get("ver", 5) <= 4 and any(e["k"] in ("opair", "se", "slen") and e["a"] == ones
                                                 for l in ev.get("lists", []) for e in l["L"])
        if marker and o.get("t") == "ok":      # label only: the unit contains the all-ones marker as a first word
            sig = "listw:pair-format:all-ones-begin-emitted-as-base-selector:trace"
        else:
            sig = "trace:listw:v%s:%s" % ("2-4" if enc.get("ver", 5) <= 4 else "5", o.get("t") or o.get("outcome"))
        ctx.violation(sig, "recorded unit is not explained by ListWriter/Lists: %s" % json.dumps(ev)[:900], ev, None)
        pos += idx
        rejected += 1
        if rejected >= 8:
            log("[c16] 8 recorded units rejected; the remaining %d units are not examined" % (len(lines) - pos))
            break


def run(ctx):
    q = ctx.quick
    profiles = ["dev"] if q else ["dev", "release"]
    bins = {p: ctx.build("gvh-listw", p) for p in profiles}
    tier = os.environ.get("C16_CFG") or ("quick" if q else "thorough")
    r1 = ctx.tlc("MCListWriter", "MCListWriter_" + tier, timeout=7200)
    for prof, b in bins.items():
        check_cases(ctx, b, r1.cases_path, "listw-" + prof)
    n = int(os.environ.get("C16_TRACE_N") or (600 if q else 8000))
    tr = ctx.record(bins["dev"], "listw.ndjson", ["--seed", ctx.seed, "--n", n])
    validate_units(ctx, tr)
    ctx.assumptions += [
        "expected read-back = the model's own resolution (Lists!Convert folded over the built entries with the unit base address); "
        "entries the reader filters (empty after resolution, begin in the tombstone zone) are therefore absent on both sides",
        "the categories the property names (empty ranges, offset pairs without / address pairs with a base address, default location) are demanded "
        "to be rejected in the pair format (v2-4) only: the v5 encoding represents them unambiguously and gimli writes them",
        "other unrepresentable entries (value does not fit the address size, begin + length leaves the address space or u64, first word equal to the all-ones "
        "base-address marker) must be rejected as well, whether or not the emitted bytes happen to read back as the list's meaning",
        "error kinds, exact section bytes and offsets are compared with the model as drift, not as violations",
        "location expressions are raw byte strings optionally ending with DW_OP_call4 / DW_OP_call_ref to the root or a child DIE (also forward); "
        "the expected operand is the DIE offset of the unit layout the model assumes, which must equal the offsets gimli reports for the DIEs read back",
        "addresses are Address::Constant; symbolic addresses need a relocating writer and belong to C18",
    ]
    ctx.finish("model_checking",
               rule="one case per distinct (version class, address size, root low_pc, lists) state explored by TLC, replayed for every version of the class and both formats; "
                    "non-trivial = at least one entry; recorded random units are validated one by one by ListWriterTrace",
               exhaustive=True)
