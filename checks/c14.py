"""C14 — written frame tables read back with the same CIEs, FDEs and unwind rows.

Deciding spec: FrameWriter.tla (builder machine of write::FrameTable, emission
as coded in src/write/cfi.rs, reference meaning of the supplied instructions)
over CfiCodec.tla (entry layout).
 G: MCFrameWriter explores three families (adv: advance_loc width boundaries x
    code alignment; ins: every CallFrameInstruction variant x operands x data
    alignment; tab: builder sequences with duplicate CIEs, versions, formats,
    pointer encodings) and prints, per state, the builder script and for both
    output sections the bytes as coded, the layout, the meaning to read back
    (CIE parameters, FDE range / LSDA, unwind state at every probe offset) or the
    error.  gvh-framew performs the calls on gimli, writes, reads back with
    gimli::read and reports.
The unwind meaning is compared as the partial function code offset -> (CFA rule,
register rules, args size) sampled at and just before every instruction offset,
the first and the last byte of the FDE — not as row lists.
"""
import json, os
from vlib import read_ndjson, canon, ToolError

FAMS = ["adv", "ins", "tab"]
CIE_FIELDS = ("fmt", "ver", "asz", "caf", "daf", "ra", "aug")


def norm_state(st):
    if not isinstance(st, dict) or "cfa" not in st:
        return st
    # projection: a function register -> rule in which an absent register is Undefined
    # (gimli stores an explicit `Undefined` rule, the reference semantics removes the entry)
    rules = sorted((canon(r) for r in st.get("rules", []) if r.get("k") != "undef"))
    return {"cfa": st["cfa"], "rules": rules, "args": st.get("args")}


def compare_case(ctx, case, o, prof):
    bad = []
    fam = case["fam"]
    if fam == "eptr":
        # pointer-format cases: name the slot (P personality / F FDE address / L LSDA) and the encoding byte
        fam = "eptr:%s:enc0x%02x:asz%d" % (case.get("slot"), case.get("enc", 0), case.get("asz", 0))
    # add_instruction carries a debug assertion on non-decreasing offsets: in the dev profile a
    # script with decreasing offsets stops there, before anything is written
    decreasing = any(f["ins"][i][0] > f["ins"][i + 1][0] for f in case["fdes"] for i in range(len(f["ins"]) - 1))
    if "outcome" in o:
        if decreasing and prof == "dev" and o.get("outcome") == "panic" and "write/cfi.rs" in o.get("loc", ""):
            ctx.drift.append({"case": fam, "what": "decreasing offsets hit the debug assertion of add_instruction in the dev profile (release returns the error)"})
            return bad
        bad.append(("%s:%s:%s" % (fam, o.get("outcome"), o.get("loc", "")), "replay did not return normally: %s" % json.dumps(o)[:300]))
        return bad
    if o.get("ids") != case["ids"] or o.get("ncies") != case["ncies"]:
        bad.append(("dedup:ids", "add_cie returned ids %s / %s CIEs, expected %s / %s" % (o.get("ids"), o.get("ncies"), case["ids"], case["ncies"])))
    for kind in ("debug", "eh"):
        e, g = case["exp"][kind], o.get(kind, {})
        if not e["ok"]:
            if g.get("ok"):
                bad.append(("%s:%s:error-expected:%s" % (fam, kind, e.get("err")), "write succeeded, the model rejects with %s" % e.get("err")))
            elif g.get("err") != e.get("err"):
                ctx.drift.append({"case": "%s:%s" % (fam, kind), "what": "error %s, model %s" % (g.get("err"), e.get("err"))})
            continue
        if not g.get("ok"):
            bad.append(("%s:%s:unexpected-error:%s" % (fam, kind, g.get("err")), "write failed with %s, the model writes %d bytes" % (g.get("err"), len(e["bytes"]))))
            continue
        same_bytes = g.get("bytes") == e["bytes"]
        if not same_bytes:
            ctx.drift.append({"case": "%s:%s" % (fam, kind), "what": "emitted bytes differ from the emission as coded in the model"})
        rd = g.get("read", {})
        oe, ee = rd.get("ents", []), e["ents"]
        if not rd.get("end", {}).get("ok"):
            bad.append(("%s:%s:readback-error" % (fam, kind), "reading the written section back failed: %s" % rd.get("end")))
        if [x.get("t") for x in oe] != [x["t"] for x in ee]:
            ncie_o = sum(1 for x in oe if x.get("t") == "cie"); ncie_e = sum(1 for x in ee if x["t"] == "cie")
            sig = "%s:%s:structure" % (fam, kind) + (":cie-count" if ncie_o != ncie_e else "")
            bad.append((sig, "entries read back %s, expected %s" % ([x.get("t") for x in oe], [x["t"] for x in ee])))
            continue
        for idx, (x, y) in enumerate(zip(ee, oe)):
            nb = len(bad)
            own = x if x["t"] == "cie" else next((c for c in ee if c["t"] == "cie" and c["off"] == x["cie_off"]), None)
            ra_case = kind == "eh" and own is not None and own["ver"] == 1 and own["ra"] >= 128
            if x["t"] == "cie":
                for f in CIE_FIELDS:
                    if canon(x[f]) != canon(y.get(f)):
                        extra = ""
                        if f != "ra" and kind == "eh" and x["ver"] == 1 and x["ra"] >= 128:
                            extra = ":after-ra>=128"
                        if f == "ra" and kind == "eh" and x["ver"] == 1 and x["ra"] >= 128:
                            extra = ":v1>=128"
                        bad.append(("%s:cie:%s%s" % (kind, f, extra), "CIE %d field %s read back %s, built %s" % (idx, f, y.get(f), x[f])))
                        break
            else:
                if "parse" in y:
                    sig = "%s:fde:parse-error" % kind
                    cie_e = next((c for c in ee if c["t"] == "cie" and c["off"] == x["cie_off"]), None)
                    if kind == "eh" and cie_e and cie_e["ver"] == 1 and cie_e["ra"] >= 128:
                        sig += ":after-ra>=128"
                    bad.append((sig, "FDE %d does not parse back: %s" % (x["k"], y["parse"])))
                    continue
                for f in ("start", "rng", "lsda"):
                    if canon(x[f]) != canon(y.get(f)):
                        bad.append(("%s:fde:%s" % (kind, f), "FDE %d field %s read back %s, built %s" % (x["k"], f, y.get(f), x[f])))
                # binding to its CIE
                ci = next((j for j, c in enumerate(ee) if c["t"] == "cie" and c["off"] == x["cie_off"]), None)
                if ci is None or y.get("cie_off") != oe[ci].get("off") or any(canon(ee[ci][f]) != canon(y.get("cie", {}).get(f)) for f in CIE_FIELDS):
                    sig = "%s:fde:cie-binding" % kind
                    if kind == "eh" and ci is not None and ee[ci]["ver"] == 1 and ee[ci]["ra"] >= 128:
                        sig += ":after-ra>=128"
                    bad.append((sig, "FDE %d is bound to CIE %s, expected the CIE at %s" % (x["k"], y.get("cie"), x["cie_off"])))
                # unwind meaning at the probes
                if case.get("wf", True):
                    os_ = {s["x"]: s["st"] for s in y.get("states", [])}
                    for s in x["states"]:
                        got = os_.get(s["x"])
                        if canon(norm_state(got)) != canon(norm_state(s["st"])):
                            first_op = next((i[1]["op"] for i in case["fdes"][x["k"] - 1]["ins"] if i[0] <= s["x"]), "cie")
                            ops = sorted(set(i[1]["op"] for i in case["fdes"][x["k"] - 1]["ins"] if i[0] <= s["x"]))
                            bad.append(("%s:state:%s" % (kind, "+".join(ops) or first_op),
                                        "FDE %d offset %d: unwind state %s, meaning of the supplied instructions %s" %
                                        (x["k"], s["x"], json.dumps(got)[:300], json.dumps(s["st"])[:300])))
                            break
            if ra_case and len(bad) > nb:
                # one specific signature for the version-1 return-address-register encoding mismatch
                text = bad[nb][1]
                del bad[nb:]
                bad.append(("eh:v1:ra>=128", "CIE version 1 in .eh_frame with return address register %d: %s" % (own["ra"], text)))
            # layout and padding
            lay_same = all(x.get(f) == y.get(f) for f in ("off", "len") + (("cie_off",) if x["t"] == "fde" else ()))
            if not lay_same:
                ctx.drift.append({"case": "%s:%s" % (fam, kind), "what": "layout of entry %d differs from the model (%s vs %s)" % (idx, [y.get("off"), y.get("len")], [x["off"], x["len"]])})
    return bad


def entry_events(case, o, events):
    """(kind, entry type, format, length, address size) of every entry gimli read back; the
    padding rule is judged on them by FrameWriterTrace (V binding)."""
    for kind in ("debug", "eh"):
        g = o.get(kind) or {}
        if not g.get("ok"):
            continue
        npre = len((case.get("pre") or {}).get(kind) or [])
        for y in (g.get("read") or {}).get("ents", []):
            c = y if y.get("t") == "cie" else y.get("cie")
            if not c or y.get("off", 0) < npre:
                continue          # an entry of the pre-existing section contents, not written by the table
            k = (kind, y["t"], c["fmt"], y["len"], c["asz"])
            events[k] = events.get(k, 0) + 1


def run(ctx):
    q = ctx.quick
    profiles = ["dev"] if q else ["dev", "release"]
    bins = {p: ctx.build("gvh-framew", p) for p in profiles}
    suffix = "quick" if q else "thorough"
    only = os.environ.get("C14_FAMS")            # development knob
    nsample = {}
    events = {}
    for fam in FAMS:
        if only and fam not in only.split(","):
            continue
        r = ctx.tlc("MCFrameWriter", "MCFrameWriter_%s_%s" % (fam, suffix), timeout=3300)
        for prof, b in bins.items():
            obs = ctx.replay(b, r.cases_path, tag="%s-%s" % (fam, prof))
            for i, case in enumerate(read_ndjson(r.cases_path)):
                o = obs.get(i)
                if o is None:
                    ctx.violation("%s:no-observation" % fam, "no observation for case %d" % i, case, None)
                    continue
                for sig, text in compare_case(ctx, case, o, prof):
                    ctx.violation(sig, text, case, o)
                if "outcome" not in o:
                    entry_events(case, o, events)
                if case["exp"]["debug"]["ok"] or case["exp"]["eh"]["ok"]:
                    ctx.nontrivial(canon([case["adds"], case["fdes"], case["le"]]))
                    if not nsample.get(fam):
                        nsample[fam] = 1
                        ctx.sample({"fam": fam, "adds": case["adds"], "fdes": case["fdes"],
                                    "debug_bytes": (o.get("debug") or {}).get("bytes"), "eh_ok": (o.get("eh") or {}).get("ok")})
    # --- V: the padding rule on every entry read back (one event per distinct entry shape)
    tp = os.path.join(ctx.work, "entries.ndjson")
    with open(tp, "w") as f:
        for (kind, t, fmt, ln, asz), n in sorted(events.items()):
            f.write(json.dumps({"ev": "Entry", "kind": kind, "t": t, "fmt": fmt, "len": ln, "asz": asz, "n": n}) + "\n")
    if events:
        res = ctx.tlc("FrameWriterTrace", "FrameWriterTrace", workers=1, env={"TRACE": tp}, timeout=900,
                      deque=True, allow_error=True, cases_name="FrameWriterTrace-tv")
        if res.error:
            raise ToolError("FrameWriterTrace rejected the entry trace: %s" % res.error[:1500])
        nbad = 0
        for tagname, body in res.prints:
            if tagname == "PADBAD":
                fmt, ln, asz, kind, t = [x.strip().strip('"') for x in body.split(",")]
                nbad += 1
                ctx.violation("pad:fmt%s:asz%s" % (fmt, asz),
                              "%s %s entry read back with format %s, length %s, address size %s: length field + length is not a multiple of the address size"
                              % (kind, t, fmt, ln, asz), {"kind": kind, "t": t, "fmt": int(fmt), "len": int(ln), "asz": int(asz)}, None)
        ctx.cov["traces_validated_against_impl"] += len(events) - nbad
    ctx.assumptions += [
        "programs are well-formed for the reference semantics (register/offset CFA forms on a register+offset CFA, restore_state after remember_state, no restore inside a CIE)",
        "instruction code offsets lie inside the FDE's range; addresses are Address::Constant (symbols need a relocating writer, C18)",
        "operands stay below 2^31 in magnitude (TLC integers); i32::MIN and u32 values >= 2^31 are not generated",
        "error kinds are drift; the property only fixes success / failure",
        "decreasing offsets are refused by a debug assertion of add_instruction in the dev profile (recorded as drift); the error path is checked in the release profile (thorough tier)",
        "V binding: only the padding rule is validated on observed entries (FrameWriterTrace); the emission as coded is compared byte for byte with gimli's output in every replay case (differences = drift)",
        "an FDE's format is taken to be its CIE's (the reader does not expose it; the writer uses the CIE's encoding for both)",
    ]
    ctx.finish("model_checking",
               rule="one case per state of MCFrameWriter (code alignment x offset pair / instruction x operands x data alignment x follow-up / add_cie sequence x FDE references); "
                    "each case is written as .debug_frame and as .eh_frame; non-trivial = distinct builder script for which at least one section must be written",
               exhaustive=True)
