"""C02 — the DIE forest is reported exactly as encoded, by every navigation API.

Deciding specs: Dies.tla (unit header / forest / token-stream encoders, the
EntriesRaw / EntriesCursor / EntriesTree machines as coded, the forest-level
meaning of every call) and Abbrev.tla (table encoder, the vec+map store as coded,
lookup / first-duplicate rejection).

 G: MCDies explores (a) every abbreviation insertion sequence, (b) every unit
    header layout, (c) every small forest x DW_AT_sibling subset x padding x
    (header variant, code scheme); for (c) the complete state graph of the cursor
    and the tree iterator from every start entry.  TLC checks machine-as-coded =
    forest semantics on every transition and prints one replay case per
    transition; gvh-dies replays them on gimli.
 V: gvh-dies records randomly interleaved traversals of large units (random
    forests written by gimli::write, the self fixture); DiesTrace.tla validates
    every call against the machines and the reported token stream against the
    built forest.
"""
import json, os, time
from vlib import read_ndjson, canon, ToolError, SPEC, log

CFG = """INIT Init
NEXT Next
VIEW View
CHECK_DEADLOCK FALSE
CONSTANTS
  Modes = {"nav", "ab", "hdr"}
  MaxN = %(maxn)d
  RestrictN = %(restrict)d
  Pads = {0, 2}
  Combos <- %(combos)s
  FullCombos <- %(full)s
  Rotate = TRUE
  MaxA = %(maxa)d
"""

CORPUS = os.path.join(os.path.dirname(SPEC), "corpus")   # real sections built by corpus-src/build.sh (input only; may be absent)

TIERS = {
    "quick": dict(maxn=4, restrict=4, combos="CombosQuick", full="FullQuick", maxa=4),
    "thorough": dict(maxn=5, restrict=5, combos="CombosThorough", full="FullThorough", maxa=5),
}


def match(exp, obs, path=""):
    """Structural comparison: every field the spec states must be reported
    identically; fields the spec leaves out are not compared.  Returns the path
    of the first difference or None."""
    if isinstance(exp, dict):
        if not isinstance(obs, dict):
            return path or "."
        for k, v in exp.items():
            if k not in obs:
                return path + "." + k
            r = match(v, obs[k], path + "." + k)
            if r:
                return r
        return None
    if isinstance(exp, list):
        if not isinstance(obs, list) or len(obs) != len(exp):
            return path + ".len"
        for i, (a, b) in enumerate(zip(exp, obs)):
            r = match(a, b, path + "[%d]" % i)
            if r:
                return r
        return None
    return None if exp == obs else (path or ".")


def as_set(items):
    return sorted(canon(x) for x in items)


def field_of(path):
    """last field name of a difference path, without indices"""
    p = [x for x in path.replace("]", "").split(".") if x]
    return (p[-1].split("[")[0] if p else "value")


def cfg_name(sid):
    return "hv%s/%s" % (sid[-2], sid[-1]) if sid and sid[0] != "hdr" else "hdr"


class Checker:
    def __init__(self, ctx, prof):
        self.ctx = ctx
        self.prof = prof

    def stream(self, case, o):
        ctx = self.ctx
        sid = case["sid"]
        tagp = "" if self.prof == "dev" else ":" + self.prof
        if o is None or "outcome" in o:
            ctx.violation("stream:%s%s:%s" % ((o or {}).get("outcome"), tagp, (o or {}).get("loc", "")),
                          "replaying a well-formed unit did not return normally", case, o)
            return
        if "unit_err" in o or "abbrev_err" in o:
            ctx.violation("stream:parse-error:%s%s" % (o.get("unit_err") or o.get("abbrev_err"), tagp),
                          "well-formed unit %s rejected: %s" % (sid, o), case, o)
            return
        if not case.get("navonly"):
            d = match(case["exph"], o["hdr"])
            if d:
                ctx.violation("header:%s:v%s:%s%s" % (field_of(d), case["exph"]["version"], case["exph"]["kind"], tagp),
                              "unit header field %s: expected %s, reported %s" % (d, case["exph"], o["hdr"]), case, o["hdr"])
            if "alloffs" in case and o.get("alloffs") != case["alloffs"]:
                ctx.violation("header:unit-offsets:%s%s" % (case["exph"]["section"], tagp),
                              "section offsets of the units of the %s section: encoded at %s, reported %s" %
                              (case["exph"]["section"], case["alloffs"], o.get("alloffs")), case, o.get("alloffs"))
            if o.get("from_offset_same") is False:
                ctx.violation("header:from_offset%s" % tagp, "header_from_offset(unit offset) differs from units()", case, o["hdr"])
            if as_set(case["gets"]) != as_set(o["gets"]):
                ctx.violation("abbrev:get:%s%s" % (sid[-1], tagp),
                              "abbreviation lookup: expected %s got %s" % (case["gets"], o["gets"]), case, o["gets"])
            if isinstance(o["raw"], dict):
                ctx.violation("raw:%s%s:%s" % (o["raw"].get("outcome"), tagp, o["raw"].get("loc", "")), "raw reading panicked", case, o["raw"])
            else:
                d = match(case["raw"], o["raw"])
                if d:
                    ctx.violation("raw:%s%s" % (field_of(d), tagp),
                                  "EntriesRaw::read_entry over the unit: difference at %s; expected %s got %s" %
                                  (d, case["raw"], o["raw"]), case, o["raw"])
            d = match(case["entries"], o["entries"])
            if d:
                ctx.violation("entry:%s%s" % (field_of(d), tagp),
                              "UnitHeader::entry(offset): difference at %s; expected %s got %s" % (d, case["entries"], o["entries"]), case, o["entries"])
            ctx.nontrivial("S" + repr(sid))
        for nav, no in zip(case.get("navs", []), o.get("navs", [])):
            self.nav(case, nav, no)

    def nav(self, case, nav, no):
        ctx = self.ctx
        tagp = "" if self.prof == "dev" else ":" + self.prof
        op = nav["script"][-1]
        key = "%s:%s" % (nav["api"], op)
        if "outcome" in no or "open_err" in no:
            ctx.violation("nav:%s:%s%s:%s" % (key, no.get("outcome") or "open-error", tagp, no.get("loc", "")),
                          "script %s from start %s on %s did not return normally: %s" % (nav["script"], nav["start"], case["sid"], no), nav, no)
            return
        if no["n"] != len(nav["script"]):
            ctx.violation("nav:%s:script-stopped%s" % (key, tagp), "script %s stopped after %d calls" % (nav["script"], no["n"]), nav, no)
            return
        last = no["last"]
        if nav["exp"].get("ret") == "err":
            # reading past the end of the unit with EntriesRaw: an error is demanded, which one is drift
            if last.get("ret") != "err":
                ctx.violation("nav:%s:read-past-end-accepted%s" % (key, tagp), "read_entry at the end of the unit returned %s" % last, nav, no)
            elif last.get("err") != "UnexpectedEof":
                ctx.drift.append({"what": "error kind at end of unit", "got": last.get("err")})
        else:
            d = match(nav["exp"], last)
            if d:
                ctx.violation("nav:%s:%s%s" % (key, field_of(d), tagp),
                              "%s start=%s script %s on stream %s: last call differs at %s; expected %s got %s" %
                              (nav["api"], nav["start"], "".join(nav["script"]), case["sid"], d, nav["exp"], last), dict(nav, stream=case["sid"], info=case["info"], abbrev=case["abbrev"]), no)
        ctx.nontrivial("N" + repr((case["sid"], nav["api"], nav["start"], nav["script"])))

    def abbrev(self, case, o):
        ctx = self.ctx
        tagp = "" if self.prof == "dev" else ":" + self.prof
        if o is None or "outcome" in o:
            ctx.violation("abbrev:%s%s:%s" % ((o or {}).get("outcome"), tagp, (o or {}).get("loc", "")), "abbreviation parsing did not return normally", case, o)
            return
        if case["dup"]:
            if o.get("ok"):
                ctx.violation("abbrev:duplicate-accepted:pos%d%s" % (case["dup"], tagp),
                              "table with codes %s (duplicate at position %d) was accepted" % (case["codes"], case["dup"]), case, o)
            elif o.get("err") != "DuplicateAbbreviationCode":
                ctx.drift.append({"what": "duplicate code rejected with another error", "got": o.get("err")})
        else:
            exp = [e for e in case["exp"] if isinstance(e, dict)][0]
            if not o.get("ok"):
                ctx.violation("abbrev:rejected:%s%s" % (o.get("err"), tagp), "duplicate-free table with codes %s rejected" % case["codes"], case, o)
            elif as_set(exp["gets"]) != as_set(o["gets"]):
                bad = [g["code"] for g in o["gets"] if canon(g) not in set(as_set(exp["gets"]))]
                ctx.violation("abbrev:get:len%d%s" % (len(bad[0]) if bad else 0, tagp),
                              "codes %s: get() expected %s got %s" % (case["codes"], exp["gets"], o["gets"]), case, o)
        ctx.nontrivial("A" + repr(case["codes"]))


def split_cases(ctx, cases_path, batch=120000):
    """TLC prints stream definitions and navigation transitions separately (a
    stream always before its transitions); join them (plumbing only) into replay
    cases: every stream once with its header / raw / entry expectations,
    navigation transitions attached to a copy of their stream's bytes in bounded
    batches.  Expectations go to a parallel file (the harness never sees them)."""
    streams = {}
    out_path = os.path.join(ctx.work, "replay.ndjson")
    exp_path = os.path.join(ctx.work, "replay-exp.ndjson")
    n_nav = 0
    dumps = lambda v: json.dumps(v, separators=(",", ":"))
    with open(out_path, "w") as out, open(exp_path, "w") as eout:
        buf = {}
        cnt = 0

        def flush():
            for k, navs in buf.items():
                s = streams[k]
                out.write(dumps({"t": "stream", "navonly": True, "sid": s["sid"], "info": s["info"], "abbrev": s["abbrev"],
                                 "uidx": s["uidx"], "le": s["le"], "types": s["types"], "gets": [], "entries": [],
                                 "navs": [{"api": n["api"], "start": n["start"], "script": n["script"]} for n in navs]}) + "\n")
                eout.write(dumps([n["exp"] for n in navs]) + "\n")
            buf.clear()
        for c in read_ndjson(cases_path):
            if c["t"] == "nav":
                k = repr(c["sid"])
                if k not in streams:
                    raise ToolError("navigation case without its stream: %s" % k)
                buf.setdefault(k, []).append(c)
                cnt += 1
                n_nav += 1
                if cnt >= batch:
                    flush()
                    cnt = 0
            elif c["t"] == "stream":
                streams[repr(c["sid"])] = {k: c[k] for k in ("sid", "info", "abbrev", "uidx", "le", "types")}
                c["navs"] = []
                out.write(dumps(c) + "\n")
                eout.write("[]\n")
            elif c["t"] == "abbrev":
                out.write(dumps(c) + "\n")
                eout.write("[]\n")
        flush()
    return out_path, exp_path, len(streams), n_nav


def run(ctx):
    q = ctx.quick
    profiles = ["dev"] if q else ["dev", "release"]
    bins = {p: ctx.build("gvh-dies", p) for p in profiles}

    # ---- G
    with open(os.path.join(SPEC, "MCDies_run.cfg"), "w") as f:
        f.write(CFG % TIERS[ctx.tier])
    r = ctx.tlc("MCDies", "MCDies_run", timeout=900 if q else 7200)
    t0 = time.time()
    replay_path, exp_path, nstreams, nnav = split_cases(ctx, r.cases_path)
    os.remove(r.cases_path)
    log("[c02] %d streams, %d navigation transitions joined in %.1fs" % (nstreams, nnav, time.time() - t0))
    nsamp = 0
    for prof, b in bins.items():
        t0 = time.time()
        obs = ctx.replay(b, replay_path, tag="dies-" + prof, per_case_timeout=60)
        log("[c02] replay %s %.1fs" % (prof, time.time() - t0))
        ctx.cov["evaluations"] += nnav        # every navigation transition is one replayed script (grouped per stream above)
        t0 = time.time()
        ck = Checker(ctx, prof)
        for i, (case, exps) in enumerate(zip(read_ndjson(replay_path), read_ndjson(exp_path))):
            o = obs.get(i)
            for nav, e in zip(case.get("navs", []), exps):
                nav["exp"] = e
            if case["t"] == "abbrev":
                ck.abbrev(case, o)
            else:
                ck.stream(case, o)
                if nsamp < 3 and case.get("navonly") and o and o.get("navs"):
                    nsamp += 1
                    ctx.sample({"stream": case["sid"], "info": case["info"], "nav": case["navs"][0], "obs": o["navs"][0]})
        log("[c02] compare %s %.1fs" % (prof, time.time() - t0))
    ctx.cov["streams"] = nstreams
    ctx.cov["navigation_transitions"] = nnav

    # ---- V
    if q:
        args = ["--seed", ctx.seed, "--n", 6, "--steps", 120, "--max", 600, "--fixture", "/repo/fixtures/self", "--fixture-units", 4, "--fixture-max", 1500,
                "--corpus", CORPUS, "--corpus-steps", 60]
    else:
        args = ["--seed", ctx.seed, "--n", 40, "--steps", 300, "--max", 2000, "--fixture", "/repo/fixtures/self", "--fixture-units", 40, "--fixture-max", 6000,
                "--corpus", CORPUS, "--corpus-steps", 400]
    tr = ctx.record(bins["dev"], "dies-trace.ndjson", args)
    validate_units(ctx, tr)

    ctx.assumptions += [
        "64-bit target: `code as usize as u64 == code` in Abbreviations::insert always holds",
        "well-formed units only: DW_AT_sibling, when present, refers to the offset just past the entry's subtree (its next sibling, else the null / unit end that follows); "
        "every entry carries DW_AT_decl_line/data1 (+ optional DW_AT_sibling in forms ref1/2/4/8, padded ref_udata, ref_addr)",
        "EntriesCursor::offset()/depth() after next_entry reported the end of the unit are unspecified and not compared",
        "the state graph of each (stream, API, start) is explored completely (all call scripts up to state equivalence); each transition is replayed from one witness script",
        "for forests with >= RestrictN entries: no trailing padding and entries without children carry no DW_AT_sibling; each forest's state graph is explored under one of the FullCombos (rotating), its raw/entry/header/abbreviation checks under all Combos",
        "error kinds (DuplicateAbbreviationCode, UnexpectedEof) are drift, not violations",
        "V: units produced by gimli::write (never DW_TAG_base_type children, which the writer legitimately reorders), /repo/fixtures/self and the compiled corpus /verif/corpus (DWARF 2-5, 64-bit, type units, .dwo; not the .dwp packages); unit offsets < 2^31 are JSON numbers",
    ]
    ctx.finish("model_checking",
               rule="one case per abbreviation insertion sequence, per unit stream (header + raw reading + entry(offset) + lookups) and per transition "
                    "(stream, API, start entry, source state, call) of the cursor / tree / positioned-raw state graphs explored by TLC; all are non-trivial "
                    "(each has a specific expected observation); trace events are validated one by one by DiesTrace",
               exhaustive=True)


def validate_units(ctx, trace, module="DiesTrace", chunk=2500):
    """Validate the recorded events unit by unit (chunks end at Unit events).  On a
    rejected event report it and continue with the next unit."""
    lines = [l for l in open(trace) if l.strip()]
    starts = [i for i, l in enumerate(lines) if _is_unit(l)]
    if not starts or starts[0] != 0:
        raise ToolError("trace does not start with a Unit event")
    starts.append(len(lines))
    ui = 0
    rejected = 0
    while ui < len(starts) - 1:
        uj = ui + 1
        while uj < len(starts) - 1 and starts[uj + 1] - starts[ui] <= chunk:
            uj += 1
        part = lines[starts[ui]:starts[uj]]
        p = os.path.join(ctx.work, "chunk.ndjson")
        with open(p, "w") as f:
            f.writelines(part)
        ok, info = ctx.validate_trace(module, p)
        if ok:
            ctx.cov["traces_validated_against_impl"] += len(part)
            ui = uj
            continue
        um = info.get("unmatched")
        if not um:
            raise ToolError("trace validation failed without an unmatched event: %s" % info.get("error"))
        idx_s, js = um.split(", ", 1)
        idx = int(idx_s)
        ev = json.loads(json.loads(js))
        ctx.cov["traces_validated_against_impl"] += idx - 1
        full = json.loads(part[idx - 1])
        if ev.get("ev") == "Unit":
            sig = "trace:unit-hint:%s" % ev.get("src")
            what = "token stream reported by EntriesRaw for a %s unit (%s tokens) is inconsistent with the built forest / its own nulls / sibling references" % (ev.get("src"), ev.get("ntoks"))
            full = {"ev": "Unit", "src": full.get("src"), "ntoks": len(full.get("toks", []))}
        else:
            sig = "trace:%s:%s" % (ev.get("ev"), ev.get("op", ""))
            what = "call not explainable by the navigation machines: %s" % json.dumps(ev)[:500]
        ctx.violation(sig, what, full, None)
        rejected += 1
        if rejected >= 3:
            log("[c02] %d trace events rejected, remaining units are not validated" % rejected)
            break
        # continue with the unit after the one containing the rejected event
        gi = starts[ui] + idx - 1
        ui = max(k for k in range(len(starts) - 1) if starts[k] <= gi) + 1


def _is_unit(line):
    try:
        return json.loads(line).get("ev") == "Unit"
    except Exception:
        return False
