"""C01 helper: the directed "extreme operand" recipe family.

For every instruction / entry kind of every byte-code language gimli interprets (line
programs, call frame instructions, DWARF expressions, range and location list entries,
macro entries, abbreviation declarations and attribute forms) a small valid program is
emitted in which that one operand takes each extreme value (as canonical and as padded
ten-byte LEB128, or at its fixed width).  The programs run through the normal drivers of
gvh-robust (rows / sequences / evaluation / unwind table / list iteration / conversion)
in both build profiles.  No expectations live here: the oracle is C01's (RobustTrace).
"""

I64_MIN = -(1 << 63)
I64_MAX = (1 << 63) - 1
U64_MAX = (1 << 64) - 1


def uleb(v, pad=0):
    out = []
    while True:
        b = v & 0x7f
        v >>= 7
        if v == 0 and len(out) + 1 >= pad:
            out.append(b)
            return out
        out.append(b | 0x80)


def sleb(v, pad=0):
    out = []
    while True:
        b = v & 0x7f
        v >>= 7
        done = (v == 0 and not b & 0x40) or (v == -1 and b & 0x40)
        if done and len(out) + 1 >= pad:
            out.append(b)
            return out
        out.append(b | 0x80)


def u32(x):
    return [x & 0xff, (x >> 8) & 0xff, (x >> 16) & 0xff, (x >> 24) & 0xff]


def fixed(x, w):
    x &= (1 << (8 * w)) - 1
    return [(x >> (8 * i)) & 0xff for i in range(w)]


def leb_extremes():
    """Encodings of the extreme values, as SLEB and ULEB, canonical and padded to ten bytes."""
    out = []
    for v in (I64_MIN, I64_MIN + 1, -1, 0, 1, I64_MAX, -(1 << 31), -(1 << 32), (1 << 31), (1 << 32), -(1 << 62)):
        out.append(sleb(v))
        out.append(sleb(v, 10))
    for v in (U64_MAX, 1 << 63, (1 << 63) - 1, 1 << 32, (1 << 32) - 1, 1 << 31, 1 << 61, 1 << 62, 0x7f, 0x80, 0xffff, 0x10000):
        out.append(uleb(v))
        out.append(uleb(v, 10))
    out.append([0x80] * 10 + [0x00])          # eleven bytes: over-long
    out.append([0xff] * 10 + [0x7f])
    seen, res = set(), []
    for e in out:
        if tuple(e) not in seen:
            seen.add(tuple(e))
            res.append(e)
    return res


LEBS = leb_extremes()
SMALL_LEBS = [sleb(I64_MIN), sleb(I64_MIN, 10), sleb(-1), uleb(0), sleb(I64_MAX), uleb(U64_MAX), uleb(1 << 63), uleb(1 << 32), uleb(1 << 31), uleb(1 << 61)]


def fixed_extremes(w):
    top = 1 << (8 * w)
    vals = [0, 1, top - 1, top >> 1, (top >> 1) - 1, (top >> 1) + 1, top - 2]
    res, seen = [], set()
    for v in vals:
        e = tuple(fixed(v, w))
        if e not in seen:
            seen.add(e)
            res.append(list(e))
    return res


def operand_variants(kinds):
    """kinds: list of 'leb' | 1 | 2 | 4 | 8 (fixed width) | ('bytes', [...]) for each operand.
    Each operand in turn takes every extreme while the others stay small; finally all of
    them take a few extremes together."""
    def small(k):
        if k == "leb":
            return [1]
        if isinstance(k, tuple):
            return list(k[1])
        return fixed(1, k)

    def ext(k):
        if k == "leb":
            return LEBS
        if isinstance(k, tuple):
            return [list(k[1])]
        return fixed_extremes(k)
    out = []
    for i, k in enumerate(kinds):
        for e in ext(k):
            v = []
            for j, kj in enumerate(kinds):
                v += e if j == i else small(kj)
            out.append(v)
    if len(kinds) > 1:
        for n in range(6):
            v = []
            for k in kinds:
                es = SMALL_LEBS if k == "leb" else ext(k)
                v += es[n % len(es)]
            out.append(v)
    return out


# ------------------------------------------------------------------ containers
def line_header(min_inst=1, max_ops=1, line_base=0xfb, line_range=14, opcode_base=13, version=4):
    std = [0, 1, 1, 1, 1, 0, 0, 0, 1, 0, 0, 1][:max(0, opcode_base - 1)]
    std += [1] * max(0, opcode_base - 1 - len(std))
    after_hl = [min_inst] + ([max_ops] if version >= 4 else []) + [1, line_base, line_range, opcode_base] + std + [0] + [ord("a"), 0, 0, 0, 0] + [ord("b"), 0, 0, 0, 0] + [0]
    rest = [version, 0] + u32(len(after_hl)) + after_hl
    return u32(len(rest)) + rest, len(rest)


def debug_frame_cie(caf=(1,), daf=(0x78,), ra=(16,), instrs=(), version=1):
    body = u32(0xffffffff) + [version, 0] + ([8, 0] if version >= 4 else []) + list(caf) + list(daf) + list(ra) + list(instrs)
    return u32(len(body)) + body


def debug_frame_fde(instrs, cie_off=0):
    body = u32(cie_off) + [0, 0x10, 0, 0, 0, 0, 0, 0] + [0, 1, 0, 0, 0, 0, 0, 0] + list(instrs)
    return u32(len(body)) + body


def rec(ident, sections, only, tails=None, seed=60, **kw):
    r = {"sys": "robust", "base": "raw", "seed": seed, "id": "op:" + ident, "only": only, "sections": sections, "mut": [], "budget": 6000}
    if tails is not None:
        r["tails"] = tails
    r.update(kw)
    return r


# ---------------------------------------------------------------- line programs
def line_recipes():
    out = []
    only = ["lines", "convert_line"]
    set_addr = [0, 9, 2] + fixed(0x1000, 8)
    suffix = [1, 2, 4, 1, 0, 1, 1]            # copy; advance_pc 4; copy; end_sequence
    ops = [
        ("advance_pc", [2], ["leb"]), ("advance_line", [3], ["leb"]), ("set_file", [4], ["leb"]), ("set_column", [5], ["leb"]),
        ("set_isa", [12], ["leb"]), ("fixed_advance_pc", [9], [2]),
        ("ext_set_address", [0, 9, 2], [8]), ("ext_set_discriminator_len2", [0, 2, 4], [1]),
        ("ext_define_file", [0, 8, 3, ord("f"), 0], ["leb", "leb", "leb"]),
        ("ext_unknown_0x80", [0, 3, 0x80], [2]), ("ext_end_sequence_long", [0, 3, 1], [2]),
    ]
    for min_inst, tag in ((1, ""), (4, "-mil4")):
        hdr, hl = line_header(min_inst=min_inst)
        patch = [{"at": 0, "width": 4, "add": hl}]
        for name, op, kinds in ops:
            tails = []
            for v in operand_variants(kinds):
                tails.append(set_addr + [1] + op + v + suffix)                  # once, after a row
                tails.append(op + v + op + v + [0x21] + op + v + suffix)        # three times, no set_address
            out.append(rec("line:%s%s" % (name, tag), {"debug_line": hdr}, only, {"sec": "debug_line", "tails": tails, "patch": patch}))
        # the length of an extended opcode and a discriminator, as LEB extremes
        tails = []
        for e in LEBS:
            tails.append(set_addr + [1, 0] + e + [4, 1] + suffix)
            tails.append(set_addr + [1, 0] + uleb(1 + len(e)) + [4] + e + suffix)
            tails.append([0] + uleb(3 + 8 + len(e)) + [3, ord("f"), 0, 1] + e + [1] + suffix)
        out.append(rec("line:ext_len_and_discriminator%s" % tag, {"debug_line": hdr}, only, {"sec": "debug_line", "tails": tails, "patch": patch}))
        # every special opcode, after an extreme line / address / op_index state
        tails = []
        for sp in range(13, 256):
            tails.append(set_addr + [3] + sleb(I64_MIN) + [sp, sp] + suffix)
            tails.append([3] + sleb(I64_MAX) + [2] + uleb(U64_MAX) + [sp, 8, sp] + suffix)
        out.append(rec("line:special%s" % tag, {"debug_line": hdr}, only, {"sec": "debug_line", "tails": tails, "patch": patch}))
    # header parameters over all 256 values, with a program that uses special opcodes and advances
    prog = set_addr + [0x20, 0xff, 2, 0x85, 1, 3, 0x7b, 8, 9, 3, 0, 0xf0] + suffix
    for version in (2, 4):
        hdr, hl = line_header(version=version)
        sec = list(hdr)
        sec[0:4] = u32(hl + len(prog))
        base = 10
        names = ["min_inst_len"] + (["max_ops"] if version >= 4 else []) + ["default_is_stmt", "line_base", "line_range", "opcode_base"]
        for i, nm in enumerate(names):
            out.append(rec("line:header-v%d-%s" % (version, nm), {"debug_line": sec + prog}, only,
                           {"sec": "debug_line", "at": base + i, "tails": [[v] for v in range(256)]}))
    # a standard opcode the header declares with LEB arguments (opcode_base 20, opcode 15 with 3 arguments)
    hdr, hl = line_header(opcode_base=20)
    sec = list(hdr)
    sec[15 + 15] = 3
    tails = [set_addr + [1, 15] + v + suffix for v in operand_variants(["leb", "leb", "leb"])]
    out.append(rec("line:unknown-standard", {"debug_line": sec}, only, {"sec": "debug_line", "tails": tails, "patch": [{"at": 0, "width": 4, "add": hl}]}))
    return out


# ------------------------------------------------------------------------- CFI
CFA_OPS = [
    ("set_loc", 0x01, [8]), ("advance_loc1", 0x02, [1]), ("advance_loc2", 0x03, [2]), ("advance_loc4", 0x04, [4]),
    ("offset_extended", 0x05, ["leb", "leb"]), ("restore_extended", 0x06, ["leb"]), ("undefined", 0x07, ["leb"]),
    ("same_value", 0x08, ["leb"]), ("register", 0x09, ["leb", "leb"]), ("def_cfa", 0x0c, ["leb", "leb"]),
    ("def_cfa_register", 0x0d, ["leb"]), ("def_cfa_offset", 0x0e, ["leb"]),
    ("def_cfa_expression", 0x0f, ["leb"]), ("expression", 0x10, ["leb", "leb"]),
    ("offset_extended_sf", 0x11, ["leb", "leb"]), ("def_cfa_sf", 0x12, ["leb", "leb"]), ("def_cfa_offset_sf", 0x13, ["leb"]),
    ("val_offset", 0x14, ["leb", "leb"]), ("val_offset_sf", 0x15, ["leb", "leb"]), ("val_expression", 0x16, ["leb", "leb"]),
    ("gnu_args_size", 0x2e, ["leb"]), ("gnu_negative_offset_extended", 0x2f, ["leb", "leb"]),
    ("offset_r1", 0x81, ["leb"]), ("offset_r63", 0xbf, ["leb"]), ("mips_advance_loc8", 0x1d, [8]),
    ("aarch64_negate_ra_state", 0x2d, []), ("lo_user", 0x1c, ["leb"]), ("hi_user", 0x3f, ["leb"]),
]


def cfi_recipes():
    out = []
    only = ["debug_frame", "convert_frames"]
    suffix = [0x44, 0x0e, 16, 0x42, 0x0a, 0x0e, 8, 0x0b, 0]      # advance; def_cfa_offset; advance; remember; ...; restore
    cie = debug_frame_cie(instrs=[0x0c, 7, 8, 0x90, 1])
    fde = debug_frame_fde([])
    cie_only = debug_frame_cie()
    for name, opc, kinds in CFA_OPS:
        tails = []
        for v in operand_variants(kinds) or [[]]:
            tails.append([opc] + v + suffix)
            tails.append([0x41, opc] + v + [0x41, opc] + v + suffix)
        # in the FDE's instructions
        out.append(rec("cfa:fde:" + name, {"debug_frame": cie + fde}, only,
                       {"sec": "debug_frame", "tails": tails, "patch": [{"at": len(cie), "width": 4, "add": len(fde) - 4}]}))
        # in the CIE's initial instructions (no FDE) and with an FDE that restores
        out.append(rec("cfa:cie:" + name, {"debug_frame": cie_only}, only,
                       {"sec": "debug_frame", "tails": tails, "patch": [{"at": 0, "width": 4, "add": len(cie_only) - 4}]}))
    # extreme alignment factors / return address register in the CIE, used by an FDE with factored operands
    fde_ins = [0x44, 0x0e, 16, 0x85, 3, 0x11, 6, 0x7e, 0x12, 7, 0x70, 0x13, 0x78, 0x14, 5, 2, 0x15, 5, 0x7f, 0x04] + fixed(0xffffffff, 4) + [0xc5, 0]
    for version in (1, 3, 4):
        for e in LEBS:
            for which in range(3):
                f = [[1], [0x78], [16]]
                f[which] = e if not (which == 2 and version == 1) else [e[0] & 0x7f]
                c = debug_frame_cie(caf=f[0], daf=f[1], ra=f[2], instrs=[0x0c, 7, 8, 0x90, 1], version=version)
                out.append(rec("cfa:cie-field%d-v%d:%s" % (which, version, bytes(e).hex()), {"debug_frame": c + debug_frame_fde(fde_ins)}, only))
    # the same operand programs in .eh_frame (zR, absolute pointers)
    ecie_body = u32(0) + [1] + list(b"zR") + [0, 1, 0x78, 16, 1, 0x00, 0x0c, 7, 8, 0, 0, 0]
    ecie = u32(len(ecie_body)) + ecie_body
    efde_body = u32(len(ecie) + 4) + fixed(0x1000, 8) + fixed(0x100, 8) + [0]
    efde = u32(len(efde_body)) + efde_body
    for name, opc, kinds in CFA_OPS:
        tails = [[opc] + v + suffix for v in operand_variants(kinds) or [[]]]
        out.append(rec("cfa:eh:" + name, {"eh_frame": ecie + efde}, ["eh_frame", "convert_frames"],
                       {"sec": "eh_frame", "tails": tails, "patch": [{"at": len(ecie), "width": 4, "add": len(efde) - 4}]}))
    return out


# ------------------------------------------------------------------ expressions
OP_OPS = [
    ("addr", 0x03, [8]), ("const1u", 0x08, [1]), ("const1s", 0x09, [1]), ("const2u", 0x0a, [2]), ("const2s", 0x0b, [2]),
    ("const4u", 0x0c, [4]), ("const4s", 0x0d, [4]), ("const8u", 0x0e, [8]), ("const8s", 0x0f, [8]),
    ("constu", 0x10, ["leb"]), ("consts", 0x11, ["leb"]), ("pick", 0x15, [1]), ("plus_uconst", 0x23, ["leb"]),
    ("skip", 0x2f, [2]), ("bra", 0x28, [2]), ("breg0", 0x70, ["leb"]), ("breg31", 0x8f, ["leb"]), ("regx", 0x90, ["leb"]),
    ("fbreg", 0x91, ["leb"]), ("bregx", 0x92, ["leb", "leb"]), ("piece", 0x93, ["leb"]), ("deref_size", 0x94, [1]),
    ("xderef_size", 0x95, [1]), ("call2", 0x98, [2]), ("call4", 0x99, [4]), ("call_ref", 0x9a, [4]),
    ("bit_piece", 0x9d, ["leb", "leb"]), ("implicit_value", 0x9e, ["leb"]), ("implicit_pointer", 0xa0, [4, "leb"]),
    ("addrx", 0xa1, ["leb"]), ("constx", 0xa2, ["leb"]), ("entry_value", 0xa3, ["leb"]), ("const_type", 0xa4, ["leb", 1]),
    ("regval_type", 0xa5, ["leb", "leb"]), ("deref_type", 0xa6, [1, "leb"]), ("xderef_type", 0xa7, [1, "leb"]),
    ("convert", 0xa8, ["leb"]), ("reinterpret", 0xa9, ["leb"]), ("wasm_local", 0xed, [("bytes", [0]), "leb"]),
    ("wasm_global", 0xed, [("bytes", [1]), "leb"]), ("wasm_stack", 0xed, [("bytes", [2]), "leb"]), ("wasm_global_u32", 0xed, [("bytes", [3]), 4]),
    ("gnu_implicit_pointer", 0xf2, [4, "leb"]), ("gnu_entry_value", 0xf3, ["leb"]), ("gnu_const_type", 0xf4, ["leb", 1]),
    ("gnu_regval_type", 0xf5, ["leb", "leb"]), ("gnu_deref_type", 0xf6, [1, "leb"]), ("gnu_convert", 0xf7, ["leb"]),
    ("gnu_reinterpret", 0xf9, ["leb"]), ("gnu_parameter_ref", 0xfa, [4]), ("gnu_addr_index", 0xfb, ["leb"]), ("gnu_const_index", 0xfc, ["leb"]),
]
BINOPS = [0x1a, 0x1b, 0x1c, 0x1d, 0x1e, 0x21, 0x22, 0x24, 0x25, 0x26, 0x27, 0x29, 0x2a, 0x2b, 0x2c, 0x2d, 0x2e]
UNOPS = [0x19, 0x1f, 0x20, 0x06, 0x94, 0x12, 0x13]


def expr_recipes():
    out = []
    only = ["decoders"]
    for name, opc, kinds in OP_OPS:
        tails = []
        for v in operand_variants(kinds):
            tails.append([0x31, 0x32, opc] + v + [0x22, 0x9f])
            tails.append([opc] + v + [opc] + v + [0x22, 0x1c, 0x1e, 0x93, 4])
            tails.append([0x32, opc] + v + [0x31, 0x32, 0x33, 0x9f, 0x93] + v[:10] + [0, 0, 0, 0, 0, 0, 0, 0])
        out.append(rec("expr:" + name, {"expr": []}, only, {"sec": "expr", "tails": tails}))
    # arithmetic on extreme operands (constants of 8 bytes; the drivers evaluate with address sizes 8 and 4)
    consts = [fixed(v, 8) for v in (0, 1, U64_MAX, 1 << 63, (1 << 63) - 1, 1 << 32, (1 << 32) - 1, 1 << 31, 63, 64, 65)]
    tails = []
    for a in consts:
        for b in consts:
            for op in BINOPS:
                tails.append([0x0e] + a + [0x0e] + b + [op, 0x9f])
    out.append(rec("expr:binop-extremes", {"expr": []}, only, {"sec": "expr", "tails": tails}, budget=20000))
    tails = []
    for a in consts:
        for op in UNOPS:
            tails.append([0x0e] + a + [op] + ([8] if op == 0x94 else []) + [0x9f])
            tails.append([0x0e] + a + [0x23] + uleb(U64_MAX) + [op] + ([8] if op == 0x94 else []))
    out.append(rec("expr:unop-extremes", {"expr": []}, only, {"sec": "expr", "tails": tails}))
    # typed arithmetic: const_type of every size with extreme bytes, then a binary operation / convert
    tails = []
    for sz in (1, 2, 4, 8, 16, 0, 255):
        for fill in (0x00, 0xff, 0x80, 0x7f):
            blk = [fill] * min(sz, 16)
            for op in (0x1b, 0x1d, 0x1e, 0x24, 0x26, 0x1f, 0x19):
                tails.append([0xa4, 1, sz] + blk + [0xa4, 1, sz] + blk + [op, 0xa8, 0, 0x9f])
    out.append(rec("expr:typed-extremes", {"expr": []}, only, {"sec": "expr", "tails": tails}, budget=20000))
    return out


# ----------------------------------------------------------- range / location lists
def list_recipes():
    out = []
    only = ["lists"]
    addr = u32(8 + 8 * 4) + [5, 0, 8, 0] + fixed(0x1000, 8) + fixed(U64_MAX, 8) + fixed(1 << 63, 8) + fixed(0, 8)
    rle = [("base_addressx", 1, ["leb"]), ("startx_endx", 2, ["leb", "leb"]), ("startx_length", 3, ["leb", "leb"]),
           ("offset_pair", 4, ["leb", "leb"]), ("base_address", 5, [8]), ("start_end", 6, [8, 8]), ("start_length", 7, [8, "leb"]),
           ("unknown", 8, ["leb"])]
    for name, code, kinds in rle:
        rt, lt = [], []
        for v in operand_variants(kinds):
            rt.append([5] + fixed(0x1000, 8) + [code] + v + [4, 1, 2, 0])
            rt.append([code] + v + [code] + v + [0])
            expr = [1, 0x50]                                   # counted location description: one byte
            lt.append([6] + fixed(U64_MAX - 1, 8) + [code] + v + (expr if code in (2, 3, 4, 6, 7) else []) + [4, 1, 2] + expr + [0])
            lt.append([code] + v + (expr if code in (2, 3, 4, 6, 7) else []) + [0])
        for seed in (61, 62, 63):
            out.append(rec("rle:%s:s%d" % (name, seed), {"debug_rnglists": [], "debug_addr": addr}, only, {"sec": "debug_rnglists", "tails": rt}, seed=seed))
            out.append(rec("lle:%s:s%d" % (name, seed), {"debug_loclists": [], "debug_addr": addr}, only, {"sec": "debug_loclists", "tails": lt}, seed=seed))
    # location description lengths and the default location entry
    lt = []
    for e in LEBS:
        lt.append([5] + e + [0x50, 0])
        lt.append([4, 1, 2] + e + [0x50, 0x50, 0])
        lt.append([8] + fixed(0x1000, 8) + uleb(4) + e + [0x50, 0])
    for seed in (61, 62):
        out.append(rec("lle:expr-length:s%d" % seed, {"debug_loclists": [], "debug_addr": addr}, only, {"sec": "debug_loclists", "tails": lt}, seed=seed))
    # pre-DWARF 5 lists: address pairs (8, 4, 2 and 1 byte wide readings of the same bytes), base selection, lengths
    ext8 = [fixed(v, 8) for v in (0, 1, U64_MAX, U64_MAX - 1, 1 << 63, (1 << 63) - 1, (1 << 32) - 1, 1 << 32, 0xfffffffe)]
    rt, lt = [], []
    for a in ext8:
        for b in ext8:
            rt.append(fixed(U64_MAX, 8) + a + a + b + fixed(0x10, 8) + fixed(0x20, 8) + [0] * 16)
            rt.append(a + b + b + a + [0] * 16)
            for ln in ([1, 0], [0xff, 0xff], [0, 0], [0, 0x80]):
                lt.append(fixed(U64_MAX, 8) + b + a + b + ln + [0x50] + fixed(0x10, 8) + fixed(0x20, 8) + [1, 0, 0x50] + [0] * 16)
    for seed in (61, 62, 63):
        out.append(rec("ranges:pairs:s%d" % seed, {"debug_ranges": []}, only, {"sec": "debug_ranges", "tails": rt}, seed=seed))
        out.append(rec("loc:pairs:s%d" % seed, {"debug_loc": []}, only, {"sec": "debug_loc", "tails": lt}, seed=seed, budget=20000))
    return out


# -------------------------------------------------------------------- macros
def macro_recipes():
    out = []
    only = ["macros"]
    s = [ord("M"), 0]
    ents = [("define", 1, ["leb", ("bytes", s)]), ("undef", 2, ["leb", ("bytes", s)]), ("start_file", 3, ["leb", "leb"]),
            ("define_strp", 5, ["leb", 4]), ("undef_strp", 6, ["leb", 4]), ("import", 7, [4]),
            ("define_sup", 8, ["leb", 4]), ("undef_sup", 9, ["leb", 4]), ("import_sup", 10, [4]),
            ("define_strx", 11, ["leb", "leb"]), ("undef_strx", 12, ["leb", "leb"]), ("vendor_ext", 255, ["leb", ("bytes", s)]),
            ("unknown_0x40", 0x40, ["leb"])]
    for name, code, kinds in ents:
        tails = []
        for v in operand_variants(kinds):
            tails.append([code] + v + [3, 1, 1, 4, 0])
            tails.append([code] + v + [code] + v + [0])
        out.append(rec("macro:" + name, {"debug_macro": [5, 0, 0], "debug_str": s * 4}, only, {"sec": "debug_macro", "tails": tails}))
        out.append(rec("macro64:" + name, {"debug_macro": [4, 0, 1], "debug_str": s * 4}, only, {"sec": "debug_macro", "tails": tails}))
        out.append(rec("macinfo:" + name, {"debug_macinfo": []}, only, {"sec": "debug_macinfo", "tails": tails}))
    # header: flags with a line offset and an opcode-operands table whose counts / forms are extreme
    tails = []
    for fl in (2, 3, 4, 6, 7, 0xff):
        for e in SMALL_LEBS:
            tails.append([5, 0, fl] + fixed(0, 8 if fl & 1 else 4) + [2, 0xe0] + e + [0x0f, 0xe1, 1, 0x0d] + [1, 1] + s + [0])
            tails.append([5, 0, fl] + [1, 0xe0, 2, 0x0f] + e + [0])
    out.append(rec("macro:header", {"debug_macro": []}, only, {"sec": "debug_macro", "tails": tails}))
    return out


# ------------------------------------------------- abbreviations and attribute forms
FORMS = [("udata", 0x0f, ["leb"]), ("sdata", 0x0d, ["leb"]), ("ref_udata", 0x15, ["leb"]), ("block", 0x09, ["leb"]),
         ("exprloc", 0x18, ["leb"]), ("strx", 0x1a, ["leb"]), ("addrx", 0x1b, ["leb"]), ("loclistx", 0x22, ["leb"]),
         ("rnglistx", 0x23, ["leb"]), ("indirect", 0x16, ["leb", "leb"]), ("gnu_addr_index", 0x1f01, ["leb"]),
         ("gnu_str_index", 0x1f02, ["leb"]), ("block1", 0x0a, [1]), ("block2", 0x0b, [2]), ("block4", 0x03, [4]),
         ("data8", 0x07, [8]), ("ref8", 0x14, [8]), ("ref_addr", 0x10, [4]), ("sec_offset", 0x17, [4]), ("strp", 0x0e, [4]),
         ("ref_sig8", 0x20, [8]), ("data16", 0x1e, [8, 8]), ("strx4", 0x28, [4]), ("addrx4", 0x2c, [4]), ("ref4", 0x13, [4])]
ATTRS = [("high_pc", 0x12), ("location", 0x02), ("ranges", 0x55), ("stmt_list", 0x10), ("name", 0x03), ("sibling", 0x01),
         ("str_offsets_base", 0x72), ("addr_base", 0x73), ("rnglists_base", 0x74), ("loclists_base", 0x8c), ("macros", 0x79),
         ("frame_base", 0x40), ("data_member_location", 0x38), ("start_scope", 0x2c)]


def form_recipes(quick):
    out = []
    only = ["units", "unit", "convert", "convert_steps"]
    attrs = ATTRS[:6] if quick else ATTRS
    for version in (5, 4):
        for fname, form, kinds in FORMS:
            for aname, at in attrs:
                abbrev = [1, 0x11, 1] + [0x11, 0x01] + uleb(at) + uleb(form) + [0x13, 0x0b] + [0, 0] + [2, 0x34, 0, 0x03, 0x08, 0, 0] + [0]
                if version == 5:
                    hdr = [5, 0, 1, 8] + u32(0)
                else:
                    hdr = [4, 0] + u32(0) + [8]
                prefix = hdr + [1] + fixed(0x1000, 8)
                tails = []
                for v in operand_variants(kinds):
                    tails.append(v + [0x0c, 2, ord("v"), 0, 0] + [0] * 4)
                info = u32(len(prefix)) + prefix
                out.append(rec("form:v%d:%s:%s" % (version, fname, aname),
                               {"debug_abbrev": abbrev, "debug_info": info, "debug_str": [ord("s"), 0] * 8, "debug_addr": [0] * 64,
                                "debug_str_offsets": [0] * 64, "debug_rnglists": [0] * 64, "debug_loclists": [0] * 64, "debug_ranges": [0] * 64,
                                "debug_loc": [0] * 64, "debug_line": line_header()[0]},
                               only, {"sec": "debug_info", "tails": tails, "patch": [{"at": 0, "width": 4, "add": len(prefix)}]}))
    # abbreviation declarations: code, tag, attribute name, form and implicit_const value as LEB extremes
    info = [5, 0, 1, 8] + u32(0) + [1, 7, 2, 7, 0]
    info = u32(len(info)) + info
    tails = []
    for e in LEBS:
        tails.append(e + [0x11, 1, 0x03, 0x0b, 0, 0, 0])                       # code
        tails.append([1] + e + [1, 0x03, 0x0b, 0, 0, 0])                       # tag
        tails.append([1, 0x11, 1] + e + [0x0b, 0, 0, 0])                       # attribute name
        tails.append([1, 0x11, 1, 0x03] + e + [0, 0, 0])                       # form
        tails.append([1, 0x11, 1, 0x03, 0x21] + e + [0, 0, 2, 0x2e, 0, 0x03, 0x21] + e + [0, 0, 0])   # implicit_const
        tails.append([1, 0x11, 1, 0x03, 0x0b, 0, 0] + e + [0x2e, 0, 0x03, 0x0b, 0, 0, 0])           # second code
    out.append(rec("abbrev:declaration", {"debug_info": info, "debug_abbrev": []}, only + ["abbrev"], {"sec": "debug_abbrev", "tails": tails}))
    # the abbreviation code of a DIE, and the unit header's LEB-free fields are covered by `extreme` mutations;
    # here: DIE codes as LEB extremes
    abbrev = [1, 0x11, 1, 0x03, 0x0b, 0, 0, 2, 0x2e, 0, 0x03, 0x0b, 0, 0, 0]
    prefix = [5, 0, 1, 8] + u32(0) + [1, 7]
    tails = [e + [7, 2, 7, 0, 0] for e in LEBS]
    out.append(rec("abbrev:die-code", {"debug_abbrev": abbrev, "debug_info": u32(len(prefix)) + prefix}, only,
                   {"sec": "debug_info", "tails": tails, "patch": [{"at": 0, "width": 4, "add": len(prefix)}]}))
    return out


def recipes(quick):
    return line_recipes() + cfi_recipes() + expr_recipes() + list_recipes() + macro_recipes() + form_recipes(quick)
