"""C15 — written expressions decode to the same operations, branches and references.

Deciding specs: ExprWriter.tla (builder machine: meaning of each op_* call in the
vocabulary of the reader-side decoding spec OpCodec.tla; emission as coded) and
Expr.tla (evaluation).
 G: MCExprWriter enumerates every builder call sequence up to MaxLen over three
    alphabet slices x encodings x contexts (DIE attribute, location list, CFI); the
    theorem Decode(Emit(calls)) = Mean(calls) /\ Size = Len(Emit) is checked inside
    TLC on the specification's emission; every sequence is replayed on the real
    writer, the output is read back and the decoded operations (entry references
    resolved to entry names, branch targets to operation indices), the order of the
    entries following the expression and, for reference-free programs, the
    evaluation result are compared with the specification.
 V: random sequences of 3-40 calls are written inside a unit; ExprWriterTrace
    decodes the recorded bytes with OpCodec and must find Mean(calls).
"""
import json, os
from vlib import read_ndjson, canon, ToolError, SPEC
import c09


def tlaset(xs):
    return "{" + ", ".join('"%s"' % x if isinstance(x, str) else str(x) for x in xs) + "}"


def slices(q):
    if q:
        return [("core", 2, ["attr"], [444, 885, 842]), ("core", 1, ["loclist", "cfi"], [445, 884]),
                ("refs", 2, ["attr"], [444, 885, 482, 843]), ("refs", 1, ["loclist", "cfi"], [445, 884]),
                ("arith", 3, ["attr"], [444, 885]), ("far", 3, ["attr", "loclist"], [444, 885])]
    return [("core", 2, ["attr", "loclist", "cfi"], [444, 885, 842, 483, 845]),
            ("refs", 2, ["attr", "loclist", "cfi"], [444, 885, 482, 843, 845]),
            ("arith", 4, ["attr"], [444, 885]), ("far", 3, ["attr", "loclist"], [444, 885])]


def sig_of(case):
    return "+".join(sorted(set(k["c"] for k in case["calls"])))[:70]


def strip_ops(ops):
    return ops


def run(ctx):
    q = ctx.quick
    profiles = ["dev"] if q else ["dev", "release"]
    bins = {p: ctx.build("gvh-exprw", p) for p in profiles}
    n = 0
    for (sl, maxlen, ctxs, encs) in slices(q):
        n += 1
        cfg = "MCExprWriter_%s%d_run" % (sl, n)
        with open(os.path.join(SPEC, cfg + ".cfg"), "w") as f:
            f.write("INIT Init\nNEXT Next\nINVARIANT Theorem\nINVARIANT Emit\nCHECK_DEADLOCK FALSE\nCONSTANTS\n")
            f.write('  MaxLen = %d\n  Slice = "%s"\n  Ctxs = %s\n  Encs = %s\n' % (maxlen, sl, tlaset(ctxs), tlaset(encs)))
        r = ctx.tlc("MCExprWriter", cfg, timeout=900 if q else 3600)
        for prof, b in bins.items():
            obs = ctx.replay(b, r.cases_path, tag="exprw-%s-%s" % (cfg, prof))
            for i, case in enumerate(read_ndjson(r.cases_path)):
                compare(ctx, case, obs.get(i), prof)
                if prof == "dev" and i in (3, 400) and sl != "far":
                    ctx.sample({"case": case, "obs": obs.get(i)})

    # V
    tr = ctx.record(bins["dev"], "exprw-trace.ndjson", ["--seed", ctx.seed, "--n", 150 if q else 2500])
    c09.validate_chunks(ctx, tr, module="ExprWriterTrace", chunk=400, sigprefix="trace")
    ctx.assumptions += [
        "entry references are checked through identity names of 5 target entries (base type, earlier/later sibling, entries of an earlier/later unit)",
        "a unit-relative reference to an entry emitted after the referring one may be refused or encoded correctly",
        "evaluation equivalence is checked for reference-free programs (arith slice) with the evaluator specification Expr.tla",
    ]
    ctx.finish("model_checking",
               rule="one case per builder call sequence x encoding x context explored by TLC; non-trivial = sequence of >= 2 calls that must be encodable",
               exhaustive=True)


def compare(ctx, case, o, prof):
    exp = case["exp"]
    tag = sig_of(case)
    if o is None or "outcome" in o:
        if o and o.get("outcome") == "panic" and exp["mustfail"] is False and "set_target" not in str(o.get("msg")):
            pass
        ctx.violation("exprw:%s:%s" % ((o or {}).get("outcome"), (o or {}).get("loc", "")),
                      "writer/reader did not return normally for calls %s ctx=%s: %s" % (case["calls"], case["ctx"], o), case, o)
        return
    if not o.get("ok"):
        if not (exp["mustfail"] or exp["mayfail"]):
            ctx.violation("exprw:refused:%s:%s" % (case["ctx"], tag),
                          "encodable expression refused (%s): calls=%s enc=%s" % (o.get("err"), case["calls"], [case["asz"], case["fmt"], case["ver"]]), case, o)
        return
    if exp["mustfail"]:
        ctx.violation("exprw:accepted-unencodable:%s:%s" % (case["ctx"], tag),
                      "unencodable expression accepted: calls=%s got %s" % (case["calls"], str(o)[:300]), case, o)
        return
    if "readback" in o:
        ctx.violation("exprw:readback:%s:%s" % (case["ctx"], tag), "output could not be read back: %s calls=%s" % (o, case["calls"]), case, o)
        return
    want = exp["ops"]
    got = o["ops"]
    if case["ctx"] == "cfi":
        # no unit: references cannot occur (mustfail) and names are not resolved
        pass
    if canon(got) != canon(want):
        ctx.violation("exprw:ops:%s:%s" % (case["ctx"], tag),
                      "decoded operations differ: calls=%s enc=%s got=%s want=%s bytes=%s" %
                      (case["calls"], [case["asz"], case["fmt"], case["ver"]], got, want, o.get("bytes")), case, o)
        return
    if case["ctx"] != "cfi":
        order = o.get("order")
        if order != [["X1"], ["B1", "T1", "R", "T2"], ["X2"]]:
            ctx.violation("exprw:order:%s" % tag, "entries after the expression garbled (size prediction?): %s" % order, case, o)
        if case["ctx"] == "attr" and o.get("decl_line") != 77:
            ctx.violation("exprw:following-attr:%s" % tag, "attribute following the expression reads %s, expected 77" % o.get("decl_line"), case, o)
    else:
        after = [a for a in (o.get("after") or []) if a not in ("AdvanceLoc", "Nop")]
        if after != ["DefCfaOffset"]:
            ctx.violation("exprw:cfi-after:%s" % tag, "instructions after the CFA expression: %s" % o.get("after"), case, o)
    ev = exp["eval"]
    if ev["o"] not in ("skipped", "opaque"):
        g = o.get("eval", {})
        if ev["o"] != g.get("o") or (ev["o"] == "complete" and (ev["pieces"] != g.get("pieces") or ev["value"] != g.get("value"))):
            ctx.violation("exprw:eval:%s" % tag, "evaluating the emitted bytes gives %s, the operations as built give %s (calls=%s)" %
                          (g, ev, case["calls"]), case, o)
    if prof == "dev" and len(case["calls"]) >= 2 and not exp["mayfail"]:
        ctx.nontrivial(canon([case["calls"], case["ctx"], case["asz"], case["fmt"], case["ver"]]))
