"""x_macros — extension beyond the listed properties (NOT registered in MANIFEST):
.debug_macinfo / .debug_macro iteration (src/read/macros.rs) equals the entries encoded.

Deciding spec: Macros.tla (encoder, MacroIter::next as coded, meaning of an entry list).
 G: MCMacros enumerates every entry list up to MaxEntries over a 17-entry menu x 6 unit
    kinds x terminator present/absent, checks decoder-as-coded = meaning inside TLC and
    emits one replay case per (state, kind, terminator) plus every truncation of the
    single-entry units; gvh-macros replays them on gimli.
Run:  ./check X_MACROS --tier quick     (evidence/X_MACROS.json)
"""
import json
from vlib import read_ndjson, canon
from c17 import mismatch, err_drift, abnormal, write_cfg, is_err


def run(ctx):
    q = ctx.quick
    profiles = ["dev"] if q else ["dev", "release"]
    bins = {p: ctx.build("gvh-macros", p) for p in profiles}
    res = ctx.tlc("MCMacros", write_cfg("MCMacros_run", {"MaxEntries": 2 if q else 3}), workers=min(4, ctx.workers), timeout=6000)
    for prof, b in bins.items():
        obs = ctx.replay(b, res.cases_path, tag="macros-" + prof)
        for i, case in enumerate(read_ndjson(res.cases_path)):
            o = obs.get(i)
            if abnormal(ctx, o, "macros", case):
                continue
            m = mismatch(case["exp"], o, "macros")
            if m:
                kind = "macro" if case["macro"] else "macinfo"
                ctx.violation("macros:%s:%s:%s" % (kind, case["tag"], m.replace("[]", "")),
                              "%s bytes %s: gimli yields %s, spec %s" % (kind, case["bytes"], json.dumps(o)[:400], json.dumps(case["exp"])[:400]), case, o)
            else:
                err_drift(ctx, case["exp"], o, "macros")
            if o.get("after_end") not in (None, "none"):
                # iterator-protocol matter (C01 Fused), not part of "the entries yielded equal the entries encoded"
                ctx.drift.append({"where": "macros.after_end", "gimli": o.get("after_end"),
                                  "note": "MacroIter::next called again after Ok(None)"})
            if not is_err(case["exp"]) and len(case["exp"]["items"]) > 0:
                ctx.nontrivial(canon([case["macro"], case["bytes"]]))
            if i % 501 == 7:
                ctx.sample({"case": case, "obs": o})
    ctx.assumptions += [
        "iteration is observed up to the first end or error (what MacroIter does after an error is a C01 / iterator-protocol matter)",
        "error kinds are compared as drift only",
        "MacroString::string resolution through a UnitRef is not exercised",
    ]
    ctx.finish("model_checking",
               rule="one case per (entry list, unit kind, terminator) explored by TLC plus truncations of single-entry units; "
                    "non-trivial = at least one entry or error is expected",
               exhaustive=True)
