"""C20 — reused contexts, buffers, iterators and caches behave like fresh ones.

Deciding specs:
  MCCfiHistory.tla (over CfiExec.tla): histories of uses of ONE UnwindContext per
      storage over a pool of CIE/FDE pairs (succeeding with 0/1/many initial rules,
      failing in the CIE, failing mid-FDE, overflowing rows / rules, leaving
      remembered rows / expression CFA / args size behind), driven to completion
      (`rows`) or abandoned at the first matching row (`unwind_info_for_address`);
      TLC checks reused = fresh for every use.
  MCReuse.tla (over Reuse.tla): entry buffers reused across entries of differing
      attribute counts and across errors, cursor clones at every position,
      EntriesTree::root after every partial traversal, AbbreviationsCache strategies
      {none, Duplicates, All} x units sharing / not sharing (valid and invalid)
      abbreviation offsets; ONE cache taken through [set,] populate(section X),
      populate(section Y != X with different tables at the same offsets) and then
      asked for every unit and probe offset: get = direct parse of the current section.
  MCDies.tla / Dies.tla (C02's, reused unedited): EntriesTree scripts over forests with
      DW_AT_sibling in which an inner children() iterator is abandoned and the outer one
      continued; expectation = forest semantics = a new tree at that node.
  MCLineHist.tla (over LineSM.tla): ONE LineRows iterator over histories of <= 3 / 4
      sequences (normal, tombstoned from the start, tombstoned mid-way, empty, open);
      every sequence on the long-lived iterator = a fresh iterator (TLC), rows(),
      sequences() and resume_from() = the as-coded LineSM rows (replay).
 G: every state prints a case with the history-independent expectation; gvh-cfiexec /
    gvh-reuse perform the uses on reused and on fresh state.
 V: gvh-cfiexec records 10^2..10^3 random programs on four long-lived contexts;
    CfiExecTrace carries the model context from use to use (only `reset()` inside
    initialize) and validates every next_row.
"""
import json, os
from vlib import read_ndjson, canon, ToolError, SPEC
import c06

FIXED = c06.FIXED


def write_cfg(name, consts):
    with open(os.path.join(SPEC, name + ".cfg"), "w") as f:
        f.write("INIT Init\nNEXT Next\nINVARIANT Inv\nCHECK_DEADLOCK FALSE\nCONSTANTS\n")
        for k, v in consts.items():
            f.write("  %s = %s\n" % (k, v))
    return name


def same_use(exp, got):
    """one use of a context: rows+fin or fin(+row).  Returns 'ok' | 'drift' | reason"""
    if canon(exp) == canon(got):
        return "ok"
    ef, gf = exp.get("fin"), got.get("fin")
    rest_e = {k: v for k, v in exp.items() if k != "fin"}
    rest_g = {k: v for k, v in got.items() if k != "fin"}
    if canon(rest_e) == canon(rest_g) and ef not in ("end", "row") and gf not in ("end", "row") \
            and ef not in FIXED and gf not in FIXED and not str(gf).startswith(("parse:", "row-after", "err-after")):
        return "drift"
    if canon(rest_e) != canon(rest_g):
        return "rows"
    return "fin:%s->%s" % (ef, gf)


def check_histories(ctx, cases_path, obs, profile):
    for i, case in enumerate(read_ndjson(cases_path)):
        o = obs.get(i)
        if o is None or "outcome" in o:
            ctx.violation("hist:%s:%s" % ((o or {}).get("outcome"), (o or {}).get("loc", "")),
                          "history did not return normally: %s" % json.dumps(o)[:300], case, o)
            continue
        good = True
        for s in case["storages"]:
            for k in range(len(case["history"])):
                e = case["exp"][k][s]
                for kind in ("reused", "fresh"):
                    g = o[s][kind][k]
                    v = same_use(e, g)
                    if v == "ok":
                        continue
                    if v == "drift":
                        ctx.drift.append({"history": case["pick"], "step": k, "storage": s, "expected": e.get("fin"), "observed": g.get("fin")})
                        continue
                    good = False
                    # a difference on the fresh context is not a reuse problem: it belongs to C06
                    sig = "hist:%s:%s:pool%s:%s:%s" % (kind, s, case["pick"][k], case["via"][k].split(":")[0], v)
                    ctx.violation(sig, "history %s (via %s), use %d on the %s %s context: allowed %s, observed %s" %
                                  (case["pick"], case["via"], k, kind, s, json.dumps(e)[:500], json.dumps(g)[:500]), case, o)
        ctx.nontrivial("h" + canon([case["pick"], case["via"]]))
        if good and i in (3, 150):
            ctx.sample({"profile": profile, "history": case["pick"], "via": case["via"], "exp_last": case["exp"][-1]["heap"],
                        "obs_last_reused": o["heap"]["reused"][-1]})


def table_same(e, g):
    if e.get("ok") is False:
        return g.get("ok") is False          # which error is not fixed by the property
    return canon(e) == canon(g)


def check_cache(ctx, case, o):
    ok = True
    lists = [("units", case["units"], o.get("units")), ("direct_units", case["units"], o.get("direct_units")),
             ("gets", case["gets"], o.get("gets")), ("gets2", case["gets"], o.get("gets2")), ("direct", case["gets"], o.get("direct"))]
    for name, exp, got in lists:
        if got is None or len(got) != len(exp):
            ctx.violation("cache:%s:%s:count" % (case["strat"], name), "strategy %s: %s has %s results, expected %d (%s)" %
                          (case["strat"], name, None if got is None else len(got), len(exp), json.dumps(got)[:300]), case, o)
            ok = False
            continue
        for j, (e, g) in enumerate(zip(exp, got)):
            if not table_same(e, g):
                which = "unit%d" % j if "units" in name else "offset%d" % case["probe"][j]
                ctx.violation("cache:%s:%s:%s" % (case["strat"], name, "err" if not e.get("ok") else "table"),
                              "strategy %s: %s %s: direct parse gives %s, observed %s" %
                              (case["strat"], name, which, json.dumps(e)[:400], json.dumps(g)[:400]), case, o)
                ok = False
            elif e.get("ok") is False and e.get("err") != g.get("err"):
                ctx.drift.append({"cache": name, "expected_error": e.get("err"), "observed_error": g.get("err")})
    return ok


def check_repop(ctx, case, o):
    """one cache populated for one .debug_abbrev, then for another: every get must be the
    direct parse of the CURRENT section"""
    ok = True
    hist = "+".join(("set@%s" % st["at"]) if st["op"] == "set" else "%s(%s)" % (st["strat"], st["sec"]) for st in case["steps"])
    lists = [("units", case["units"], o.get("units")), ("bare_units", case["units"], o.get("bare_units")),
             ("gets", case["gets"], o.get("gets")), ("bare_gets", case["gets"], o.get("bare_gets")),
             ("direct", case["gets"], o.get("direct"))]
    for name, exp, got in lists:
        if got is None or len(got) != len(exp):
            ctx.violation("repop:%s:count" % name, "history %s: %s has %s results, expected %d" %
                          (hist, name, None if got is None else len(got), len(exp)), case, o)
            ok = False
            continue
        for j, (e, g) in enumerate(zip(exp, got)):
            if not table_same(e, g):
                kind = ("stale-table" if g.get("ok") else "stale-error") if name != "direct" else "direct"
                ctx.violation("repop:%s:%s:%s" % (name, case["steps"][-1]["strat"], kind),
                              "cache history %s, then get #%d of %s against section %s: direct parse gives %s, observed %s" %
                              (hist, j, name, case["cur"], json.dumps(e)[:300], json.dumps(g)[:300]), case, o)
                ok = False
    return ok


def check_linehist(ctx, case, o):
    """one LineRows iterator over several sequences: (b) its rows = LineSM rows, (a) every sequence
    reported by sequences() and resumed on a fresh iterator gives the rows the continuous iterator
    gave for it, and sequences() count / ranges match"""
    exp = case["exp"]
    hist = "h%s:%s" % (case["hdr"], "-".join(str(k) for k in case["pick"]))
    if "rows" not in o or not isinstance(o.get("seqs"), dict):
        ctx.violation("line:setup", "unit did not parse: %s" % json.dumps(o)[:300], case, o)
        return False
    ok = True

    def seq_of_row(idx):            # which template of the history a row index of the continuous run belongs to
        acc = 0
        for j, rows in enumerate(exp["perseq"]):
            acc += len(rows)
            if idx < acc:
                return j
        return len(exp["perseq"]) - 1
    if o["rows"] != exp["rows"] or o["end"] != exp["end"]:
        k = next((i for i, (a, b) in enumerate(zip(exp["rows"], o["rows"])) if a != b), min(len(exp["rows"]), len(o["rows"])))
        j = seq_of_row(k) if exp["rows"] else 0
        extra = "extra-row" if len(o["rows"]) > len(exp["rows"]) else ("missing-row" if len(o["rows"]) < len(exp["rows"]) else "row")
        ctx.violation("line:continuous:%s:template%s-after-%s" % (extra, case["pick"][j], case["pick"][j - 1] if j > 0 else "start"),
                      "history %s: the long-lived iterator yields %s (%s) but a fresh iterator per sequence yields %s; first difference at row %d, "
                      "in sequence #%d of the history" % (hist, json.dumps(o["rows"]), o["end"], json.dumps(exp["rows"]), k, j), case, o)
        ok = False
    got = o["seqs"]
    if not got.get("ok"):
        ctx.violation("line:sequences:err", "history %s: sequences() failed: %s" % (hist, got.get("err")), case, o)
        return False
    gl, el = got["list"], exp["seqs"]
    if len(gl) != len(el):
        ctx.violation("line:sequences:count", "history %s: sequences() reports %d sequences %s, expected %d %s" %
                      (hist, len(gl), json.dumps([[g["start"], g["end"]] for g in gl]), len(el),
                       json.dumps([[e["start"], e["end"]] for e in el])), case, o)
        return False
    for j, (e, g) in enumerate(zip(el, gl)):
        if g["rend"] != "done" or g["rows"] != e["rows"]:
            ctx.violation("line:resumed:rows", "history %s: sequence %d resumed on a fresh iterator yields %s (%s), expected %s" %
                          (hist, j, json.dumps(g["rows"]), g["rend"], json.dumps(e["rows"])), case, o)
            ok = False
        elif g["end"] != e["end"] or g["start"] != e["start"]:
            ctx.violation("line:sequences:range", "history %s: sequence %d range %s..%s, expected %s..%s" %
                          (hist, j, g["start"], g["end"], e["start"], e["end"]), case, o)
            ok = False
    # resumed rows, concatenated, are the continuous rows up to the last end_sequence row
    last = max([k for k, r in enumerate(o["rows"]) if (r[5] >> 2) & 1], default=-1)
    cat = [r for g in gl for r in g["rows"]]
    if ok and cat != o["rows"][:last + 1]:
        ctx.violation("line:resumed:concat", "history %s: resumed sequences %s do not add up to the continuous rows %s" %
                      (hist, json.dumps(cat), json.dumps(o["rows"])), case, o)
        ok = False
    return ok


class _TreeCtx:
    """C02's Checker reports through a ctx; prefix its signatures for C20's tree-history part"""
    def __init__(self, ctx):
        self.ctx = ctx
        self.drift = ctx.drift

    def violation(self, sig, what, case=None, obs=None, extra=None):
        self.ctx.violation("treehist:" + sig, "EntriesTree iterator continued after an abandoned inner children() iterator "
                           "(R=root, D=children() of the current node, N=next(), A=drop the inner iterator and go on with the outer): " + what,
                           case, obs, extra)

    def nontrivial(self, key):
        self.ctx.nontrivial("T" + key)


MCDIES_CFG = """INIT Init
NEXT Next
VIEW View
CHECK_DEADLOCK FALSE
CONSTANTS
  Modes = {"nav"}
  MaxN = %d
  RestrictN = %d
  Pads = {0}
  Combos <- CombosTiny
  FullCombos <- FullTiny
  Rotate = FALSE
  MaxA = 1
"""


def tree_histories(ctx, profiles):
    """C02's model (spec/Dies.tla, spec/MCDies.tla: complete state graph of EntriesTree per forest, every
    transition with the forest-semantics expectation checked inside TLC) and driver (gvh-dies), neither
    edited: keep the EntriesTree scripts over forests that carry DW_AT_sibling in which an inner children()
    iterator is abandoned (A) and the tree is used afterwards.  The expectation of the last call is the
    forest's (= what a new tree positioned at that node reports)."""
    import c02
    with open(os.path.join(SPEC, "MCDies_c20_run.cfg"), "w") as f:
        f.write(MCDIES_CFG % ((4, 4) if ctx.quick else (5, 5)))
    r = ctx.tlc("MCDies", "MCDies_c20_run", timeout=7200, cases_name="dies-tree")
    kept = os.path.join(ctx.work, "dies-tree-kept.ndjson")
    n = 0
    with open(kept, "w") as out:
        for c in read_ndjson(r.cases_path):
            if c["t"] == "stream":
                out.write(json.dumps(c, separators=(",", ":")) + "\n")
            elif c["t"] == "nav" and c.get("api") == "tree" and any(c["sid"][2]) and "A" in c["script"][:-1]:
                out.write(json.dumps(c, separators=(",", ":")) + "\n")
                n += 1
    os.remove(r.cases_path)
    if n == 0:
        raise ToolError("no tree history cases")
    replay_path, exp_path, nstreams, nnav = c02.split_cases(ctx, kept)
    bins = {p: ctx.build("gvh-dies", p) for p in profiles}
    for prof, b in bins.items():
        obs = ctx.replay(b, replay_path, tag="tree-" + prof, per_case_timeout=60)
        ck = c02.Checker(_TreeCtx(ctx), prof)
        for i, (case, exps) in enumerate(zip(read_ndjson(replay_path), read_ndjson(exp_path))):
            if not case.get("navonly"):
                continue                      # the stream's own header / raw checks belong to C02
            o = obs.get(i)
            for nav, e in zip(case.get("navs", []), exps):
                nav["exp"] = e
            ck.stream(case, o)
    ctx.cov["tree_history_scripts"] = nnav


def seq_same(exp, got, with_entry):
    """lists of {res, e|cur}; entries after an error are not compared; error kinds are not fixed"""
    if len(exp) != len(got):
        return "count %d vs %d" % (len(exp), len(got))
    for j, (e, g) in enumerate(zip(exp, got)):
        er, gr = e["res"], g["res"]
        e_err, g_err = er not in ("true", "false"), gr not in ("true", "false")
        if e_err != g_err or (not e_err and er != gr):
            return "step %d result %s vs %s" % (j, er, gr)
        key = "e" if with_entry else "cur"
        if (not e_err or key == "cur") and canon(e[key]) != canon(g[key]):
            return "step %d %s %s vs %s" % (j, key, json.dumps(e[key]), json.dumps(g[key]))
    return None


def trav_same(e, g):
    es, gs = e["st"], g["st"]
    e_err, g_err = es not in ("ok", "stop"), gs not in ("ok", "stop")
    if e_err != g_err or (not e_err and es != gs):
        return "status %s vs %s" % (es, gs)
    if canon(e["out"]) != canon(g["out"]):
        return "nodes %s vs %s" % (json.dumps(e["out"])[:300], json.dumps(g["out"])[:300])
    return None


def check_die(ctx, case, o):
    ok = True

    def bad(sig, what):
        nonlocal ok
        ok = False
        ctx.violation("die:" + sig, what + " (DIE bytes %s)" % case["info"][11:], case, o)
    if "raw_reused" not in o:
        raise ToolError("harness could not set up the unit: %s" % json.dumps(o)[:200])
    d = seq_same(case["raw"], o["raw_fresh"], True)
    if d:
        bad("raw:fresh-buffer", "reads into new buffers differ from the model: " + d)
    d = seq_same(case["raw"], o["raw_reused"], True)
    if d:
        bad("raw:reused-buffer", "reads into one reused buffer differ from fresh-buffer results: " + d)
    for name in ("entries", "dfs", "sib"):
        d = seq_same(case[name], o[name], False)
        if d:
            bad("cursor:" + name, "cursor %s sequence: %s" % (name, d))
    for name in ("clones", "clones_rev"):
        for k, (e, g) in enumerate(zip(case["clones"], o[name])):
            d = seq_same(e, g, False)
            if d:
                bad("cursor:%s" % name, "cursor cloned after %d entries (%s): %s" % (k, name, d))
    d = trav_same(case["tree"], o["tree"])
    if d:
        bad("tree:fresh", "traversal of a new tree: " + d)
    d = trav_same(case["tree"], o["tree_clone"])
    if d:
        bad("tree:clone", "traversal of a cloned tree after the original moved on: " + d)
    for j, (e, g) in enumerate(zip(case["partial"], o["partial"])):
        d = trav_same(e, g)
        if d:
            bad("tree:partial", "partial traversal with budget %d: %s" % (j, d))
    for j, g in enumerate(o["reroot"]):
        d = trav_same(case["tree"], g)
        if d:
            bad("tree:reroot", "root() after a partial traversal of %d nodes: %s" % (j, d))
    return ok


def run(ctx):
    q = ctx.quick
    profiles = ["dev"] if q else ["dev", "release"]
    cfi = {p: ctx.build("gvh-cfiexec", p) for p in profiles}
    reuse = {p: ctx.build("gvh-reuse", p) for p in profiles}

    # --- unwind contexts: histories
    r = ctx.tlc("MCCfiHistory", write_cfg("MCCfiHistory_run", {"MaxHist": 2 if q else 3}), timeout=7200)
    if r.ncases == 0:
        raise ToolError("no history cases")
    for prof, b in cfi.items():
        obs = ctx.replay(b, r.cases_path, tag="hist-" + prof)
        check_histories(ctx, r.cases_path, obs, prof)

    # --- DIE buffers / cursors / trees / abbreviation cache
    r2 = ctx.tlc("MCReuse", write_cfg("MCReuse_run", {"MaxUnits": 3, "MaxTok": 3 if q else 4}), timeout=7200)
    if r2.ncases == 0:
        raise ToolError("no reuse cases")
    for prof, b in reuse.items():
        obs = ctx.replay(b, r2.cases_path, tag="reuse-" + prof)
        for i, case in enumerate(read_ndjson(r2.cases_path)):
            o = obs.get(i)
            if o is None or "outcome" in o:
                ctx.violation("%s:%s:%s" % (case["sys"], (o or {}).get("outcome"), (o or {}).get("loc", "")),
                              "did not return normally: %s" % json.dumps(o)[:300], case, o)
                continue
            good = {"cache": check_cache, "repop": check_repop}.get(case["sys"], check_die)(ctx, case, o)
            ctx.nontrivial(case["sys"] + canon([case.get("info"), case.get("strat"), case.get("steps")]))
            if good and i in (40, 900):
                ctx.sample({"profile": prof, "sys": case["sys"], "info": case.get("info", case.get("steps")), "strat": case.get("strat"),
                            "expect": case.get("gets", case.get("dfs"))})

    # --- line rows: one LineRows iterator over histories of sequences (replayed by C04's driver)
    line = {p: ctx.build("gvh-linesm", p) for p in profiles}
    r3 = ctx.tlc("MCLineHist", write_cfg("MCLineHist_run", {"MaxSeq": 3 if q else 4, "Headers": "{1, 2}" if q else "{1, 2, 3}"}), timeout=7200)
    if r3.ncases == 0:
        raise ToolError("no line history cases")
    for prof, b in line.items():
        obs = ctx.replay(b, r3.cases_path, tag="line-" + prof)
        for i, case in enumerate(read_ndjson(r3.cases_path)):
            o = obs.get(i)
            if o is None or "outcome" in o:
                ctx.violation("line:%s:%s" % ((o or {}).get("outcome"), (o or {}).get("loc", "")),
                              "did not return normally: %s" % json.dumps(o)[:300], case, o)
                continue
            good = check_linehist(ctx, case, o)
            ctx.nontrivial("line" + canon([case["hdr"], case["pick"]]))
            if good and len(case["pick"]) == 3 and case["pick"][0] == 6 and case["pick"][1] == 3 and prof == "dev":
                ctx.sample({"sys": "linehist", "history": case["pick"], "rows": case["exp"]["rows"],
                            "sequences": [[e["start"], e["end"]] for e in case["exp"]["seqs"]]})

    # --- DIE tree with DW_AT_sibling: outer iterator continued after an abandoned inner one (C02's model + driver)
    tree_histories(ctx, profiles)

    # --- V: long random histories on long-lived contexts (the model context persists too)
    n = 150 if q else 1500
    tr = ctx.record(cfi["dev"], "hist-trace.ndjson", ["--seed", ctx.seed + 17, "--n", n, "--corpus", 0, "--maxlen", 60])
    c06.validate_trace_chunks(ctx, tr, sigprefix="histtrace")

    ctx.assumptions += [
        "the content of an entry buffer after a failed read_entry is not compared (documented as unspecified); the next successful read must equal a fresh buffer",
        "error kinds are compared only where C06 fixes them (StackFull / TooManyRegisterRules / CfiInstructionInInvalidContext)",
        "DIE model: DWARF 4, 32-bit, forms data1/data2/udata/flag_present, no DW_AT_sibling (sibling fast path is covered by C02)",
        "cursor / tree clones are compared through the sequences they yield (iterators are plain values)",
        "tree histories: forests <= 4 (quick) / 5 (thorough) entries with DW_AT_sibling under one header / code scheme; model and driver are C02's (Dies.tla, MCDies.tla, gvh-dies); the expectation is the forest semantics, which TLC checks to equal the as-coded EntriesTree on every transition",
        "line rows: the machine is LineSM.tla's as-coded model (C04); sequence templates are fixed, only their order varies; the replay driver is C04's gvh-linesm",
        "other iterator kinds (range / location lists, CfiEntriesIter) are not modelled here",
    ]
    ctx.finish("model_checking",
               rule="one case per TLC state: a history of context uses (pool index, rows|info) / a unit-offset sequence x cache strategy / "
                    "a DIE token stream; every case performs the uses on reused and on fresh state; non-trivial = every case",
               exhaustive=True)
