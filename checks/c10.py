"""C10 — readers are faithful zero-copy views; all reader kinds behave identically.

Deciding spec: Reader.tla (cursor model: windows [s,e) into one buffer; one action per
Reader trait method; no reader-kind parameter).
 G: MCReader explores every reachable handle table for a set of small buffers and, per
    distinct state, checks the window/view/offset-id invariants for every applicable
    operation and emits one case: the history reaching the state plus one probe per
    operation with the model's result and post-projection.  gvh-reader re-runs the
    history for every probe on six reader kinds and reports result, projection
    (offset_from(section), len, bytes, pointer of to_slice relative to the buffer,
    section.lookup_offset_id(offset_id()), borrowed) and buffer reference counts.
 V: gvh-reader records long random histories (64-4096 byte buffers, 8 handle slots,
    clone/split/drop in random order) per kind, and whole-section parses under every
    kind; ReaderTrace.tla validates every event.
"""
import json, os, threading
from vlib import read_ndjson, ToolError

FIELDS = ["offset_from", "len", "bytes", "ptr", "offset_id", "borrowed"]


def expand(p):
    """model projection <<s, len, bytes, ptr, idpos>> -> what the harness prints"""
    return [] if not p else [p[0], p[1], p[2], p[3], p[4], True]


def norm_res(r):
    if isinstance(r, dict) and r.get("k") == "panic":
        return {"k": "panic"}
    return r


def by_kind(packed, kinds, na=()):
    """undo the harness' all/by packing -> {kind: obs}"""
    if packed is None:
        return {}
    if "all" in packed:
        return {k: packed["all"] for k in kinds if k not in na}
    return dict(packed["by"])


def split_file(path, n, work):
    outs = [open(os.path.join(work, "part%d.ndjson" % i), "w") for i in range(n)]
    for i, line in enumerate(open(path)):
        outs[i % n].write(line)
    for o in outs:
        o.close()
    return [o.name for o in outs]


def replay_parallel(ctx, binpath, cases_path, tag, n=4):
    parts = split_file(cases_path, n, ctx.work)
    res = [None] * n
    errs = []

    def go(i):
        try:
            res[i] = ctx.replay(binpath, parts[i], tag="%s-%d" % (tag, i), per_case_timeout=60)
        except Exception as e:  # noqa
            errs.append(e)
    ts = [threading.Thread(target=go, args=(i,)) for i in range(n)]
    for t in ts:
        t.start()
    for t in ts:
        t.join()
    if errs:
        raise ToolError("replay failed: %s" % errs[0])
    obs = {}
    for i in range(n):
        for j, o in res[i].items():
            obs[j * n + i] = o
    return obs


def apply_delta(pre, delta, exp):
    post = list(pre)
    for h, p in delta:
        post[h - 1] = expand(p) if exp else p
    return post


def judge(ctx, case, small, pr, kinds_here, got, aux, exp_r, exp_post, profile, after_empty):
    """compare one observation (shared by `kinds_here`) with the model; returns the normalised result"""
    op = pr["o"]
    name = op[0]
    bad = []
    gr = norm_res(got["r"])
    if gr != exp_r and not (gr.get("k") == "err" and exp_r.get("k") == "err"):
        bad.append("result")
    gp = got["post"]
    if gp != exp_post:
        for g1, e1 in zip(gp, exp_post):
            if g1 == e1:
                continue
            if not g1 or not e1:
                bad.append("liveness")
                continue
            for f, (x, y) in zip(FIELDS, zip(g1, e1)):
                if x != y:
                    bad.append(f)
    for k in kinds_here:
        kb = list(bad)
        if k in aux:
            refs, td = aux[k]
            if refs != pr["refs"]:
                kb.append("refcount")
            if td != [0, 1]:
                kb.append("teardown")
        if kb:
            sig = "%s:%s:%s%s" % (k, name, "+".join(sorted(set(kb))), ":after-empty" if after_empty else "")
            ctx.violation(sig, "%s(%s) on %s [%s]: model result %s post %s, observed result %s post %s aux %s" %
                          (name, op[1:], k, profile, json.dumps(exp_r), json.dumps(exp_post), json.dumps(got["r"]),
                           json.dumps(gp), json.dumps(aux.get(k))),
                          dict(small, probe=pr), {"kind": k, "obs": got, "aux": aux.get(k), "profile": profile})
    return gr


def compare_cases(ctx, cases_path, obs, profile, stats):
    for ci, case in enumerate(read_ndjson(cases_path)):
        o = obs.get(ci)
        if o is None or "outcome" in o:
            ctx.violation("replay:%s" % (o or {}).get("outcome"), "harness did not return normally on a Reader script",
                          {k: case[k] for k in ("buf", "le", "prefix")}, o)
            continue
        kinds = o["kinds"]
        small = {"buf": case["buf"], "le": case["le"], "mh": case["mh"], "prefix": case["prefix"]}
        # --- state reached by the history
        pre = by_kind(o["pre"]["c"], kinds)
        exp_pre = [expand(p) for p in case["pre"]]
        shadowed = set(k for k in kinds if pre[k]["p"] != exp_pre)
        stats["shadowed"] += len(shadowed)
        if len(case["probes"]) != len(o["probes"]):
            raise ToolError("probe count mismatch in case %d" % ci)
        if ci < 2:
            ctx.sample({"case": dict(small, probe=case["probes"][0]), "obs": o["probes"][0]})
        for pi, (pr, po) in enumerate(zip(case["probes"], o["probes"])):
            op = pr["o"]
            name = op[0]
            na = po.get("na", ())
            exp_post = apply_delta(exp_pre, pr["d"], True)
            exp_r = pr["r"]
            after_empty = op[1] >= 1 and case["emp"][op[1] - 1]
            stats["probes"] += 1
            if exp_r.get("k") == "ok" and pr["d"]:
                ctx.nontrivial(ci * 4096 + pi)
            aux = by_kind(po["x"], kinds)
            active = [k for k in kinds if k not in na and k not in shadowed]
            stats["evals"] += len(active)
            rs = {}
            if "all" in po["c"]:
                if active:
                    g = po["c"]["all"]
                    got = {"r": g["r"], "post": apply_delta(exp_pre, g["d"], False)}
                    gr = judge(ctx, case, small, pr, active, got, aux, exp_r, exp_post, profile, after_empty)
                    rs = {k: gr for k in active}
            else:
                for k in active:
                    g = po["c"]["by"][k]
                    got = {"r": g["r"], "post": apply_delta(exp_pre, g["d"], False)}
                    rs[k] = judge(ctx, case, small, pr, [k], got, aux, exp_r, exp_post, profile, after_empty)
            # error variant / position: the property only fixes that all kinds agree
            if exp_r.get("k") == "err":
                errs = {k: r for k, r in rs.items() if r.get("k") == "err"}
                vals = set(json.dumps(v, sort_keys=True) for v in errs.values())
                if len(vals) > 1:
                    ctx.violation("kinds-disagree:%s:error" % name,
                                  "%s(%s): reader kinds return different errors: %s" % (name, op[1:], json.dumps(errs)),
                                  dict(small, probe=pr), errs)
                elif vals and json.loads(next(iter(vals))) != exp_r:
                    ctx.drift.append({"op": op, "model": exp_r, "observed": json.loads(next(iter(vals)))})


def validate_groups(ctx, trace, module="ReaderTrace", chunk=12000):
    """Validate the event file in chunks that start at group boundaries (a Reset, or
    the first Section of a parsed input).  After a rejected event the group containing
    it is reported and skipped, the rest is validated."""
    lines = [l for l in open(trace) if l.strip()]
    groups = []
    for l in lines:
        if '"g":true' in l[:400] or '"g":true' in l[-400:] or not groups:
            groups.append([])
        groups[-1].append(l)
    gi = 0
    runs = 0
    while gi < len(groups):
        part = []
        gj = gi
        while gj < len(groups) and (not part or len(part) + len(groups[gj]) <= chunk):
            part += groups[gj]
            gj += 1
        p = os.path.join(ctx.work, "chunk.ndjson")
        with open(p, "w") as f:
            f.writelines(part)
        ok, info = ctx.validate_trace(module, p)
        runs += 1
        if ok:
            ctx.cov["traces_validated_against_impl"] += len(part)
            gi = gj
            continue
        um = info.get("unmatched")
        if not um:
            raise ToolError("trace validation failed without an unmatched event: %s" % info.get("error"))
        idx_s, js = um.split(", ", 1)
        idx = int(idx_s)
        ev = json.loads(json.loads(js))
        # which group does event idx (1-based in this chunk) belong to?
        n = 0
        g = gi
        while n + len(groups[g]) < idx:
            n += len(groups[g])
            g += 1
        head = json.loads(groups[g][0])
        ctx.cov["traces_validated_against_impl"] += idx - 1
        sig = "trace:%s:%s" % (head.get("kind"), ev.get("ev"))
        ctx.violation(sig, "recorded event %d of a %s history is not a step of Reader.tla: %s" %
                      (idx - n, head.get("kind"), json.dumps(ev)[:1500]),
                      {"group_head": {k: v for k, v in head.items() if k != "buf"}, "event": ev}, None)
        # groups gi..g-1 were accepted; skip group g
        gi = g + 1
        if runs > 300:
            raise ToolError("too many rejected events")


def check_dwarf(ctx, case, o, profile, stats):
    """Dwarf-level identity (MCDwarf): borrowed sections = owner sections, offset ids of every section resolve."""
    how = case["how"]
    names = [e[0] for e in case["main"]]
    if how != "Lists::borrow":
        missing = sorted(set(names) - set(o["loaded"]))
        extra = sorted(set(o["loaded"]) - set(names))
        if missing or extra:
            ctx.violation("dwarf:section-list:%s" % "+".join(missing + extra),
                          "%s: sections the model lists but the loader was not asked for: %s; loaded but unknown to the model: %s"
                          % (how, missing, extra), {"how": how}, {"loaded": o["loaded"]})
    obs_views = {(v["sup"], v["sec"]): v for v in o["views"] if isinstance(v, dict)}
    exp_views = {(v["sup"], v["sec"]): v for v in case["views"]}
    for key, e in exp_views.items():
        g = obs_views.get(key)
        stats["dwarf_views"] += 1
        if g != e:
            bad = "missing" if g is None else "+".join(k for k in ("bytes", "ptr", "borrowed") if g.get(k) != e.get(k))
            ctx.violation("dwarf:borrowed-section:%s%s:%s" % (key[1], "(sup)" if key[0] else "", bad),
                          "%s [%s]: section %s of the %s file: model %s, observed %s" %
                          (how, profile, key[1], "supplementary" if key[0] else "main", json.dumps(e), json.dumps(g)),
                          {"how": how, "expected": e}, g)
    if how != "Lists::borrow":
        for key in sorted(set(obs_views) - set(exp_views)):
            ctx.violation("dwarf:section-unknown-to-model:%s" % key[1],
                          "%s: Dwarf exposes section %s which MCDwarf does not list" % (how, key[1]), {"how": how}, obs_views[key])
    obs_probes = {(p["sup"], p["sec"], p["k"]): p for p in o["probes"]}
    for e in case["probes"]:
        g = obs_probes.get((e["sup"], e["sec"], e["k"]))
        stats["dwarf_probes"] += 1
        tag = e["sec"] + ("(sup)" if e["sup"] else "")
        if g is None or g["res"] != e["res"]:
            ctx.violation("dwarf:lookup_offset_id:%s" % tag,
                          "%s [%s]: offset id taken at offset %d of %s: Dwarf::lookup_offset_id gave %s, model %s" %
                          (how, profile, e["k"], tag, json.dumps(g and g["res"]), json.dumps(e["res"])),
                          {"how": how, "probe": e}, g)
        elif g["fmt"] != e["fmt"]:
            ctx.violation("dwarf:format_error:%s" % tag,
                          "%s [%s]: format_error(UnexpectedEof(id at %s+%d)) ends in %r, model %r" %
                          (how, profile, tag, e["k"], g["fmt"], e["fmt"]), {"how": how, "probe": e}, g)
        else:
            ctx.nontrivial(("dwarf", how, e["sup"], e["sec"], e["k"]))


def check_dwp(ctx, case, o, profile, stats):
    """DWARF package (MCDwarf dwp cases): section views of every unit, per reader kind and access path."""
    ver = case["ver"]
    for kind, ko in o.items():
        if "units" not in ko:
            ctx.violation("dwp:v%d:%s:load" % (ver, kind), "DwarfPackage::load failed on the model's package: %s" % ko,
                          {"ver": ver}, ko)
            continue
        for u, uo in zip(case["units"], ko["units"]):
            exp = u["exp"]
            for call in ("cu_sections", "find_cu", "tu_sections", "find_tu"):
                g = uo[call]
                stats["dwp_units"] += 1
                where = "v%d row %d %s on %s [%s]" % (ver, u["row"], call, kind, profile)
                small = {"ver": ver, "row": u["row"], "call": call, "kind": kind}
                if not exp["ok"]:
                    if g.get("ok") is not False:
                        ctx.violation("dwp:v%d:%s:beyond-section-accepted" % (ver, call),
                                      "%s: a contribution reaching beyond its section must be an error, got %s" %
                                      (where, json.dumps(g)[:300]), small, g)
                    continue
                if g.get("ok") is not True:
                    ctx.violation("dwp:v%d:%s:result" % (ver, call),
                                  "%s: model hands back the unit's sections, observed %s" % (where, json.dumps(g)[:300]),
                                  small, g)
                    continue
                gv = {v["sec"]: v for v in g["views"]}
                for e in exp["views"]:
                    v = gv.get(e["sec"])
                    stats["dwp_views"] += 1
                    if v != e:
                        bad = "missing" if v is None else "+".join(k for k in ("bytes", "ptr", "borrowed") if v.get(k) != e.get(k))
                        ctx.violation("dwp:v%d:%s:%s:%s" % (ver, call, e["sec"], bad),
                                      "%s: section %s handed back as %s, model (SubSeq of the package section) %s" %
                                      (where, e["sec"], json.dumps(v), json.dumps(e)), small, v)
                    else:
                        ctx.nontrivial(("dwp", ver, u["row"], call, kind, e["sec"]))
                gp = {(p["sec"], p["at"]): p for p in g["probes"]}
                for e in exp["probes"]:
                    p = gp.get((e["sec"], e["at"]))
                    if p is None or p["res"] != e["res"]:
                        ctx.violation("dwp:v%d:%s:%s:offset_id" % (ver, call, e["sec"]),
                                      "%s: id taken at package offset %d of %s resolves to %s in the unit's Dwarf, model %s" %
                                      (where, e["at"], e["sec"], json.dumps(p and p["res"]), json.dumps(e["res"])), small, p)


def run(ctx):
    q = ctx.quick
    profiles = ["dev"] if q else ["dev", "release"]
    bins = {p: ctx.build("gvh-reader", p) for p in profiles}
    stats = {"shadowed": 0, "probes": 0, "evals": 0, "dwarf_views": 0, "dwarf_probes": 0, "dwp_units": 0, "dwp_views": 0}

    # --- G
    r = ctx.tlc("MCReader", "MCReader_quick" if q else "MCReader_thorough", timeout=3000)
    for prof, b in bins.items():
        obs = replay_parallel(ctx, b, r.cases_path, "reader-" + prof, n=min(4, ctx.workers))
        compare_cases(ctx, r.cases_path, obs, prof, stats)

    # --- G at the level of gimli::Dwarf: borrowed sections and offset ids of every section
    rd = ctx.tlc("MCDwarf", "MCDwarf", workers=1, timeout=600)
    for prof, b in bins.items():
        obs = ctx.replay(b, rd.cases_path, tag="dwarf-" + prof)
        for i, case in enumerate(read_ndjson(rd.cases_path)):
            o = obs.get(i)
            if o is None or "outcome" in o:
                ctx.violation("dwarf:replay:%s:%s" % (case.get("how"), (o or {}).get("outcome")),
                              "harness did not return normally", {"how": case.get("how")}, o)
                continue
            if case.get("sys") == "dwp":
                check_dwp(ctx, case, o, prof, stats)
            else:
                check_dwarf(ctx, case, o, prof, stats)

    # --- V
    if q:
        args = ["--seed", ctx.seed, "--n", 400, "--long", 3, "--short", 2, "--parse", 4]
    else:
        args = ["--seed", ctx.seed, "--n", 1000, "--long", 10, "--short", 12, "--parse", 30]
    tr = ctx.record(bins["dev"], "reader-trace.ndjson", args)
    validate_groups(ctx, tr)

    ctx.assumptions += [
        "offset_from(base) is specified (and exercised) only when the reader lies inside base; the API documents a possible panic otherwise",
        "read_uint(n) only for n in 1..8 (documented panic otherwise)",
        "to_string_lossy on ill-formed UTF-8: only 'owned string returned' is checked, not the replacement text",
        "error variant and the position carried by UnexpectedEof are compared between kinds (must agree) and against the model as drift only",
    ]
    # ---- unbounded lemma: the window-safety invariant is inductive for a buffer of ANY length and ANY
    # arguments (ReaderWindowInd.tla, Apalache).  A failure to run is recorded, never reported as a violation.
    ctx.cov["apalache_inductive_invariant"] = apalache_window_lemma(ctx)
    ctx.finish("model_checking",
               rule="one case per distinct (buffer, byte order, handle table) state explored by TLC, one probe per operation applicable "
                    "in that state (= every transition of the state graph plus the inherent range constructors), each executed on six "
                    "reader kinds after re-running the history from a fresh buffer; non-trivial = the probe succeeds and changes a window",
               exhaustive=True,
               extra_cov={"dwp_unit_calls": stats["dwp_units"], "dwp_section_views": stats["dwp_views"],
                          "dwarf_section_views": stats["dwarf_views"], "dwarf_offset_id_probes": stats["dwarf_probes"],
                          "probes": stats["probes"], "probe_evaluations": stats["evals"],
                          "shadowed_kind_cases": stats["shadowed"]})


def apalache_window_lemma(ctx):
    import shutil, subprocess, os
    from vlib import SPEC
    if not shutil.which("apalache-mc"):
        return {"status": "not run (apalache-mc not found)"}
    out = os.path.join(ctx.work, "apalache")
    res = {}
    for name, args in (("Init=>IndInv", ["--init=Init", "--length=0"]), ("IndInv/\\Next=>IndInv'", ["--init=IndInit", "--length=1"])):
        cmd = ["timeout", "600", "apalache-mc", "check", "--out-dir=" + out, "--cinit=ConstInit", "--inv=IndInv"] + args + ["ReaderWindowInd.tla"]
        try:
            p = subprocess.run(cmd, cwd=SPEC, stdout=subprocess.PIPE, stderr=subprocess.STDOUT, text=True)
        except Exception as e:
            return {"status": "not run (%s)" % e}
        if "EXITCODE: OK" in p.stdout:
            res[name] = "proved"
        elif "violat" in p.stdout:
            raise ToolError("Apalache refuted the inductive window invariant of ReaderWindowInd.tla (a design-level failure):\n" + p.stdout[-1500:])
        else:
            return {"status": "not run (apalache exit %s)" % p.returncode, "tail": p.stdout[-300:]}
    shutil.rmtree(out, ignore_errors=True)
    return {"status": "proved", "obligations": res, "tool": "apalache-mc check --cinit=ConstInit --inv=IndInv"}
