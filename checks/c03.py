"""C03 — every attribute form decodes to its DWARF value; skipping equals reading.

Deciding spec: Forms.tla — an independent transcription of the DWARF 2-5 form
table (class, size, value; version/format/address-size conditions; legacy
data4/data8 section offsets; GNU forms), the attribute encoder, the
`skip_attributes` machine as coded, and payload/class preservation of
Attribute::value().

 G: MCForms builds complete units (header + abbreviation + one entry) for every
    form x encoding x boundary payload, legacy attribute names, nested
    DW_FORM_indirect, attribute lists over neighbour size classes and attribute
    names with normalisation rules; it states per attribute the allowed values
    and the bytes consumed, the position after skipping and the advertised sizes.
    TLC also checks skip-as-coded = reading on every case.  gvh-forms replays.
 V: every (name, raw value, normalised value) observed during the replay, and the
    entries of the self fixture and of the compiled corpus (DWARF 2-5 producers:
    forms, per-attribute consumption, advertised sizes, skip landing),
    are validated by FormsTrace.tla against the form table.
"""
import json, os, time
from vlib import read_ndjson, canon, ToolError, SPEC, log

CFG = """INIT Init
NEXT Next
CHECK_DEADLOCK FALSE
CONSTANTS
  Modes = {"single", "legacy", "indirect", "lists", "norm", "line", "runs"}
  FullEnc = %(full)s
  MaxList = 3
  BigList = %(big)s
"""
TIERS = {"quick": dict(full="FALSE", big="FALSE"), "thorough": dict(full="TRUE", big="TRUE")}

FORM_NAMES = {1: "addr", 3: "block2", 4: "block4", 5: "data2", 6: "data4", 7: "data8", 8: "string", 9: "block", 10: "block1",
              11: "data1", 12: "flag", 13: "sdata", 14: "strp", 15: "udata", 16: "ref_addr", 17: "ref1", 18: "ref2", 19: "ref4",
              20: "ref8", 21: "ref_udata", 22: "indirect", 23: "sec_offset", 24: "exprloc", 25: "flag_present", 26: "strx",
              27: "addrx", 28: "ref_sup4", 29: "strp_sup", 30: "data16", 31: "line_strp", 32: "ref_sig8", 33: "implicit_const",
              34: "loclistx", 35: "rnglistx", 36: "ref_sup8", 37: "strx1", 38: "strx2", 39: "strx3", 40: "strx4", 41: "addrx1",
              42: "addrx2", 43: "addrx3", 44: "addrx4", 48: "unassigned48", 0x1f01: "GNU_addr_index", 0x1f02: "GNU_str_index",
              0x1f20: "GNU_ref_alt", 0x1f21: "GNU_strp_alt"}   # for signatures only
AT_NAMES = {44: "DW_AT_start_scope"}                           # for signatures only


def fname(c):
    return FORM_NAMES.get(c, "form%x" % c)


def compare_line(ctx, case, o, prof):
    """the line-table variant of the decoder (read/line.rs parse_attribute)"""
    tagp = "" if prof == "dev" else ":" + prof
    enc = case["enc"]
    fn = fname(case["forms"][0])
    where = "line-table %s field, v5/%d-bit/%s" % (case["sub"], enc["fmt"], "le" if enc["le"] else "be")
    if o is None or "outcome" in o:
        ctx.violation("line:%s:%s%s:%s" % (fn, (o or {}).get("outcome"), tagp, (o or {}).get("loc", "")),
                      "line-program header with DW_FORM_%s (%s) did not parse normally: %s" % (fn, where, o), case, o)
        return
    if not o.get("ok"):
        if case["must"]:
            ctx.violation("line:rejected:%s:%s%s" % (fn, o.get("err"), tagp), "DW_FORM_%s as %s rejected: %s" % (fn, where, o.get("err")), case, o)
        else:
            ctx.drift.append({"what": "form not implemented by the line-table reader for a vendor-defined content type", "form": fn})
        return
    if len(o["files"]) != 2:
        ctx.violation("line:files:%s%s" % (fn, tagp), "%d file entries reported, 2 encoded (%s)" % (len(o["files"]), where), case, o)
        return
    for e, f in zip(case["files"], o["files"]):
        for fld, want in e.items():
            if fld == "path":
                if canon(f["path"]) not in [canon(x) for x in want]:
                    what = "consumed" if case["sub"] == "skip" else "val"
                    ctx.violation("line:%s:%s%s" % (what, fn, tagp), "DW_FORM_%s as %s: path reported %s, encoded %s" % (fn, where, f["path"], want), case, o)
            elif f[fld] != want:
                ctx.violation("line:%s:%s%s" % (fld, fn, tagp), "DW_FORM_%s as %s: %s reported %s, encoded %s" % (fn, where, fld, f[fld], want), case, o)
    ctx.nontrivial(repr(("line", case["sub"], enc["fmt"], enc["le"], case["forms"], case["line"])))


def compare(ctx, case, o, prof):
    if case["t"] == "line":
        return compare_line(ctx, case, o, prof)
    tagp = "" if prof == "dev" else ":" + prof
    forms = case["forms"]
    enc = case["enc"]
    where = "v%d/%d-bit/asz%d/%s" % (enc["ver"], enc["fmt"], enc["asz"], "le" if enc["le"] else "be")
    lst = ",".join(fname(f) for f in forms) if len(forms) <= 24 else "%s,… (%d attributes)" % (",".join(fname(f) for f in forms[:6]), len(forms))
    if o is None or "outcome" in o:
        ctx.violation("unit:%s%s:%s" % ((o or {}).get("outcome"), tagp, (o or {}).get("loc", "")),
                      "replay of forms [%s] (%s) did not return normally: %s" % (lst, where, o), case, o)
        return
    if "reads" not in o:
        ctx.violation("unit:rejected%s" % tagp, "unit with forms [%s] (%s) rejected: %s" % (lst, where, o), case, o)
        return
    # the abbreviation must carry the forms that were encoded
    if o["forms"] != forms:
        ctx.violation("abbrev:forms%s" % tagp, "abbreviation reports forms %s, encoded %s" % (o["forms"], forms), case, o)
        return
    off = 0
    for j, e in enumerate(case["reads"]):
        if j >= len(o["reads"]):
            ctx.violation("read:missing%s" % tagp, "attribute %d of [%s] was not read" % (j, lst), case, o)
            break
        r = o["reads"][j]
        fn = fname(forms[j])
        if "err" in e:
            if "err" not in r:
                ctx.violation("read:ill-formed-accepted:%s%s" % (fn, tagp),
                              "ill-formed attribute %d of [%s] (%s) decoded to %s" % (j, lst, where, r), case, o)
            continue
        if "err" in r:
            ctx.violation("read:rejected:%s:%s%s" % (fn, r["err"], tagp),
                          "attribute %d of [%s] (%s) rejected with %s" % (j, lst, where, r["err"]), case, o)
            break
        got = canon({"kind": r["kind"], "v": r["v"]})
        if got not in [canon(x) for x in e["vals"]]:
            name = case["names"][j]
            if any(x["v"] == r["v"] for x in e["vals"]):
                sig = "val:%s:%s:v%d:%s%s" % (fn, AT_NAMES.get(name, "name%x" % name), enc["ver"], r["kind"], tagp)
            else:
                sig = "val:%s:payload%s" % (fn, tagp)
            ctx.violation(sig, "attribute %d (name 0x%x, DW_FORM_%s) of [%s] (%s): DWARF assigns %s, reported %s(%s)" %
                          (j, name, fn, lst, where, e["vals"], r["kind"], r["v"]), case, o)
        if r["n"] != e["n"]:
            ctx.violation("consumed:%s%s" % (fn, tagp), "DW_FORM_%s in [%s] (%s): reading consumed %d bytes, encoded %d" %
                          (fn, lst, where, r["n"], e["n"]), case, o)
        off += e["n"]
    # read_entry / entry(): same attributes
    ent = o.get("entry", {})
    well = all("err" not in e for e in case["reads"])
    if well and not (ent.get("ok") and ent.get("same") and ent.get("n") == off):
        ctx.violation("read_entry:differs%s" % tagp, "read_entry over [%s] (%s) differs from attribute-wise reading: %s" % (lst, where, ent), case, o)
    # advertised sizes
    if o["sizes"] != case["sizes"]:
        bad = [fname(f) for f, a, b in zip(forms, o["sizes"], case["sizes"]) if a != b]
        ctx.violation("size:%s%s" % (bad[0] if bad else "?", tagp),
                      "AttributeSpecification::size for [%s] (%s): advertised %s, form table %s" % (lst, where, o["sizes"], case["sizes"]), case, o)
    # skipping
    sk = o["skip"]
    if "outcome" in sk:
        kind = "block-length-overflow" if case["ovf"] else ("block-length-beyond-data" if case["trunc"] else
                                                            ("long-fixed-run" if case["t"] == "runs" else "other"))
        ctx.violation("skip:%s:%s%s" % (kind, sk["outcome"], tagp),
                      "skip_attributes over [%s] (%s) %s at %s: %s" % (lst, where, sk["outcome"], sk.get("loc"), sk.get("msg")), case, sk)
    else:
        got = {"ok": True, "n": sk["n"]} if sk.get("ok") else {"ok": False}
        if canon(got) not in [canon(x) for x in case["skip"]]:
            if case["ovf"] or case["trunc"]:
                sig = "skip:block-length-beyond-data:%s%s" % ("ok-inside-entry" if sk.get("ok") else "err", tagp)
            elif well:
                sig = "skip:lands-elsewhere:%s%s" % (fname(forms[-1]) if len(forms) == 1 else ("long-fixed-run" if case["t"] == "runs" else "list"), tagp)
            else:
                sig = "skip:ill-formed-accepted%s" % tagp
            ctx.violation(sig, "skip_attributes over [%s] (%s): got %s, allowed %s (reading consumes %s)" %
                          (lst, where, sk, case["skip"], off if well else "nothing: it fails"), case, o)
        elif sk.get("ok") is False and sk.get("err") not in ("UnexpectedEof", "UnknownForm"):
            ctx.drift.append({"what": "skip error kind", "got": sk.get("err"), "forms": forms})
    ctx.nontrivial(repr((case["t"], enc["ver"], enc["fmt"], enc["asz"], enc["le"], forms, case["names"], case["info"])))


def run(ctx):
    q = ctx.quick
    profiles = ["dev"] if q else ["dev", "release"]
    bins = {p: ctx.build("gvh-forms", p) for p in profiles}
    with open(os.path.join(SPEC, "MCForms_run.cfg"), "w") as f:
        f.write(CFG % TIERS[ctx.tier])
    r = ctx.tlc("MCForms", "MCForms_run", timeout=900 if q else 7200)
    novf = 0
    norm_events = []
    for prof, b in bins.items():
        obs = ctx.replay(b, r.cases_path, tag="forms-" + prof)
        for i, case in enumerate(read_ndjson(r.cases_path)):
            o = obs.get(i)
            if not case["codedok"]:
                raise ToolError("design-level: skip as coded disagrees with reading on %s" % case["forms"])
            if prof == "dev":
                novf += 1 if case["ovf"] else 0
                if i in (0, 4000, 9000):
                    ctx.sample({"case": {k: case[k] for k in ("t", "enc", "forms", "names", "info", "abbrev", "reads", "skip", "sizes", "line", "files") if k in case}, "obs": o})
            compare(ctx, case, o, prof)
            if prof == "dev" and o and "reads" in o and case["t"] != "runs":   # runs repeat one typical value thousands of times
                for rd in o["reads"]:
                    if "err" not in rd:
                        norm_events.append({"ev": "Norm", "name": rd["name"], "form": rd["form"],
                                            "raw": {"kind": rd["kind"], "v": rd["v"]}, "norm": rd["norm"], "conv": rd["conv"]})
    ctx.cov["accumulator_overflow_cases"] = novf

    # ---- V: normalisation of every value observed + real entries
    p = os.path.join(ctx.work, "norm-events.ndjson")
    with open(p, "w") as f:
        for e in norm_events:
            f.write(json.dumps(e, separators=(",", ":")) + "\n")
    validate_chunks(ctx, p, module="FormsTrace", chunk=30000, sigprefix="normalise")
    tr = ctx.record(bins["dev"], "forms-fixture.ndjson",
                    ["--seed", ctx.seed, "--units", 4 if q else 60, "--dies", 150 if q else 3000,
                     "--corpus", os.path.join(os.path.dirname(SPEC), "corpus")])
    validate_chunks(ctx, tr, module="FormsTrace", chunk=4000, sigprefix="fixture")

    ctx.assumptions += [
        "the oracle is the TLA+ form table (Forms.tla), transcribed from DWARF 2-5 section 7.5 and the GNU extensions; gimli's get_attribute_size is never consulted",
        "64-bit target (offsets and indices up to 2^64-1 are representable)",
        "the AttributeValue variant is taken as gimli's expression of the DWARF class; DW_FORM_data4/data8 on an attribute that cannot be a constant in DWARF 4/5 is ill-formed and either reading is tolerated; "
        "DW_AT_start_scope in DWARF 3 (standard inconsistent) tolerates both",
        "ill-formed attributes (length field beyond the data, unassigned form code, implicit_const below indirect) must be rejected by reading; skipping must fail too, except implicit_const below indirect which may be skipped as a zero-size value",
        "quick tier: address sizes 1/2/4/8 are crossed only with the forms whose size depends on them (addr, ref_addr); lists use 9 size-class representatives x 2 encodings",
        "long runs: the accumulated fixed-size total crosses 255/256/257 (16 lists x 2 encodings) and 65535/65536/65537 (4 lists of ~4100 attributes, first encoding only in quick)",
        "line-table variant: DWARF 5 file-entry formats only (two fields, two files); forms the line-table reader does not implement are tolerated when they describe a vendor-defined content type (drift)",
    ]
    ctx.finish("model_checking",
               rule="one case per (sub-model, encoding, form / attribute list / attribute name, payload) enumerated by TLC; every case is a distinct encoded unit with the allowed "
                    "value set, consumed size, skip position and advertised size from the form table; trace events are validated one by one",
               exhaustive=True)


def validate_chunks(ctx, trace, module, chunk, sigprefix):
    """Validate an event file in chunks; report a rejected event with a specific
    signature and continue after it."""
    lines = [l for l in open(trace) if l.strip()]
    pos = 0
    rejected = 0
    while pos < len(lines):
        part = lines[pos:pos + chunk]
        p = os.path.join(ctx.work, "chunk.ndjson")
        with open(p, "w") as f:
            f.writelines(part)
        ok, info = ctx.validate_trace(module, p)
        if ok:
            pos += len(part)
            ctx.cov["traces_validated_against_impl"] += len(part)
            continue
        um = info.get("unmatched")
        if not um:
            raise ToolError("trace validation failed without an unmatched event: %s" % info.get("error"))
        idx = int(um.split(", ", 1)[0])
        ev = json.loads(part[idx - 1])
        ctx.cov["traces_validated_against_impl"] += idx - 1
        if ev.get("ev") == "Norm":
            same = ev["raw"]["v"] == ev["norm"]["v"]
            sig = "%s:name%x:%s->%s:%s" % (sigprefix, ev["name"], ev["raw"]["kind"], ev["norm"]["kind"], ("target" if ev["raw"]["kind"] != ev["norm"]["kind"] else "conversion") if same else "payload")
            what = ("Attribute::value() of name 0x%x turned %s into %s" % (ev["name"], ev["raw"], ev["norm"])) if not same or ev["raw"]["kind"] == ev["norm"]["kind"] and False else \
                   ("value of name 0x%x: raw %s, normalised %s, conversions (udata/sdata/offset/u8/u16) %s: outside the value's class or not the zero/sign extension of the payload" %
                    (ev["name"], ev["raw"], ev["norm"], ev.get("conv")))
        else:
            bad = [a for a in ev.get("attrs", []) if a.get("size", -1) >= 0 and a["size"] != a["n"]]
            sig = "%s:die:%s" % (sigprefix, ("size-vs-consumed:%s" % fname(bad[0]["form"])) if bad else
                                 ("skip" if ev.get("skip", {}).get("n") != ev.get("read_n") else "form-table"))
            what = "entry of a real unit not explainable by the form table: %s" % json.dumps(ev)[:600]
        ctx.violation(sig, what, ev, None)
        pos += idx
        rejected += 1
        if rejected >= 3:
            # each rejection costs a TLC restart; the violations found so far decide the run
            log("[c03] %d events rejected, the remaining %d events of this trace are not validated" % (rejected, len(lines) - pos))
            break
