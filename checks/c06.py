"""C06 — unwind table rows equal DWARF call-frame semantics; specific errors at
storage limits / invalid context.

Deciding spec: CfiExec.tla (UnwindContext + UnwindTable as coded, next to a
reference semantics without the storage optimisation; TLC checks refinement in
every explored state).
 G: MCCfiExec in four modes -
      prog  : every CIE program x FDE program over the instruction alphabet,
              evaluated on 4 storages (2 rows/2 rules, 3/1, StoreOnHeap 4/192,
              Vec) and under both vendors;
      bytes : FDE instruction *bytes* over a class alphabet (decoder);
      grid  : alignment factors x address sizes x 64-bit boundary operands;
      deep  : directed programs reaching 192 rules / 4 rows exactly and +1;
      eh    : .eh_frame "zR" CIEs over the DW_EH_PE encoding bytes (format x
              application x indirect, valid / invalid / omit, with / without base
              addresses) with DW_CFA_set_loc operands in that encoding.
    Each state prints the encoded .debug_frame and the allowed rows / result;
    gvh-cfiexec replays them on gimli.
 V: gvh-cfiexec records random long programs (64-bit operands, address sizes
    1-8, long-lived contexts) and FDEs of fixtures/self/eh_frame; CfiExecTrace
    validates every next_row against the machine and the reference.
"""
import json, os
from vlib import read_ndjson, canon, ToolError, SPEC

# error kinds the property statement fixes ("the specific error")
FIXED = {"StackFull", "TooManyRegisterRules", "CfiInstructionInInvalidContext"}


def write_cfg(name, init, nxt, inv, consts):
    with open(os.path.join(SPEC, name + ".cfg"), "w") as f:
        f.write("INIT %s\nNEXT %s\nINVARIANT %s\nCHECK_DEADLOCK FALSE\nCONSTANTS\n" % (init, nxt, inv))
        for k, v in consts.items():
            f.write("  %s = %s\n" % (k, v))
    return name


def strip_get(rows):
    return [{k: v for k, v in r.items() if k != "get"} for r in rows]


def expand(o, base_rows):
    """observation of one storage -> (rows, fin)"""
    if o is None:
        return None, None
    if "rows" in o:
        return o["rows"], o.get("fin")
    return base_rows[:o.get("n", 0)], o.get("fin")


def first_diff(a, b):
    for k in range(max(len(a), len(b))):
        if k >= len(a) or k >= len(b):
            return k, "count"
        if canon(a[k]) != canon(b[k]):
            for f in ("start", "end", "cfa", "args", "rules", "get"):
                if canon(a[k].get(f)) != canon(b[k].get(f)):
                    return k, f
            return k, "?"
    return None, None


def judge(ctx, mode, case, obs, storage, exp, o_rows, o_fin, exp_rows):
    """Compare one storage's observation with the allowed outcome.  Returns True if it passed."""
    if case.get("noget"):
        o_rows, exp_rows = strip_get(o_rows), strip_get(exp_rows)
    want_rows = exp_rows[:exp["n"]]
    k, field = first_diff(want_rows, o_rows)
    efin = exp["fin"]
    if k is None and o_fin == efin:
        return True
    both_parse = str(efin).startswith("parse:") and str(o_fin).startswith("parse:")
    if k is None and efin != "end" and o_fin not in ("end", None) and efin not in FIXED and o_fin not in FIXED \
            and (both_parse or not str(o_fin).startswith(("parse:", "row-after-end", "err-after-end")))\
            and (both_parse or not str(efin).startswith("parse:")):
        # an error was required and an error was reported; the property does not fix which
        ctx.drift.append({"mode": mode, "storage": storage, "expected_error": efin, "observed_error": o_fin,
                          "sec": case["sec"]})
        return True
    if k is not None:
        sig = "%s:%s:row%d:%s" % (mode, storage, k, field)
        what = "storage %s: row %d differs in %s: allowed %s, observed %s (final: allowed %s, observed %s)" % (
            storage, k, field, json.dumps(want_rows[k] if k < len(want_rows) else None),
            json.dumps(o_rows[k] if k < len(o_rows) else None), efin, o_fin)
    else:
        sig = "%s:%s:fin:%s->%s" % (mode, storage, efin, o_fin)
        what = "storage %s: rows agree (%d) but the table ended with %s, allowed %s" % (storage, len(o_rows), o_fin, efin)
    ctx.violation(sig, what + "; section bytes %s fde at %s" % (case["sec"], case["fdeoff"]), case, obs)
    return False


def compare_cases(ctx, cases_path, obs, profile):
    n = 0
    for i, case in enumerate(read_ndjson(cases_path)):
        mode = case.get("mode", "?")
        o = obs.get(i)
        if o is None or "outcome" in o:
            ctx.violation("%s:%s:%s" % (mode, (o or {}).get("outcome"), (o or {}).get("loc", "")),
                          "evaluation did not return normally: %s" % json.dumps(o)[:300], case, o)
            continue
        base_rows = (o.get("vec") or {}).get("rows", [])
        ok = True
        for storage, exp in case["exp"].items():
            rows, fin = expand(o.get(storage), base_rows)
            if rows is None:
                raise ToolError("harness did not report storage %s" % storage)
            ok &= judge(ctx, mode, case, o, storage, exp, rows, fin, case["rows"])
        if case.get("expdef") is not None:
            rows, fin = expand(o.get("def"), base_rows)
            ok &= judge(ctx, mode, case, o, "default-vendor", case["expdef"], rows, fin, case["rows"])
        n += 1
        if case.get("ncie", 0) + case.get("nfde", 0) > 0:
            ctx.nontrivial(canon([case["sec"], case["asz"], case["le"]]))
        if ok and i in (5, 77, 4001):
            ctx.sample({"mode": mode, "profile": profile, "case": {k: case[k] for k in ("sec", "fdeoff", "asz", "exp", "rows")},
                        "obs": o})
    return n


def validate_trace_chunks(ctx, trace, module="CfiExecTrace", sigprefix="trace"):
    """Validate an event file; on rejection report the event and continue with the next
    program (the next `Rows` event), re-creating the contexts first."""
    lines = [l for l in open(trace) if l.strip()]
    header = [l for l in lines if '"ev":"NewCtx"' in l]
    pos = 0
    rounds = 0
    while pos < len(lines):
        part = lines[pos:]
        p = os.path.join(ctx.work, "chunk.ndjson")
        with open(p, "w") as f:
            if pos > 0:
                f.writelines(header)
            f.writelines(part)
        extra = len(header) if pos > 0 else 0
        ok, info = ctx.validate_trace(module, p)
        rounds += 1
        if ok:
            ctx.cov["traces_validated_against_impl"] += len(part)
            return
        um = info.get("unmatched")
        if not um:
            raise ToolError("trace validation failed without an unmatched event: %s" % info.get("error"))
        idx_s, js = um.split(", ", 1)
        idx = int(idx_s) - extra                      # 1-based index within `part`
        ev = json.loads(json.loads(js))
        ctx.cov["traces_validated_against_impl"] += max(idx - 1, 0)
        # find the Rows event this belongs to, for the report
        j = pos + idx - 1
        k = j
        while k >= 0 and '"ev":"Rows"' not in lines[k]:
            k -= 1
        prog = json.loads(lines[k]) if k >= 0 else None
        sig = "%s:%s:%s" % (sigprefix, ev.get("ev"), ev.get("res", ev.get("init", "")))
        if ev.get("ev") == "NextRow" and prog is not None:
            sig += ":%s" % prog.get("storage")
        ctx.violation(sig, "event %d not explainable by CfiExec: %s (program: %s)" %
                      (j + 1, json.dumps(ev)[:400], json.dumps(prog)[:600] if prog else None), ev, prog)
        # resume at the next program; the long-lived context of the rejected program is
        # re-created, which the model mirrors through the NewCtx header
        nxt = j + 1
        while nxt < len(lines) and '"ev":"Rows"' not in lines[nxt]:
            nxt += 1
        pos = nxt
        if rounds > 40:
            raise ToolError("too many rejected events")


def run(ctx):
    q = ctx.quick
    profiles = ["dev"] if q else ["dev", "release"]
    bins = {p: ctx.build("gvh-cfiexec", p) for p in profiles}
    consts = {"Plan": '"quick"' if q else '"thorough"', "MaxBytes": 2 if q else 3, "Quick": "TRUE" if q else "FALSE"}
    # run 1: program models (core / slim / wide alphabets, see Plans in MCCfiExec.tla)
    # run 2: lemmas (fast coders = Leb.tla / BV.tla, encoder = decoder) + bytes + grid + deep
    runs = [("prog", write_cfg("MCCfiExec_prog_run", "Init", "Next", "Inv", consts)),
            ("aux", write_cfg("MCCfiExec_aux_run", "InitX", "NextX", "InvX", consts))]
    for name, cfg in runs:
        r = ctx.tlc("MCCfiExec", cfg, timeout=7200, cases_name=name + "-cases")
        if r.ncases == 0:
            raise ToolError("no cases from %s" % cfg)
        for prof, b in bins.items():
            obs = ctx.replay(b, r.cases_path, tag="%s-%s" % (name, prof))
            compare_cases(ctx, r.cases_path, obs, prof)

    # V: random long programs on long-lived contexts + corpus FDEs
    n = 250 if q else 2500
    tr = ctx.record(bins["dev"], "cfi-trace.ndjson", ["--seed", ctx.seed, "--n", n, "--corpus", 30 if q else 400,
                                                      "--maxlen", 120 if q else 500])
    if any('"ev":"NoCorpus"' in l for l in open(tr)):
        ctx.assumptions.append("fixtures/self/eh_frame not found: corpus FDEs were not validated")
        lines = [l for l in open(tr) if '"ev":"NoCorpus"' not in l]
        open(tr, "w").writelines(lines)
    validate_trace_chunks(ctx, tr)

    ctx.assumptions += [
        "remember/restore_state save and restore the CFA rule and the GNU args size with the register rules (whole row)",
        "factored offsets and advance deltas multiply modulo 2^64; advance past the address size is an error",
        "location instructions inside a CIE are not part of the exhaustive alphabet (DWARF gives them no meaning)",
        "the final row ends at the FDE's end address even if the stream advanced past it (start <= end is not demanded of it)",
        "error kinds other than StackFull / TooManyRegisterRules / CfiInstructionInInvalidContext are compared as 'an error' (drift otherwise)",
        "instruction lists of corpus FDEs (.eh_frame, pointer-encoded set_loc) are hints trusted from gimli's instructions() iterator; for generated programs they are checked against the TLA+ decoder",
    ]
    ctx.finish("model_checking",
               rule="one case per TLC state = distinct (CIE program, FDE program) pair / byte string / grid point, each replayed on "
                    "every storage and vendor; non-trivial = at least one instruction; trace events are validated one by one by CfiExecTrace",
               exhaustive=True)
