"""C09 — primitive codecs: LEB128, sized integers and lengths are exact.

Deciding spec: Leb.tla (mathematical meaning on digit lists + the machines as
coded) over BV.tla.
 G: MCLeb enumerates byte strings (all strings up to FullLen, class-alphabet
    strings and the 9-11 byte frontier), checks machine = meaning inside TLC and
    emits the allowed outcomes; MCFixed enumerates fixed-width / sized /
    initial-length reads.  gvh-leb replays them on the real readers.
 V: gvh-leb records every primitive writer call (value, bytes, reported size);
    LebTrace.tla validates each event against the codec meaning.
"""
import json, os
from vlib import read_ndjson, canon, ToolError


def norm(o):
    if not isinstance(o, dict):
        return o
    if o.get("ok") is False:
        return {"ok": False}
    return {k: v for k, v in o.items() if k != "err"}


def run(ctx):
    q = ctx.quick
    profiles = ["dev"] if q else ["dev", "release"]
    bins = {p: ctx.build("gvh-leb", p) for p in profiles}

    # --- design level: BV arithmetic lemmas (width 1 exhaustive, width 2 grid)
    if not q:
        ctx.tlc("MCBV", timeout=900)

    # --- G: LEB readers
    consts = {"quick": (2, 4, 10), "thorough": (2, 5, 11)}[ctx.tier]
    cfgtxt = open(os.path.join(os.path.dirname(__file__), "..", "spec", "MCLeb.cfg")).read()
    cfgname = "MCLeb_run"
    with open(os.path.join(os.path.dirname(__file__), "..", "spec", cfgname + ".cfg"), "w") as f:
        f.write("INIT Init\nNEXT Next\nINVARIANT Inv\nCHECK_DEADLOCK FALSE\nCONSTANTS\n  FullLen = %d\n  SlimLen = %d\n  FrontLen = %d\n" % consts)
    r1 = ctx.tlc("MCLeb", cfgname, timeout=3000)
    r2 = ctx.tlc("MCFixed", timeout=600)
    kinds = ["u64", "u32", "u16", "i64", "skip"]
    alias = {"f_u64": "u64", "f_i64": "i64", "f_u16": "u16"}
    for prof, b in bins.items():
        obs = ctx.replay(b, r1.cases_path, tag="leb-" + prof)
        for i, case in enumerate(read_ndjson(r1.cases_path)):
            o = obs.get(i)
            if o is None or "outcome" in o:
                ctx.violation("leb:%s:%s" % ((o or {}).get("outcome"), (o or {}).get("loc", "")),
                              "LEB reader did not return normally", case, o); continue
            if i < 3:
                ctx.sample({"case": case, "obs": o})
            for variant, expk in (("plain", "exp"), ("tailed", "expt")):
                for k, got in o[variant].items():
                    kk = alias.get(k, k)
                    allowed = [canon(norm(a)) for a in case[expk][kk]]
                    if canon(norm(got)) not in allowed:
                        ctx.violation("leb:%s:%s" % (k, "tail" if variant == "tailed" else "plain"),
                                      "bytes %s (+tail=%s) reader %s returned %s, allowed %s" %
                                      (case["bytes"], variant == "tailed", k, got, case[expk][kk]), case, o)
            if any(a.get("ok") for a in case["exp"]["u64"] + case["exp"]["i64"]):
                ctx.nontrivial(canon(case["bytes"]))
        obs = ctx.replay(b, r2.cases_path, tag="fixed-" + prof)
        for i, case in enumerate(read_ndjson(r2.cases_path)):
            o = obs.get(i)
            if o is None or "outcome" in o:
                ctx.violation("fixed:%s:%s" % ((o or {}).get("outcome"), (o or {}).get("loc", "")),
                              "fixed-width reader did not return normally", case, o); continue
            if i < 2:
                ctx.sample({"case": case, "obs": o})
            allowed = [canon(norm(a)) for a in case["exp"]]
            if canon(norm(o)) not in allowed:
                ctx.violation("fixed:%s:%s" % (case["op"], case["arg"]),
                              "%s(%s) le=%s on %s returned %s, allowed %s" %
                              (case["op"], case["arg"], case["le"], case["bytes"], o, case["exp"]), case, o)
            ctx.nontrivial(canon([case["op"], case["arg"], case["le"], case["bytes"]]))

    # --- V: writers
    n = 150 if q else 1500
    tr = ctx.record(bins["dev"], "writers.ndjson", ["--seed", ctx.seed, "--n", n, "--all16", 0 if q else 1])
    validate_chunks(ctx, tr)
    ctx.assumptions += [
        "over-long LEB128 encodings whose value fits may be accepted or rejected (property demands rejection only when the value does not fit)",
        "byte strings longer than FullLen are drawn from a 20-value class alphabet and 5 frontier prefixes",
        "error kinds are not compared (property: 'rejecting'), only ok/err, value and bytes consumed",
    ]
    ctx.finish("model_checking",
               rule="one case per distinct byte string / (op,arg,byte order,bytes) state explored by TLC; non-trivial = at least one reader must accept, or a fixed-width case; writer events are validated one by one by LebTrace",
               exhaustive=True)


def validate_chunks(ctx, trace, module="LebTrace", chunk=40000, sigprefix="writer"):
    """Validate a long event file in chunks; on rejection report the event and
    continue after it so that the rest of the trace is still examined."""
    lines = []
    for l in open(trace):
        if not l.strip():
            continue
        if '"outcome"' in l:
            # the library call did not return normally: that is data about gimli, not a tool failure
            e = json.loads(l)
            if e.get("outcome") in ("panic", "abort", "timeout"):
                ctx.violation("%s:%s:%s:%s" % (sigprefix, e.get("ev"), e.get("outcome"), e.get("loc", "")),
                              "%s on value %s did not return normally: %s" % (e.get("ev"), e.get("v"), e.get("msg", "")[:200]), e, e)
                continue
        lines.append(l)
    pos = 0
    nchunks = 0
    while pos < len(lines):
        part = lines[pos:pos + chunk]
        p = os.path.join(ctx.work, "chunk.ndjson")
        with open(p, "w") as f:
            f.writelines(part)
        ok, info = ctx.validate_trace(module, p)
        nchunks += 1
        if ok:
            pos += len(part)
            ctx.cov["traces_validated_against_impl"] += len(part)
            continue
        um = info.get("unmatched")
        if not um:
            raise ToolError("trace validation failed without an unmatched event: %s" % info.get("error"))
        # body looks like: 26, "{...json...}"
        idx_s, js = um.split(", ", 1)
        idx = int(idx_s)
        ev = json.loads(json.loads(js))
        ctx.cov["traces_validated_against_impl"] += idx - 1
        sig = "%s:%s" % (sigprefix, ev.get("ev"))
        if ev.get("ev") == "WriteInitialLength":
            sig += ":fmt%s:%s" % (ev.get("fmt"), "reserved" if ev.get("ok") else "refused")
        elif "size" in ev:
            sig += ":size%s" % ev.get("size")
        ctx.violation(sig, "writer event not explainable by the codec spec: %s" % json.dumps(ev), ev, None)
        pos += idx
        if nchunks > 400:
            raise ToolError("too many rejected events")
