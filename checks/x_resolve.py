"""x_resolve — extension beyond the listed properties (NOT registered in MANIFEST):
unit setup and indexed attribute resolution (src/read/dwarf.rs, str.rs, addr.rs):
Unit::new (name, comp_dir, low_pc, the four bases and their defaults per file type and
version, line_program, dwo_id), Dwarf::attr_string / attr_line_string / string_offset /
attr_address / address, Unit::dwo_name, Dwarf::make_dwo, Unit::copy_relocated_attributes,
ranges_offset_from_raw, and the UnitRef wrappers.

Deciding spec: Resolve.tla (encoder, the functions as coded, their meaning).
 G: MCResolve enumerates versions x formats x address sizes x file types x unit types x
    supplementary file x root DIEs over a menu of attribute instances (plus skeleton x
    split-unit pairs through make_dwo / copy_relocated_attributes), checks
    "as coded = meaning" inside TLC and emits one replay case per state with the expected
    observation; gvh-resolve replays them on gimli.
Run:  ./check X_RESOLVE --tier quick     (evidence/X_RESOLVE.json)
"""
import json, os, re
from vlib import read_ndjson, canon
from c17 import mismatch, err_drift, abnormal, write_cfg, is_err


def ref_mismatch(o, path=""):
    """The UnitRef wrappers must report what the Dwarf methods report: every object that has
    a "ref" member must agree with it on the members "ref" repeats."""
    if isinstance(o, dict):
        r = o.get("ref")
        if isinstance(r, dict):
            for k, v in r.items():
                if o.get(k) != v:
                    return "%s.%s" % (path, k)
        for k, v in o.items():
            if k != "ref":
                m = ref_mismatch(v, "%s.%s" % (path, k))
                if m:
                    return m
    elif isinstance(o, list):
        for v in o:
            m = ref_mismatch(v, path + "[]")
            if m:
                return m
    return None


def is_leaf(x):
    return not isinstance(x, (dict, list)) or (isinstance(x, list) and all(isinstance(v, int) for v in x))


def differ(exp, obs, path="resolve"):
    """First place where the observation is outside the expectation: (path with indexes, kind,
    expected part, observed part) or None.  Same rules as c17.mismatch ({"err": k} in the
    expectation matches any error; members the expectation does not mention are ignored);
    byte tuples are leaves."""
    if is_err(exp):
        return None if is_err(obs) else (path, "expected-error", exp, obs)
    if is_leaf(exp):
        return None if exp == obs else (path, "unexpected-error" if is_err(obs) else "value", exp, obs)
    if isinstance(exp, dict):
        if not isinstance(obs, dict):
            return (path, "shape", exp, obs)
        if is_err(obs):
            return (path, "unexpected-error", exp, obs)
        for k, v in exp.items():
            if k not in obs:
                return ("%s.%s" % (path, k), "missing", v, obs)
            d = differ(v, obs[k], "%s.%s" % (path, k))
            if d:
                return d
        return None
    if not isinstance(obs, list):
        return (path, "unexpected-error" if is_err(obs) else "shape", exp, obs)
    if len(exp) != len(obs):
        return (path, "length", exp, obs)
    for i, (a, b) in enumerate(zip(exp, obs)):
        d = differ(a, b, "%s[%d]" % (path, i))
        if d:
            return d
    return None


def describe(case):
    t = case["tag"]
    return "v%d:%s:fmt%d" % (t["ver"], case["ft"].lower(), t["fmt"])


CHUNK = 40000


def check_case(ctx, i, case, o, corrupt):
    if abnormal(ctx, o, "resolve", case):
        return
    mode = case["mode"]
    slim = {k: v for k, v in case.items() if k not in ("exp",)}
    exp = case["exp"]
    if corrupt is not None and i == corrupt and not is_err(exp.get("unit", {"err": 1})):
        exp["unit"]["sob"][0] ^= 1          # corrupted-expectation control: the run must fail
    # the unit first: when Unit::new disagrees everything after it is a consequence
    d = differ({k: exp[k] for k in ("hdr", "unit") if k in exp}, o) or differ(exp, o)
    assert (d is None) == (mismatch(exp, o, "resolve") is None)
    if d:
        path = re.sub(r"\[\d+\]", "", d[0]) + ":" + d[1]
        what = "%s %s: at %s (%s) gimli reports %s, spec %s" % (
            mode, json.dumps(case["tag"]), d[0], d[1], json.dumps(d[3])[:300], json.dumps(d[2])[:300])
        if d[0].startswith(("resolve.attrs[", "resolve.probes[")):
            k = int(d[0].split("[")[1].split("]")[0])
            what += "; input " + (json.dumps(case["probes"][k]) if ".probes[" in d[0] else "root attribute %d" % k)
        if case["tag"].get("dup"):
            # DWARF forbids repeating an attribute in one entry: which copy wins is not part of the property
            ctx.drift.append({"where": "resolve.duplicate-attribute", "path": path, "tag": case["tag"]})
        else:
            ctx.violation("resolve:%s:%s:%s" % (mode, path, describe(case)), what, slim, o)
    else:
        err_drift(ctx, exp, o, "resolve")
    rm = ref_mismatch(o)
    if rm:
        ctx.violation("resolve:unitref-differs:%s" % rm.replace("[]", ""),
                      "a UnitRef wrapper reports something else than the Dwarf method at %s: %s" % (rm, json.dumps(o)[:500]), slim, o)
    if not is_err(exp.get("unit", {"err": 1})) and (case["tag"].get("n", 1) > 0 or case["probes"]):
        ctx.nontrivial(canon([mode, case["ft"], case["le"], case["secs"]["info"], case["secs"]["abbrev"],
                              case["secs"]["str_offsets"], case["secs"]["addr"], case["sup"],
                              case.get("parent", {}).get("info")]))
    if i % 1201 == 17 or (mode == "split" and i % 97 == 5):
        ctx.sample({"case": {k: v for k, v in case.items() if k != "probes"}, "obs": o}, limit=4)


def run(ctx):
    q = ctx.quick
    profiles = ["dev"] if q else ["dev", "release"]
    bins = {p: ctx.build("gvh-resolve", p) for p in profiles}
    res = ctx.tlc("MCResolve", write_cfg("MCResolve_run", {"Deep": "FALSE" if q else "TRUE", "MaxAttrs": 2 if q else 3}),
                  workers=min(4, ctx.workers), timeout=6000)
    corrupt = int(os.environ["X_RESOLVE_CORRUPT"]) if os.environ.get("X_RESOLVE_CORRUPT") else None
    # replay in chunks: the thorough tier has several hundred thousand cases
    chunks, out, n = [], None, 0
    for line in open(res.cases_path):
        if not line.strip():
            continue
        if n % CHUNK == 0:
            if out:
                out.close()
            chunks.append((os.path.join(ctx.work, "cases-%03d.ndjson" % len(chunks)), n))
            out = open(chunks[-1][0], "w")
        out.write(line)
        n += 1
    if out:
        out.close()
    os.remove(res.cases_path)
    for cpath, first in chunks:
        for prof in profiles:
            obs = ctx.replay(bins[prof], cpath, tag="resolve-" + prof)
            for j, case in enumerate(read_ndjson(cpath)):
                check_case(ctx, first + j, case, obs.get(j), corrupt)
            del obs
        os.remove(cpath)
    ctx.assumptions += [
        "the target is 64-bit (usize = u64): an index or offset is never rejected for not fitting a usize",
        "error kinds are compared as drift only (an expected error matches any gimli::Error)",
        "which copy of a repeated attribute wins is compared as drift only (DWARF forbids repeating an attribute)",
        "attribute parsing itself (parse_attribute) is the subject of C02/C03; here the decoded variant is only reported as `kind`",
        "the line program of a unit is observed through its offset, address size, directory(0) and file(0) over a fixed minimal DWARF 4 header",
        "the headers of .debug_str_offsets and .debug_addr are never parsed by gimli; the model only places them",
    ]
    ctx.finish("model_checking",
               rule="one case per state explored by TLC: (version, format, address size, file type, unit type, byte order, "
                    "supplementary file, root DIE) or (configuration, skeleton, split unit); non-trivial = Unit::new is "
                    "expected to succeed and the case resolves at least one attribute or probe",
               exhaustive=True)
