//! Shared plumbing for the conformance harness binaries (`gvh-<sys>`).
//!
//! This crate contains no DWARF semantics.  It moves cases and observations
//! between TLC and gimli's public API:
//!
//! * `replay`: one JSON case per line in, one JSON observation per line out,
//!   every case under `catch_unwind` (a panic is data, not a harness failure);
//! * `Rng`: a tiny seeded generator for the `record` drivers;
//! * helpers for the value conventions of DESIGN.md (little-endian byte
//!   tuples for anything that may exceed 31 bits).
pub mod interpose;
pub mod opjson;

use serde_json::{json, Value};
use std::io::{BufRead, BufReader, BufWriter, Write};
use std::panic::{catch_unwind, AssertUnwindSafe};

/// splitmix64 — deterministic, dependency-free.
#[derive(Clone)]
pub struct Rng(pub u64);

impl Rng {
    pub fn new(seed: u64) -> Self {
        Rng(seed ^ 0x9e37_79b9_7f4a_7c15)
    }
    pub fn next(&mut self) -> u64 {
        self.0 = self.0.wrapping_add(0x9e37_79b9_7f4a_7c15);
        let mut z = self.0;
        z = (z ^ (z >> 30)).wrapping_mul(0xbf58_476d_1ce4_e5b9);
        z = (z ^ (z >> 27)).wrapping_mul(0x94d0_49bb_1331_11eb);
        z ^ (z >> 31)
    }
    pub fn below(&mut self, n: u64) -> u64 {
        if n == 0 {
            0
        } else {
            self.next() % n
        }
    }
    pub fn range(&mut self, lo: u64, hi: u64) -> u64 {
        lo + self.below(hi - lo + 1)
    }
    pub fn chance(&mut self, num: u64, den: u64) -> bool {
        self.below(den) < num
    }
    pub fn pick<'a, T>(&mut self, xs: &'a [T]) -> &'a T {
        &xs[self.below(xs.len() as u64) as usize]
    }
    /// A 64-bit value biased towards boundaries.
    pub fn boundary64(&mut self) -> u64 {
        const B: [u64; 22] = [
            0,
            1,
            2,
            0x3f,
            0x40,
            0x7f,
            0x80,
            0xff,
            0x100,
            0x7fff,
            0x8000,
            0xffff,
            0x1_0000,
            0x7fff_ffff,
            0x8000_0000,
            0xffff_ffff,
            0x1_0000_0000,
            0x7fff_ffff_ffff_ffff,
            0x8000_0000_0000_0000,
            0xffff_ffff_ffff_fffe,
            0xffff_ffff_ffff_ffff,
            0x2000_0000_0000_0000,
        ];
        match self.below(5) {
            // LEB128 size boundaries: +-2^(7k-1) and 2^(7k), each -1/0/+1
            4 => {
                let k = self.range(1, 9) as u32;
                let base = if self.chance(1, 2) { 1u64 << (7 * k - 1) } else { 1u64 << (7 * k) };
                let v = base.wrapping_add(self.below(3)).wrapping_sub(1);
                if self.chance(1, 2) { v } else { v.wrapping_neg() }
            }
            0 => *self.pick(&B),
            1 => self.pick(&B).wrapping_add(self.below(5)).wrapping_sub(2),
            2 => self.next() >> self.below(64),
            _ => self.next(),
        }
    }
}

/// `v` as a little-endian byte tuple of width `n`.
pub fn bv(v: u64, n: usize) -> Value {
    Value::Array(
        v.to_le_bytes()[..n.min(8)]
            .iter()
            .map(|b| json!(*b))
            .collect(),
    )
}

pub fn bv128(v: u128, n: usize) -> Value {
    Value::Array(v.to_le_bytes()[..n.min(16)].iter().map(|b| json!(*b)).collect())
}

/// Parse a little-endian byte tuple (any width ≤ 8) to u64.
pub fn unbv(v: &Value) -> u64 {
    let mut r = 0u64;
    if let Some(a) = v.as_array() {
        for (i, b) in a.iter().enumerate().take(8) {
            r |= (b.as_u64().unwrap_or(0) & 0xff) << (8 * i);
        }
    }
    r
}

pub fn bytes_of(v: &Value) -> Vec<u8> {
    v.as_array()
        .map(|a| a.iter().map(|b| b.as_u64().unwrap_or(0) as u8).collect())
        .unwrap_or_default()
}

pub fn bytes_json(b: &[u8]) -> Value {
    Value::Array(b.iter().map(|x| json!(*x)).collect())
}

pub fn err_name(e: &gimli::Error) -> String {
    // `Debug` of the variant without payload.
    let s = format!("{:?}", e);
    s.split(|c: char| c == '(' || c == ' ' || c == '{')
        .next()
        .unwrap_or("")
        .to_string()
}

pub fn panic_msg(p: Box<dyn std::any::Any + Send>) -> String {
    if let Some(s) = p.downcast_ref::<&str>() {
        s.to_string()
    } else if let Some(s) = p.downcast_ref::<String>() {
        s.clone()
    } else {
        "<non-string panic>".to_string()
    }
}

thread_local! {
    static LAST_PANIC_LOC: std::cell::RefCell<String> = const { std::cell::RefCell::new(String::new()) };
}

pub fn install_quiet_hook() {
    std::panic::set_hook(Box::new(|info| {
        let loc = info
            .location()
            .map(|l| format!("{}:{}", l.file(), l.line()))
            .unwrap_or_default();
        LAST_PANIC_LOC.with(|c| *c.borrow_mut() = loc);
    }));
}

/// Run `f` under `catch_unwind`; a panic becomes `{"outcome":"panic",...}`.
pub fn guarded<F: FnOnce() -> Value>(f: F) -> Value {
    match catch_unwind(AssertUnwindSafe(f)) {
        Ok(v) => v,
        Err(p) => {
            let loc = LAST_PANIC_LOC.with(|c| c.borrow().clone());
            let loc = loc
                .rsplit_once("/src/")
                .map(|(_, b)| format!("src/{}", b))
                .unwrap_or(loc);
            json!({"outcome":"panic","msg":panic_msg(p),"loc":loc})
        }
    }
}

/// `gvh-<sys> replay <cases> <obs> [skip]`
///
/// Reads one case per line, writes `{"id":..,"obs":..}` per line and flushes
/// after every case so that the driver can attribute an abort or a hang to
/// the case that caused it and restart after it.
pub fn replay_main<F: FnMut(&Value) -> Value>(args: &[String], mut f: F) {
    install_quiet_hook();
    let cases = &args[0];
    let obs = &args[1];
    let skip: usize = args.get(2).and_then(|s| s.parse().ok()).unwrap_or(0);
    let rd = BufReader::new(std::fs::File::open(cases).expect("open cases"));
    let out = std::fs::OpenOptions::new()
        .create(true)
        .append(true)
        .open(obs)
        .expect("open obs");
    let mut out = BufWriter::new(out);
    for (i, line) in rd.lines().enumerate() {
        if i < skip {
            continue;
        }
        let line = line.expect("read");
        if line.trim().is_empty() {
            continue;
        }
        let case: Value = serde_json::from_str(&line).expect("case json");
        // Announce the case before running it: an abort leaves this as the last line.
        writeln!(out, "{{\"start\":{}}}", i).unwrap();
        out.flush().unwrap();
        let o = guarded(|| f(&case));
        let id = case.get("id").cloned().unwrap_or(json!(i));
        writeln!(out, "{}", json!({"i":i,"id":id,"obs":o})).unwrap();
        out.flush().unwrap();
    }
}

pub fn write_lines(path: &str, lines: &[Value]) {
    let mut out = BufWriter::new(std::fs::File::create(path).expect("create"));
    for l in lines {
        writeln!(out, "{}", l).unwrap();
    }
}

pub struct Args(pub Vec<String>);
impl Args {
    pub fn opt(&self, name: &str) -> Option<&str> {
        self.0
            .iter()
            .position(|a| a == name)
            .and_then(|i| self.0.get(i + 1))
            .map(|s| s.as_str())
    }
    pub fn num(&self, name: &str, d: u64) -> u64 {
        self.opt(name).and_then(|s| s.parse().ok()).unwrap_or(d)
    }
}

/// Standard entry: `replay <cases> <obs> [skip]` or `record <out> --seed S --n N ...`.
pub fn main_with<F, G>(replay: F, record: G)
where
    F: FnMut(&Value) -> Value,
    G: FnOnce(&str, &Args),
{
    let argv: Vec<String> = std::env::args().skip(1).collect();
    match argv.first().map(|s| s.as_str()) {
        Some("replay") => replay_main(&argv[1..], replay),
        Some("record") => {
            install_quiet_hook();
            record(&argv[1], &Args(argv[2..].to_vec()))
        }
        _ => {
            eprintln!("usage: replay <cases> <obs> [skip] | record <out> [--seed S --n N]");
            std::process::exit(2)
        }
    }
}
