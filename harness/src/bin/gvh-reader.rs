//! C10 driver: executes Reader operation scripts on every reader kind and
//! reports what gimli did.  No expectations live here.
//!
//! Kinds: EndianSlice, EndianRcSlice, EndianArcSlice, EndianReader over a custom
//! `CloneStableDeref` buffer (which scribbles over its bytes when freed and counts
//! frees), RelocateReader<EndianSlice> and RelocateReader<EndianRcSlice> with an
//! identity `Relocate`.
//!
//! replay: a case is {buf, le, mh, prefix:[op..], probes:[{o:op,..}..]}; for every
//! probe the prefix is re-run on a fresh buffer and the probe applied; reported are
//! the result, the projection of every handle
//! `[offset_from(section), len, bytes, ptr-of-to_slice relative to the buffer,
//!   section.lookup_offset_id(offset_id()), borrowed?]`
//! and the buffer reference count.  Observations that are identical for all kinds
//! are written once (`{"all":..}`), otherwise per kind (`{"by":{kind:..}}`).
//!
//! record: seeded random histories per kind as ndjson events for ReaderTrace.tla,
//! plus whole-section parses of a generated DWARF unit under every kind.
use gimli::{
    CloneStableDeref, EndianReader, EndianSlice, Error, Format, Reader, Relocate, RelocateReader,
    RunTimeEndian, StableDeref,
};
use gvh::*;
use serde_json::{json, Value};
use std::borrow::Cow;
use std::cell::Cell;
use std::fmt::Debug;
use std::ops::Deref;
use std::panic::{catch_unwind, AssertUnwindSafe};
use std::rc::Rc;
use std::sync::Arc;

fn endian(le: bool) -> RunTimeEndian {
    if le {
        RunTimeEndian::Little
    } else {
        RunTimeEndian::Big
    }
}

// ------------------------------------------------------------ custom buffer
#[derive(Debug)]
struct Inner {
    data: Vec<u8>,
    freed: Rc<Cell<usize>>,
}
impl Drop for Inner {
    fn drop(&mut self) {
        // a reader that outlived the buffer would now see 0xDD bytes
        for b in self.data.iter_mut() {
            *b = 0xdd;
        }
        self.freed.set(self.freed.get() + 1);
    }
}
#[derive(Debug, Clone)]
struct Shared(Rc<Inner>);
impl Deref for Shared {
    type Target = [u8];
    fn deref(&self) -> &[u8] {
        &self.0.data
    }
}
unsafe impl StableDeref for Shared {}
unsafe impl CloneStableDeref for Shared {}

#[derive(Debug, Clone, Copy)]
struct Ident;
impl Relocate<usize> for Ident {
    fn relocate_address(&self, _offset: usize, value: u64) -> gimli::Result<u64> {
        Ok(value)
    }
    fn relocate_offset(&self, _offset: usize, value: usize) -> gimli::Result<usize> {
        Ok(value)
    }
}

// --------------------------------------------- kind-specific inherent methods
trait KindExt: Reader<Offset = usize> {
    fn x_range(&self, _a: usize, _b: usize) -> Option<Self> {
        None
    }
    fn x_range_from(&self, _a: usize) -> Option<Self> {
        None
    }
    fn x_range_to(&self, _a: usize) -> Option<Self> {
        None
    }
}
impl<'a> KindExt for EndianSlice<'a, RunTimeEndian> {
    fn x_range(&self, a: usize, b: usize) -> Option<Self> {
        Some(self.range(a..b))
    }
    fn x_range_from(&self, a: usize) -> Option<Self> {
        Some(self.range_from(a..))
    }
    fn x_range_to(&self, a: usize) -> Option<Self> {
        Some(self.range_to(..a))
    }
}
impl<T: CloneStableDeref<Target = [u8]> + Debug> KindExt for EndianReader<RunTimeEndian, T> {
    fn x_range(&self, a: usize, b: usize) -> Option<Self> {
        Some(self.range(a..b))
    }
    fn x_range_from(&self, a: usize) -> Option<Self> {
        Some(self.range_from(a..))
    }
    fn x_range_to(&self, a: usize) -> Option<Self> {
        Some(self.range_to(..a))
    }
}
impl<R: KindExt> KindExt for RelocateReader<R, Ident> {}

const KINDS: [&str; 6] = [
    "EndianSlice",
    "EndianRcSlice",
    "EndianArcSlice",
    "EndianReaderCustom",
    "RelocateSlice",
    "RelocateRc",
];

trait Job {
    fn run<R: KindExt>(&mut self, root: R, base: usize, blen: usize, refs: &dyn Fn() -> Option<usize>) -> Value;
}

fn norm(raw: usize, factor: usize) -> usize {
    if raw % factor == 0 {
        raw / factor
    } else {
        900_000 + raw
    }
}

/// Build the reader of the given kind over a fresh copy of `data`, run the job (which
/// owns and finally drops every reader), then report `[refs left, buffer freed]`.
fn with_kind<J: Job>(kind: usize, data: &[u8], le: bool, job: &mut J) -> (Value, Value) {
    let en = endian(le);
    let blen = data.len();
    match kind {
        0 => {
            let v = job.run(EndianSlice::new(data, en), data.as_ptr() as usize, blen, &|| None);
            (v, Value::Null)
        }
        4 => {
            let r = RelocateReader::new(EndianSlice::new(data, en), Ident);
            let v = job.run(r, data.as_ptr() as usize, blen, &|| None);
            (v, Value::Null)
        }
        1 | 5 => {
            let rc: Rc<[u8]> = Rc::from(data);
            let base = rc.as_ptr() as usize;
            let extra = rc.clone();
            let f = if kind == 5 { 2 } else { 1 };
            let refs = || Some(norm(Rc::strong_count(&extra) - 1, f));
            let v = if kind == 1 {
                job.run(EndianReader::new(rc, en), base, blen, &refs)
            } else {
                job.run(RelocateReader::new(EndianReader::new(rc, en), Ident), base, blen, &refs)
            };
            let left = Rc::strong_count(&extra) - 1;
            let weak = Rc::downgrade(&extra);
            drop(extra);
            (v, json!([left, weak.upgrade().is_none() as usize]))
        }
        2 => {
            let rc: Arc<[u8]> = Arc::from(data);
            let base = rc.as_ptr() as usize;
            let extra = rc.clone();
            let refs = || Some(Arc::strong_count(&extra) - 1);
            let v = job.run(EndianReader::new(rc, en), base, blen, &refs);
            let left = Arc::strong_count(&extra) - 1;
            let weak = Arc::downgrade(&extra);
            drop(extra);
            (v, json!([left, weak.upgrade().is_none() as usize]))
        }
        _ => {
            let freed = Rc::new(Cell::new(0usize));
            let sh = Shared(Rc::new(Inner {
                data: data.to_vec(),
                freed: freed.clone(),
            }));
            let base = sh.as_ptr() as usize;
            let extra = sh.clone();
            let fr = freed.clone();
            // while any reader is alive the buffer must not have been freed
            let refs = || Some(Rc::strong_count(&extra.0) - 1 + 1000 * fr.get());
            let v = job.run(EndianReader::new(sh, en), base, blen, &refs);
            let left = Rc::strong_count(&extra.0) - 1;
            drop(extra);
            (v, json!([left, freed.get()]))
        }
    }
}

// ----------------------------------------------------------------- session
/// Native observation types (converted to JSON once, after the kinds were compared).
#[derive(Clone, PartialEq, Debug)]
struct P {
    off: i64, // -1 outside the buffer, -2 offset_from panicked
    len: usize,
    bytes: Vec<u8>,
    ptr: i64,   // -1 outside the buffer / owned
    idpos: i64, // -1 = None
    borrowed: bool,
}
#[derive(Clone, PartialEq, Debug)]
enum Res {
    Null,
    Unit,
    Val(u64),
    Bytes(Vec<u8>),
    N(usize),
    Dst(usize),
    Lossy,
    NoneR,
    Eof(i64),
    Err(String),
    Panic(String),
    NA,
    Bad,
}

fn bj(x: &[u8], compact: bool) -> Value {
    if compact {
        cbytes(x)
    } else {
        bytes_json(x)
    }
}
fn opt(i: i64) -> Value {
    if i == -1 {
        Value::Null
    } else {
        json!(i)
    }
}
impl P {
    fn json(&self, compact: bool) -> Value {
        if compact {
            // trace format: integers only (-1 = None / outside, -2 = panic)
            return json!([self.off, self.len, cbytes(&self.bytes), self.ptr, self.idpos, self.borrowed]);
        }
        let off = if self.off == -2 { json!({"k":"panic"}) } else { json!(self.off) };
        json!([off, self.len, bytes_json(&self.bytes), self.ptr, opt(self.idpos), self.borrowed])
    }
}
fn pj(p: &Option<P>, compact: bool) -> Value {
    match p {
        Some(p) => p.json(compact),
        None => json!([]),
    }
}
impl Res {
    fn json(&self, compact: bool) -> Value {
        match self {
            Res::Null => Value::Null,
            Res::Unit => json!({"k":"ok"}),
            Res::Val(v) => json!({"k":"ok","v":bv(*v, 8)}),
            Res::Bytes(b) => json!({"k":"ok","bytes":bj(b, compact)}),
            Res::N(n) => json!({"k":"ok","n":n}),
            Res::Dst(d) => json!({"k":"ok","dst":d}),
            Res::Lossy => json!({"k":"ok","lossy":true}),
            Res::NoneR => json!({"k":"none"}),
            Res::Eof(at) if compact => json!({"k":"err","e":"UnexpectedEof","at":at}),
            Res::Eof(at) => json!({"k":"err","e":"UnexpectedEof","at":opt(*at)}),
            Res::Err(e) => json!({"k":"err","e":e}),
            Res::Panic(loc) => json!({"k":"panic","loc":loc}),
            Res::NA => json!({"k":"n/a"}),
            Res::Bad => json!({"k":"bad-op"}),
        }
    }
}

struct Sess<'r, R: KindExt> {
    root: R,
    base: usize,
    blen: usize,
    hs: Vec<Option<R>>,
    refs: &'r dyn Fn() -> Option<usize>,
}

fn rel(p: usize, base: usize, blen: usize) -> i64 {
    let d = p.wrapping_sub(base);
    if d <= blen {
        d as i64
    } else {
        -1
    }
}

fn panic_loc() -> String {
    // `guarded` formats the location recorded by the quiet panic hook
    let v = guarded(|| -> Value { std::panic::resume_unwind(Box::new("x")) });
    v["loc"].as_str().unwrap_or("").to_string()
}

impl<'r, R: KindExt> Sess<'r, R> {
    fn new(root: R, base: usize, blen: usize, mh: usize, refs: &'r dyn Fn() -> Option<usize>) -> Self {
        let mut hs: Vec<Option<R>> = (0..=mh).map(|_| None).collect();
        hs[1] = Some(root.clone());
        Sess { root, base, blen, hs, refs }
    }

    fn err(&self, e: Error) -> Res {
        match e {
            Error::UnexpectedEof(id) => {
                Res::Eof(self.root.lookup_offset_id(id).map(|x| x as i64).unwrap_or(-1))
            }
            e => Res::Err(err_name(&e)),
        }
    }

    fn proj1(&self, r: &R) -> P {
        let len = r.len();
        let (bytes, ptr, borrowed) = match r.to_slice() {
            Ok(Cow::Borrowed(s)) => (s.to_vec(), rel(s.as_ptr() as usize, self.base, self.blen), true),
            Ok(Cow::Owned(v)) => (v, -1, false),
            Err(_) => (Vec::new(), -1, false),
        };
        let root = &self.root;
        let blen = self.blen;
        let off = match catch_unwind(AssertUnwindSafe(|| r.offset_from(root))) {
            Ok(o) if o <= blen => o as i64,
            Ok(_) => -1,
            Err(_) => -2,
        };
        let idpos = root.lookup_offset_id(r.offset_id()).map(|x| x as i64).unwrap_or(-1);
        P { off, len, bytes, ptr, idpos, borrowed }
    }

    fn proj(&self, h: usize) -> Option<P> {
        self.hs.get(h).and_then(|x| x.as_ref()).map(|r| self.proj1(r))
    }

    fn proj_all(&self) -> Vec<Option<P>> {
        (1..self.hs.len()).map(|h| self.proj(h)).collect()
    }

    fn val(&self, r: gimli::Result<u64>) -> Res {
        match r {
            Ok(v) => Res::Val(v),
            Err(e) => self.err(e),
        }
    }

    fn unit(&self, r: gimli::Result<()>) -> Res {
        match r {
            Ok(()) => Res::Unit,
            Err(e) => self.err(e),
        }
    }

    fn store(&mut self, d: usize, r: gimli::Result<R>) -> Res {
        match r {
            Ok(x) => {
                self.hs[d] = Some(x);
                Res::Dst(d)
            }
            Err(e) => self.err(e),
        }
    }

    fn op(&mut self, o: &Value) -> Res {
        let name = o[0].as_str().unwrap_or("");
        let h = o[1].as_u64().unwrap_or(0) as usize;
        let a = o[2].as_u64().unwrap_or(0) as usize;
        let b = o[3].as_u64().unwrap_or(0) as usize;
        let d = o[4].as_u64().unwrap_or(0) as usize;
        match catch_unwind(AssertUnwindSafe(|| self.op_inner(name, h, a, b, d))) {
            Ok(r) => r,
            Err(_) => Res::Panic(panic_loc()),
        }
    }

    fn base_reader(&self, g: usize) -> R {
        if g == 0 {
            self.root.clone()
        } else {
            self.hs[g].as_ref().expect("base handle").clone()
        }
    }

    fn op_inner(&mut self, name: &str, h: usize, a: usize, b: usize, d: usize) -> Res {
        if name == "clone" {
            let c = self.base_reader(h);
            return self.store(d, Ok(c));
        }
        if name == "drop" {
            self.hs[h] = None;
            return Res::Unit;
        }
        if name == "offset_from" || name == "id_lookup" {
            let g = self.base_reader(a);
            let r = self.hs[h].as_ref().expect("live handle");
            return if name == "offset_from" {
                Res::N(r.offset_from(&g))
            } else {
                match g.lookup_offset_id(r.offset_id()) {
                    Some(n) => Res::N(n),
                    None => Res::NoneR,
                }
            };
        }
        let mut r = self.hs[h].take().expect("live handle");
        // put the reader back even if the operation panics half-way
        let out = catch_unwind(AssertUnwindSafe(|| -> (Res, Option<gimli::Result<R>>) {
            match name {
                "read_u8" => (self.val(r.read_u8().map(u64::from)), None),
                "read_uint" => (self.val(r.read_uint(a)), None),
                "read_address" => (self.val(r.read_address(a as u8)), None),
                "read_offset" => {
                    let f = if a == 8 { Format::Dwarf64 } else { Format::Dwarf32 };
                    (self.val(r.read_offset(f).map(|x| x as u64)), None)
                }
                "read_sized_offset" => (self.val(r.read_sized_offset(a as u8).map(|x| x as u64)), None),
                "read_slice" => {
                    let mut buf = vec![0u8; a.min(1 << 20)];
                    let v = match r.read_slice(&mut buf) {
                        Ok(()) => Res::Bytes(buf),
                        Err(e) => self.err(e),
                    };
                    (v, None)
                }
                "skip" => (self.unit(r.skip(a)), None),
                "truncate" => (self.unit(r.truncate(a)), None),
                "empty" => {
                    r.empty();
                    (Res::Unit, None)
                }
                "split" => (Res::Null, Some(r.split(a))),
                "read_cstr" => (Res::Null, Some(r.read_null_terminated_slice())),
                "find" => (
                    match r.find(a as u8) {
                        Ok(n) => Res::N(n),
                        Err(e) => self.err(e),
                    },
                    None,
                ),
                "to_slice" => (
                    match r.to_slice() {
                        Ok(s) => Res::Bytes(s.to_vec()),
                        Err(e) => self.err(e),
                    },
                    None,
                ),
                "to_string" => (
                    match r.to_string() {
                        Ok(s) => Res::Bytes(s.as_bytes().to_vec()),
                        Err(e) => self.err(e),
                    },
                    None,
                ),
                "to_string_lossy" => (
                    match r.to_string_lossy() {
                        Ok(Cow::Borrowed(s)) => Res::Bytes(s.as_bytes().to_vec()),
                        Ok(Cow::Owned(_)) => Res::Lossy,
                        Err(e) => self.err(e),
                    },
                    None,
                ),
                "range" => match r.x_range(a, b) {
                    Some(x) => (Res::Null, Some(Ok(x))),
                    None => (Res::NA, None),
                },
                "range_from" => match r.x_range_from(a) {
                    Some(x) => (Res::Null, Some(Ok(x))),
                    None => (Res::NA, None),
                },
                "range_to" => match r.x_range_to(a) {
                    Some(x) => (Res::Null, Some(Ok(x))),
                    None => (Res::NA, None),
                },
                _ => (Res::Bad, None),
            }
        }));
        self.hs[h] = Some(r);
        match out {
            Ok((v, None)) => v,
            Ok((_, Some(nr))) => self.store(d, nr),
            Err(p) => std::panic::resume_unwind(p),
        }
    }
}

/// `[len, head, tail]`: whole string if short, else the first and last 16 bytes.
fn cbytes(x: &[u8]) -> Value {
    if x.len() <= 48 {
        json!([x.len(), bytes_json(x), []])
    } else {
        json!([x.len(), bytes_json(&x[..16]), bytes_json(&x[x.len() - 16..])])
    }
}

// ------------------------------------------------------------------ replay
#[derive(Clone, PartialEq)]
struct Core {
    r: Res,
    p: Vec<Option<P>>,
}
struct ProbeJob<'c> {
    mh: usize,
    prefix: &'c [Value],
    probe: Option<&'c Value>,
    core: Option<Core>,
    refs: Option<usize>,
}
impl<'c> Job for ProbeJob<'c> {
    fn run<R: KindExt>(&mut self, root: R, base: usize, blen: usize, refs: &dyn Fn() -> Option<usize>) -> Value {
        let mut s = Sess::new(root, base, blen, self.mh, refs);
        for o in self.prefix {
            let _ = s.op(o);
        }
        let r = match self.probe {
            Some(p) => s.op(&p["o"]),
            None => Res::Null,
        };
        self.core = Some(Core { r, p: s.proj_all() });
        self.refs = (s.refs)();
        Value::Null
    }
}

/// result + the projections of the handles that differ from `pre` (the state this
/// kind showed after the history); a pure re-encoding of the full post-projection.
fn core_json(c: &Core, pre: Option<&Core>) -> Value {
    match pre {
        None => json!({"r": c.r.json(false), "p": c.p.iter().map(|p| pj(p, false)).collect::<Vec<_>>()}),
        Some(pre) => {
            let d: Vec<Value> = (0..c.p.len())
                .filter(|i| c.p[*i] != pre.p[*i])
                .map(|i| json!([i + 1, pj(&c.p[i], false)]))
                .collect();
            json!({"r": c.r.json(false), "d": d})
        }
    }
}

type Aux = Option<(usize, Value)>;

fn exec_all(data: &[u8], le: bool, mh: usize, prefix: &[Value], probe: Option<&Value>) -> (Vec<Core>, Vec<Aux>) {
    let mut core: Vec<Core> = Vec::new();
    let mut aux: Vec<Aux> = Vec::new();
    for k in 0..KINDS.len() {
        let mut job = ProbeJob { mh, prefix, probe, core: None, refs: None };
        let (_, td) = with_kind(k, data, le, &mut job);
        core.push(job.core.take().unwrap());
        aux.push(job.refs.map(|r| (r, td)));
    }
    (core, aux)
}

fn pack(core: &[Core], aux: &[Aux], pre: Option<&Vec<Core>>) -> Value {
    let live: Vec<usize> = (0..KINDS.len()).filter(|k| core[*k].r != Res::NA).collect();
    let na: Vec<&str> = (0..KINDS.len()).filter(|k| core[*k].r == Res::NA).map(|k| KINDS[k]).collect();
    let rc: Vec<usize> = (0..KINDS.len()).filter(|k| aux[*k].is_some()).collect();
    let cjs: Vec<Value> = live.iter().map(|k| core_json(&core[*k], pre.map(|p| &p[*k]))).collect();
    let cj = if cjs.windows(2).all(|w| w[0] == w[1]) {
        json!({"all": cjs[0]})
    } else {
        let mut m = serde_json::Map::new();
        for (i, k) in live.iter().enumerate() {
            m.insert(KINDS[*k].to_string(), cjs[i].clone());
        }
        json!({ "by": m })
    };
    let auxj = |k: usize| {
        let (r, td) = aux[k].as_ref().unwrap();
        json!([r, td])
    };
    let aj = if rc.windows(2).all(|w| aux[w[0]] == aux[w[1]]) {
        json!({"all": auxj(rc[0])})
    } else {
        let mut m = serde_json::Map::new();
        for k in &rc {
            m.insert(KINDS[*k].to_string(), auxj(*k));
        }
        json!({ "by": m })
    };
    if na.is_empty() {
        json!({"c": cj, "x": aj})
    } else {
        json!({"c": cj, "x": aj, "na": na})
    }
}

// ------------------------------------------------ Dwarf-level section identity
/// Every section reader reachable through a public field / accessor of `Dwarf`.
/// The pattern is exhaustive on purpose: a new field of `gimli::Dwarf` breaks the build
/// of this harness instead of being silently left out.
fn sections_of<R: Reader<Offset = usize>>(d: &gimli::Dwarf<R>) -> Vec<(gimli::SectionId, &R)> {
    fn s<R: Reader, S: gimli::Section<R>>(x: &S) -> (gimli::SectionId, &R) {
        (S::id(), x.reader())
    }
    let gimli::Dwarf {
        debug_abbrev,
        debug_addr,
        debug_aranges,
        debug_info,
        debug_line,
        debug_line_str,
        debug_macinfo,
        debug_macro,
        debug_names,
        debug_str,
        debug_str_offsets,
        debug_types,
        locations: _, // LocationLists has no section accessors: observed through offset ids
        ranges,
        file_type: _,
        sup: _,
        abbreviations_cache: _,
    } = d;
    vec![
        s(debug_abbrev),
        s(debug_addr),
        s(debug_aranges),
        s(debug_info),
        s(debug_line),
        s(debug_line_str),
        s(debug_macinfo),
        s(debug_macro),
        s(debug_names),
        s(debug_str),
        s(debug_str_offsets),
        s(debug_types),
        s(ranges.debug_ranges()),
        s(ranges.debug_rnglists()),
    ]
}

type Table = Vec<(String, Vec<u8>)>;
fn table(v: &Value) -> Table {
    v.as_array()
        .map(|a| a.iter().map(|e| (e[0].as_str().unwrap_or("").to_string(), bytes_of(&e[1]))).collect())
        .unwrap_or_default()
}
fn content(t: &Table, id: gimli::SectionId) -> Vec<u8> {
    t.iter().find(|e| e.0 == id.name()).map(|e| e.1.clone()).unwrap_or_default()
}

/// What the Dwarf under test shows: its section views relative to the owner's memory, and
/// for every probe (file, section, k) the result of `lookup_offset_id` / `format_error`
/// for the offset id `mkid` makes at offset k of the OWNER's bytes of that section.
fn observe_dwarf<R: Reader<Offset = usize>>(
    d: &gimli::Dwarf<R>,
    owner: &dyn Fn(bool, &str) -> Option<(usize, usize)>,
    mkid: &dyn Fn(bool, &str, usize) -> Option<gimli::ReaderOffsetId>,
    probes: &[Value],
) -> (Vec<Value>, Vec<Value>) {
    let mut views = Vec::new();
    let files: Vec<(bool, &gimli::Dwarf<R>)> =
        std::iter::once((false, d)).chain(d.sup().map(|x| (true, x))).collect();
    for (is_sup, dw) in files {
        for (id, r) in sections_of(dw) {
            let (bytes, ptr, borrowed) = match r.to_slice() {
                Ok(Cow::Borrowed(sl)) => {
                    let p = match owner(is_sup, id.name()) {
                        Some((base, len)) => rel(sl.as_ptr() as usize, base, len),
                        None => -3,
                    };
                    (sl.to_vec(), p, true)
                }
                Ok(Cow::Owned(v)) => (v, -1, false),
                Err(_) => (Vec::new(), -2, false),
            };
            views.push(json!({"sup": is_sup, "sec": id.name(), "bytes": bytes_json(&bytes), "ptr": ptr,
                              "borrowed": borrowed}));
        }
    }
    let mut out = Vec::new();
    for p in probes {
        let is_sup = p["sup"].as_bool().unwrap_or(false);
        let sec = p["sec"].as_str().unwrap_or("");
        let k = p["k"].as_u64().unwrap_or(0) as usize;
        let (res, fmt) = match mkid(is_sup, sec, k) {
            Some(id) => {
                let res = match d.lookup_offset_id(id) {
                    Some((sf, sid, off)) => json!([sf, sid.name(), off]),
                    None => json!([]),
                };
                let err = Error::UnexpectedEof(id);
                let plain = format!("{}", err);
                let full = d.format_error(err);
                (res, full.strip_prefix(&plain).unwrap_or(&full).to_string())
            }
            None => (json!("borrow-closure-never-received-this-owner-section"), String::new()),
        };
        out.push(json!({"sup": is_sup, "sec": sec, "k": k, "res": res, "fmt": fmt}));
    }
    (views, out)
}

#[allow(deprecated)]
fn dwarf_case(case: &Value) -> Value {
    use gimli::{DebugLoc, DebugLocLists, DebugRanges, DebugRngLists, LocationLists, RangeLists};
    let how = case["how"].as_str().unwrap_or("");
    let main = table(&case["main"]);
    let sup = table(&case["sup"]);
    let empty = Vec::new();
    let probes = case["probes"].as_array().unwrap_or(&empty);
    let en = RunTimeEndian::Little;
    let mut loaded: Vec<&'static str> = Vec::new();
    // owner memory by content (contents are distinct per section and file)
    let find = |seen: &Vec<&[u8]>, is_sup: bool, sec: &str| -> Option<(usize, usize)> {
        let t = if is_sup { &sup } else { &main };
        let want = &t.iter().find(|e| e.0 == sec)?.1;
        seen.iter().find(|s| **s == &want[..]).map(|s| (s.as_ptr() as usize, s.len()))
    };
    let slice_id = |seen: &Vec<&[u8]>, is_sup: bool, sec: &str, k: usize| -> Option<gimli::ReaderOffsetId> {
        let t = if is_sup { &sup } else { &main };
        let want = &t.iter().find(|e| e.0 == sec)?.1;
        let s = seen.iter().find(|s| **s == &want[..])?;
        if k > s.len() {
            return None;
        }
        Some(EndianSlice::new(&s[k..], en).offset_id())
    };
    macro_rules! via_owned_dwarf {
        ($mk:expr, $ty:ty) => {{
            let mut owner: gimli::Dwarf<$ty> = gimli::Dwarf::load(|id| -> Result<$ty, ()> {
                loaded.push(id.name());
                Ok($mk(content(&main, id)))
            })
            .unwrap();
            owner.load_sup(|id| -> Result<$ty, ()> { Ok($mk(content(&sup, id))) }).unwrap();
            let mut seen: Vec<&[u8]> = Vec::new();
            let d = owner.borrow(|v| {
                seen.push(&v[..]);
                EndianSlice::new(&v[..], en)
            });
            observe_dwarf(&d, &|f, s| find(&seen, f, s), &|f, s, k| slice_id(&seen, f, s, k), probes)
        }};
    }
    let (views, pout) = match how {
        "Dwarf<Vec>::borrow" => via_owned_dwarf!(|v: Vec<u8>| v, Vec<u8>),
        "Dwarf<Rc>::borrow" => via_owned_dwarf!(|v: Vec<u8>| -> Rc<[u8]> { Rc::from(v) }, Rc<[u8]>),
        "Dwarf<Arc>::borrow" => via_owned_dwarf!(|v: Vec<u8>| -> Arc<[u8]> { Arc::from(v) }, Arc<[u8]>),
        "DwarfSections::borrow_with_sup" => {
            let ms: gimli::DwarfSections<Vec<u8>> = gimli::DwarfSections::load(|id| -> Result<Vec<u8>, ()> {
                loaded.push(id.name());
                Ok(content(&main, id))
            })
            .unwrap();
            let ss: gimli::DwarfSections<Vec<u8>> =
                gimli::DwarfSections::load(|id| -> Result<Vec<u8>, ()> { Ok(content(&sup, id)) }).unwrap();
            let mut seen: Vec<&[u8]> = Vec::new();
            let d = ms.borrow_with_sup(Some(&ss), |v| {
                seen.push(&v[..]);
                EndianSlice::new(&v[..], en)
            });
            observe_dwarf(&d, &|f, s| find(&seen, f, s), &|f, s, k| slice_id(&seen, f, s, k), probes)
        }
        "Dwarf<EndianRcSlice>::load" => {
            let mut keep: Vec<Rc<[u8]>> = Vec::new();
            let mut d: gimli::Dwarf<gimli::EndianRcSlice<RunTimeEndian>> =
                gimli::Dwarf::load(|id| -> Result<_, ()> {
                    loaded.push(id.name());
                    let rc: Rc<[u8]> = Rc::from(content(&main, id));
                    keep.push(rc.clone());
                    Ok(EndianReader::new(rc, en))
                })
                .unwrap();
            d.load_sup(|id| -> Result<_, ()> {
                let rc: Rc<[u8]> = Rc::from(content(&sup, id));
                keep.push(rc.clone());
                Ok(EndianReader::new(rc, en))
            })
            .unwrap();
            let seen: Vec<&[u8]> = keep.iter().map(|r| &r[..]).collect();
            let rc_id = |is_sup: bool, sec: &str, k: usize| -> Option<gimli::ReaderOffsetId> {
                let t = if is_sup { &sup } else { &main };
                let want = &t.iter().find(|e| e.0 == sec)?.1;
                let rc = keep.iter().find(|r| &r[..] == &want[..])?;
                if k > rc.len() {
                    return None;
                }
                Some(EndianReader::new(rc.clone(), en).range_from(k..).offset_id())
            };
            observe_dwarf(&d, &|f, s| find(&seen, f, s), &rc_id, probes)
        }
        "Lists::borrow" => {
            let get = |n: &str| main.iter().find(|e| e.0 == n).map(|e| e.1.clone()).unwrap_or_default();
            let ll = LocationLists::new(DebugLoc::from(get(".debug_loc")), DebugLocLists::from(get(".debug_loclists")));
            let rl = RangeLists::new(DebugRanges::from(get(".debug_ranges")), DebugRngLists::from(get(".debug_rnglists")));
            loaded.extend([".debug_loc", ".debug_loclists", ".debug_ranges", ".debug_rnglists"]);
            let mut seen: Vec<&[u8]> = Vec::new();
            let mut d: gimli::Dwarf<EndianSlice<RunTimeEndian>> = gimli::Dwarf::default();
            d.locations = ll.borrow(|v| {
                seen.push(&v[..]);
                EndianSlice::new(&v[..], en)
            });
            d.ranges = rl.borrow(|v| {
                seen.push(&v[..]);
                EndianSlice::new(&v[..], en)
            });
            observe_dwarf(&d, &|f, s| find(&seen, f, s), &|f, s, k| slice_id(&seen, f, s, k), probes)
        }
        _ => (vec![json!("bad-how")], Vec::new()),
    };
    json!({"loaded": loaded, "views": views, "probes": pout})
}

// --------------------------------------------------------- DWARF package
/// Load the package under reader kind `R`, ask for every unit through the four public
/// paths and report the section views handed back relative to the package sections.
fn dwp_kind<'a, R: Reader<Offset = usize>>(
    case: &Value,
    secs: &'a Table,
    make: impl Fn(&'a [u8]) -> (R, usize),
) -> Value {
    static EMPTY: [u8; 0] = [];
    let roots: Vec<(&str, R, usize, usize)> = secs
        .iter()
        .map(|(n, d)| {
            let (r, b) = make(d);
            (n.as_str(), r, b, d.len())
        })
        .collect();
    let get = |id: gimli::SectionId| -> R {
        roots.iter().find(|x| x.0 == id.name()).map(|x| x.1.clone()).unwrap_or_else(|| make(&EMPTY).0)
    };
    let pkg = match gimli::DwarfPackage::load(|id| -> Result<R, gimli::Error> { Ok(get(id)) }, make(&EMPTY).0) {
        Ok(p) => p,
        Err(e) => return json!({"load_err": err_name(&e)}),
    };
    let parent: gimli::Dwarf<R> = gimli::Dwarf::load(|_| -> Result<R, gimli::Error> { Ok(make(&EMPTY).0) }).unwrap();
    let obs_unit = |d: &gimli::Dwarf<R>, exp: &Value| -> Value {
        let mut views = Vec::new();
        for (sid, r) in sections_of(d) {
            let root = roots.iter().find(|x| x.0 == sid.name());
            let (bytes, ptr, borrowed) = match (r.to_slice(), root) {
                (Ok(Cow::Borrowed(sl)), Some(x)) => (sl.to_vec(), rel(sl.as_ptr() as usize, x.2, x.3), true),
                (Ok(Cow::Borrowed(sl)), None) => (sl.to_vec(), -3, true),
                (Ok(Cow::Owned(v)), _) => (v, -1, false),
                (Err(_), _) => (Vec::new(), -2, false),
            };
            views.push(json!({"sec": sid.name(), "bytes": bytes_json(&bytes), "ptr": ptr, "borrowed": borrowed}));
        }
        let mut probes = Vec::new();
        for p in exp["probes"].as_array().cloned().unwrap_or_default() {
            let sec = p["sec"].as_str().unwrap_or("");
            let at = p["at"].as_u64().unwrap_or(0) as usize;
            let res = match roots.iter().find(|x| x.0 == sec) {
                Some(x) => {
                    let mut c = x.1.clone();
                    if c.skip(at).is_ok() {
                        match d.lookup_offset_id(c.offset_id()) {
                            Some((sf, sid, off)) => json!([sf, sid.name(), off]),
                            None => json!([]),
                        }
                    } else {
                        json!("bad-probe")
                    }
                }
                None => json!("no-section"),
            };
            probes.push(json!({"sec": sec, "at": at, "res": res}));
        }
        json!({"ok": true, "views": views, "probes": probes})
    };
    let mut units = Vec::new();
    for u in case["units"].as_array().cloned().unwrap_or_default() {
        let row = u["row"].as_u64().unwrap_or(0) as u32;
        let id = unbv(&u["id"]);
        let exp = &u["exp"];
        let res = |r: gimli::Result<gimli::Dwarf<R>>| match r {
            Ok(d) => obs_unit(&d, exp),
            Err(e) => json!({"ok": false, "err": err_name(&e)}),
        };
        let opt = |r: gimli::Result<Option<gimli::Dwarf<R>>>| match r {
            Ok(Some(d)) => obs_unit(&d, exp),
            Ok(None) => json!({"ok": "none"}),
            Err(e) => json!({"ok": false, "err": err_name(&e)}),
        };
        units.push(json!({"row": row,
            "cu_sections": res(pkg.cu_sections(row, &parent)),
            "find_cu": opt(pkg.find_cu(gimli::DwoId(id), &parent)),
            "tu_sections": res(pkg.tu_sections(row, &parent)),
            "find_tu": opt(pkg.find_tu(gimli::DebugTypeSignature(id), &parent))}));
    }
    json!({ "units": units })
}

fn dwp_case(case: &Value) -> Value {
    let mut secs: Table = table(&case["sections"]);
    let index = bytes_of(&case["index"]);
    secs.push((".debug_cu_index".to_string(), index.clone()));
    secs.push((".debug_tu_index".to_string(), index));
    let en = RunTimeEndian::Little;
    let mut m = serde_json::Map::new();
    m.insert(KINDS[0].into(), dwp_kind(case, &secs, |d| (EndianSlice::new(d, en), d.as_ptr() as usize)));
    m.insert(KINDS[1].into(), dwp_kind(case, &secs, |d| {
        let rc: Rc<[u8]> = Rc::from(d);
        let b = rc.as_ptr() as usize;
        (EndianReader::new(rc, en), b)
    }));
    m.insert(KINDS[2].into(), dwp_kind(case, &secs, |d| {
        let rc: Arc<[u8]> = Arc::from(d);
        let b = rc.as_ptr() as usize;
        (EndianReader::new(rc, en), b)
    }));
    m.insert(KINDS[3].into(), dwp_kind(case, &secs, |d| {
        let sh = Shared(Rc::new(Inner { data: d.to_vec(), freed: Rc::new(Cell::new(0)) }));
        let b = sh.as_ptr() as usize;
        (EndianReader::new(sh, en), b)
    }));
    m.insert(KINDS[4].into(), dwp_kind(case, &secs, |d| {
        (RelocateReader::new(EndianSlice::new(d, en), Ident), d.as_ptr() as usize)
    }));
    m.insert(KINDS[5].into(), dwp_kind(case, &secs, |d| {
        let rc: Rc<[u8]> = Rc::from(d);
        let b = rc.as_ptr() as usize;
        (RelocateReader::new(EndianReader::new(rc, en), Ident), b)
    }));
    Value::Object(m)
}

fn replay(case: &Value) -> Value {
    if case["sys"] == "dwarf" {
        return dwarf_case(case);
    }
    if case["sys"] == "dwp" {
        return dwp_case(case);
    }
    let data = bytes_of(&case["buf"]);
    let le = case["le"].as_bool().unwrap_or(true);
    let mh = case["mh"].as_u64().unwrap_or(3) as usize;
    let empty = Vec::new();
    let prefix = case["prefix"].as_array().unwrap_or(&empty);
    let probes = case["probes"].as_array().unwrap_or(&empty);
    let (pre_core, pre_aux) = exec_all(&data, le, mh, prefix, None);
    let pre = pack(&pre_core, &pre_aux, None);
    let obs: Vec<Value> = probes
        .iter()
        .map(|p| {
            let (c, a) = exec_all(&data, le, mh, prefix, Some(p));
            pack(&c, &a, Some(&pre_core))
        })
        .collect();
    json!({"kinds": KINDS, "pre": pre, "probes": obs})
}

// ------------------------------------------------------------------ record
struct RecordJob<'a> {
    kind: &'static str,
    le: bool,
    seed: u64,
    n: usize,
    with_empty: bool,
    mh: usize,
    data: &'a [u8],
    out: &'a mut Vec<Value>,
}

impl<'a> Job for RecordJob<'a> {
    fn run<R: KindExt>(&mut self, root: R, base: usize, blen: usize, refs: &dyn Fn() -> Option<usize>) -> Value {
        let mut rng = Rng::new(self.seed);
        let mut s = Sess::new(root, base, blen, self.mh, refs);
        self.out.push(json!({"ev":"Reset","g":true,"kind":self.kind,"le":self.le,"mh":self.mh,
            "buf":bytes_json(self.data),"p":pj(&s.proj(1), true),"refs":(s.refs)().map(|x| x as i64).unwrap_or(-1)}));
        for _ in 0..self.n {
            let live: Vec<usize> = (1..=self.mh).filter(|h| s.hs[*h].is_some()).collect();
            let free: Vec<usize> = (1..=self.mh).filter(|h| s.hs[*h].is_none()).collect();
            let d = free.first().copied().unwrap_or(0);
            let o: Value = if live.is_empty() {
                json!(["clone", 0, 0, 0, d])
            } else {
                let h = *rng.pick(&live);
                let len = s.hs[h].as_ref().unwrap().len();
                // an argument: mostly inside the window, sometimes just outside, rarely huge
                let arg = |rng: &mut Rng| -> usize {
                    match rng.below(10) {
                        0 => len + 1 + rng.below(3) as usize,
                        1 => len,
                        2 => 0x7fff_fff0,
                        3 | 4 => rng.below(len as u64 + 1) as usize,
                        _ => rng.below((len as u64).min(24) + 1) as usize,
                    }
                };
                let sz = |rng: &mut Rng| -> usize { *rng.pick(&[1usize, 2, 4, 8, 8, 4, 0, 3, 16, 255]) };
                if len == 0 && rng.chance(1, 2) {
                    json!(["drop", h, 0, 0, 0])
                } else if d == 0 && rng.chance(1, 3) {
                    json!(["drop", h, 0, 0, 0])
                } else {
                    match rng.below(32) {
                        0 | 1 => json!(["read_u8", h, 0, 0, 0]),
                        2 | 3 => json!(["read_slice", h, arg(&mut rng).min(5000), 0, 0]),
                        4 | 5 => json!(["read_uint", h, rng.range(1, 8), 0, 0]),
                        6 | 7 => json!(["read_address", h, sz(&mut rng), 0, 0]),
                        8 => json!(["read_offset", h, *rng.pick(&[4, 8]), 0, 0]),
                        9 => json!(["read_sized_offset", h, sz(&mut rng), 0, 0]),
                        10 | 11 => json!(["skip", h, arg(&mut rng), 0, 0]),
                        12 => json!(["truncate", h, arg(&mut rng), 0, 0]),
                        13 if self.with_empty => json!(["empty", h, 0, 0, 0]),
                        13 => json!(["truncate", h, len.saturating_sub(rng.below(4) as usize), 0, 0]),
                        14 | 15 | 16 if d != 0 => json!(["split", h, arg(&mut rng), 0, d]),
                        17 => json!(["find", h, *rng.pick(&[0u8, 0, 1, 0x41, 0xff, 0x80]), 0, 0]),
                        18 | 19 if d != 0 => json!(["read_cstr", h, 0, 0, d]),
                        20 | 21 | 22 if d != 0 => json!(["clone", if rng.chance(1, 3) { 0 } else { h }, 0, 0, d]),
                        23 => json!(["drop", h, 0, 0, 0]),
                        24 => json!(["offset_from", h, 0, 0, 0]),
                        25 | 26 => {
                            let g = if rng.chance(1, 3) { 0 } else { *rng.pick(&live) };
                            json!(["id_lookup", h, g, 0, 0])
                        }
                        27 => json!(["to_slice", h, 0, 0, 0]),
                        28 => json!([if rng.chance(1, 2) { "to_string" } else { "to_string_lossy" }, h, 0, 0, 0]),
                        29 if d != 0 => {
                            let x = rng.below(len as u64 + 1) as usize;
                            let y = x + rng.below((len - x) as u64 + 1) as usize;
                            json!(["range", h, x, y, d])
                        }
                        30 if d != 0 => json!([if rng.chance(1, 2) { "range_from" } else { "range_to" },
                                               h, rng.below(len as u64 + 1), 0, d]),
                        _ => json!(["read_u8", h, 0, 0, 0]),
                    }
                }
            };
            let r = s.op(&o);
            if r == Res::NA {
                continue; // this kind has no such method: nothing happened
            }
            let h = o[1].as_u64().unwrap() as usize;
            let d = o[4].as_u64().unwrap() as usize;
            let ph = if h == 0 { json!([]) } else { pj(&s.proj(h), true) };
            let pd = if d == 0 { json!([]) } else { pj(&s.proj(d), true) };
            self.out.push(json!({"ev": o[0], "o": o, "r": strip(&r.json(true)), "ph": ph, "pd": pd,
                "refs": (s.refs)().map(|x| x as i64).unwrap_or(-1)}));
        }
        Value::Null
    }
}

fn strip(r: &Value) -> Value {
    let mut r = r.clone();
    if let Some(m) = r.as_object_mut() {
        m.remove("loc");
        m.remove("msg");
    }
    r
}

fn gen_buf(rng: &mut Rng, len: usize) -> Vec<u8> {
    let mode = rng.below(3);
    (0..len)
        .map(|_| match mode {
            0 => rng.below(256) as u8,
            1 => *rng.pick(&[0u8, 0, 1, 0x41, 0x42, 0x7f, 0xc3, 0xa9, 0xff, 0x80]),
            _ => {
                if rng.chance(1, 9) {
                    0
                } else {
                    0x20 + rng.below(0x5f) as u8
                }
            }
        })
        .collect()
}

// --------------------------------------------------- whole-section parses
type Secs = Vec<(gimli::SectionId, Vec<u8>)>;

/// A small unit (DIEs with inline / .debug_str strings, blocks, expressions) with a
/// line program, written by gimli's own writer.
fn build_dwarf(rng: &mut Rng, version: u16) -> Secs {
    use gimli::write as w;
    let enc = gimli::Encoding { version, address_size: 8, format: Format::Dwarf32 };
    let mut dwarf = w::Dwarf::new();
    let wd = w::LineString::new(&b"/work/dir"[..], enc, &mut dwarf.line_strings);
    let sf = w::LineString::new(&b"main.c"[..], enc, &mut dwarf.line_strings);
    let mut lp = w::LineProgram::new(enc, gimli::LineEncoding::default(), wd, None, sf, None);
    let dname = w::LineString::new(&b"include"[..], enc, &mut dwarf.line_strings);
    let dir = lp.add_directory(dname);
    let fname = w::LineString::new(if rng.chance(1, 2) { &b"util.h"[..] } else { &b"caf\xc3\xa9.h"[..] }, enc, &mut dwarf.line_strings);
    let file = lp.add_file(fname, dir, None);
    lp.begin_sequence(Some(w::Address::Constant(0x1000)));
    let nrows = rng.range(2, 12);
    for i in 0..nrows {
        lp.row().address_offset = i * 4 + rng.below(3);
        lp.row().line = 1 + rng.below(50);
        if rng.chance(1, 3) {
            lp.row().file = file;
        }
        lp.generate_row();
    }
    lp.end_sequence(0x100);
    let uid = dwarf.units.add(w::Unit::new(enc, lp));
    let s1 = dwarf.strings.add(&b"producer string"[..]);
    let s2 = dwarf.strings.add(&b"caf\xc3\xa9"[..]);
    let unit = dwarf.units.get_mut(uid);
    let root = unit.root();
    unit.get_mut(root).set(gimli::DW_AT_name, w::AttributeValue::String(b"main.c".to_vec()));
    unit.get_mut(root).set(gimli::DW_AT_producer, w::AttributeValue::StringRef(s1));
    unit.get_mut(root).set(gimli::DW_AT_low_pc, w::AttributeValue::Address(w::Address::Constant(0x1000)));
    let n = rng.range(2, 10);
    let mut parent = root;
    for i in 0..n {
        let tag = *rng.pick(&[gimli::DW_TAG_subprogram, gimli::DW_TAG_variable, gimli::DW_TAG_base_type]);
        let id = unit.add(parent, tag);
        let e = unit.get_mut(id);
        match rng.below(3) {
            0 => e.set(gimli::DW_AT_name, w::AttributeValue::String(format!("name{}", i).into_bytes())),
            1 => e.set(gimli::DW_AT_name, w::AttributeValue::StringRef(s2)),
            _ => {}
        }
        if rng.chance(1, 2) {
            let mut ex = w::Expression::new();
            ex.op_addr(w::Address::Constant(0x2000 + i));
            ex.op_plus_uconst(rng.below(300));
            if rng.chance(1, 2) {
                ex.op_implicit_value(vec![1, 2, 3, rng.below(256) as u8].into());
            }
            e.set(gimli::DW_AT_location, w::AttributeValue::Exprloc(ex));
        }
        if rng.chance(1, 2) {
            let len = rng.below(70) as usize;
            let blk: Vec<u8> = (0..len).map(|_| rng.below(256) as u8).collect();
            e.set(gimli::DW_AT_const_value, w::AttributeValue::Block(blk));
        }
        e.set(gimli::DW_AT_decl_line, w::AttributeValue::Udata(rng.below(1000)));
        if tag == gimli::DW_TAG_subprogram && rng.chance(1, 2) {
            parent = id;
        }
    }
    let mut sections = w::Sections::new(w::EndianVec::new(RunTimeEndian::Little));
    dwarf.write(&mut sections).expect("write dwarf");
    let mut out: Secs = Vec::new();
    sections
        .for_each(|id, data| -> Result<(), ()> {
            out.push((id, data.slice().to_vec()));
            Ok(())
        })
        .unwrap();
    out
}

fn variant_name<T: Debug>(x: &T) -> String {
    let s = format!("{:?}", x);
    s.split(|c: char| c == '(' || c == ' ' || c == '{').next().unwrap_or("").to_string()
}

/// Parse everything under reader kind `R`; log every reader the parsers hand back as a
/// `View` of its section, and a structural dump that must not depend on the kind.
fn parse_kind<'a, R: Reader<Offset = usize>>(
    kind: &str,
    first: bool,
    group: bool,
    secs: &'a Secs,
    make: impl Fn(&'a [u8]) -> (R, usize),
    out: &mut Vec<Value>,
) {
    use gimli::{AttributeValue as AV, SectionId as S};
    static EMPTY: [u8; 0] = [];
    let mut roots: Vec<(S, R, usize, usize)> = Vec::new();
    for (id, d) in secs {
        let (r, b) = make(d);
        roots.push((*id, r, b, d.len()));
    }
    let dwarf = gimli::Dwarf::load(|id| -> Result<R, gimli::Error> {
        Ok(match roots.iter().find(|x| x.0 == id) {
            Some(x) => x.1.clone(),
            None => make(&EMPTY).0,
        })
    })
    .unwrap();
    let mut views: Vec<(S, R)> = Vec::new();
    let mut dump: Vec<Value> = Vec::new();
    let res = (|| -> gimli::Result<()> {
        let mut units = dwarf.units();
        while let Some(h) = units.next()? {
            let unit = dwarf.unit(h)?;
            dump.push(json!(["unit", unit.header.version(), unit.header.unit_length()]));
            let mut entries = unit.entries();
            while let Some(e) = entries.next_dfs()? {
                let mut attrs: Vec<Value> = Vec::new();
                for at in e.attrs() {
                    let v = at.value();
                    let (sec, rd): (Option<S>, Option<R>) = match &v {
                        AV::Block(r) => (Some(S::DebugInfo), Some(r.clone())),
                        AV::Exprloc(x) => (Some(S::DebugInfo), Some(x.0.clone())),
                        AV::String(r) => (Some(S::DebugInfo), Some(r.clone())),
                        AV::DebugStrRef(_) => (Some(S::DebugStr), dwarf.attr_string(&unit, v.clone()).ok()),
                        AV::DebugLineStrRef(_) => (Some(S::DebugLineStr), dwarf.attr_string(&unit, v.clone()).ok()),
                        _ => (None, None),
                    };
                    let vs = match (&v, &rd) {
                        (AV::Exprloc(x), _) => {
                            let mut ops = x.clone().operations(unit.encoding());
                            let mut names = Vec::new();
                            while let Some(op) = ops.next()? {
                                if let gimli::Operation::ImplicitValue { data } = &op {
                                    views.push((S::DebugInfo, data.clone()));
                                }
                                names.push(variant_name(&op));
                            }
                            json!(["expr", names])
                        }
                        (_, Some(r)) => json!(["reader", variant_name(&v), r.len()]),
                        _ => json!(format!("{:?}", v)),
                    };
                    if let (Some(s), Some(r)) = (sec, rd) {
                        views.push((s, r));
                    }
                    attrs.push(json!([at.name().0, vs]));
                }
                dump.push(json!(["die", e.offset().0, e.depth(), e.tag().0, attrs]));
            }
            if let Some(lp) = unit.line_program.clone() {
                let hdr = lp.header().clone();
                for d in hdr.include_directories() {
                    if let Ok(r) = dwarf.attr_string(&unit, d.clone()) {
                        let sec = match d {
                            AV::String(_) => S::DebugLine,
                            AV::DebugStrRef(_) => S::DebugStr,
                            _ => S::DebugLineStr,
                        };
                        dump.push(json!(["dir", r.len()]));
                        views.push((sec, r));
                    }
                }
                for f in hdr.file_names() {
                    let pn = f.path_name();
                    if let Ok(r) = dwarf.attr_string(&unit, pn.clone()) {
                        let sec = match pn {
                            AV::String(_) => S::DebugLine,
                            AV::DebugStrRef(_) => S::DebugStr,
                            _ => S::DebugLineStr,
                        };
                        dump.push(json!(["file", r.len(), f.directory_index()]));
                        views.push((sec, r));
                    }
                }
                let mut rows = lp.rows();
                while let Some((_, row)) = rows.next_row()? {
                    dump.push(json!(["row", bv(row.address(), 8), row.line().map(|l| l.get()).unwrap_or(0),
                        row.file_index(), row.end_sequence()]));
                }
            }
        }
        Ok(())
    })();
    if let Err(e) = res {
        dump.push(json!(["error", err_name(&e)]));
    }
    let mut g = group;
    for (id, root, base, blen) in roots.iter() {
        let vs: Vec<&(S, R)> = views.iter().filter(|v| v.0 == *id).collect();
        if vs.is_empty() {
            continue;
        }
        out.push(json!({"ev":"Section","kind":kind,"sec":id.name(),"buf":bytes_json(&secs.iter().find(|x| x.0 == *id).unwrap().1),"g": g}));
        g = false;
        for (_, r) in vs {
            let (bytes, ptr, borrowed) = match r.to_slice() {
                Ok(Cow::Borrowed(s)) => (s.to_vec(), rel(s.as_ptr() as usize, *base, *blen), true),
                Ok(Cow::Owned(v)) => (v, -1, false),
                Err(_) => (Vec::new(), -1, false),
            };
            let off = match catch_unwind(AssertUnwindSafe(|| r.offset_from(root))) {
                Ok(o) if o <= *blen => o as i64,
                Ok(_) => -1,
                Err(_) => -2,
            };
            let idpos = root.lookup_offset_id(r.offset_id()).map(|x| x as i64).unwrap_or(-1);
            out.push(json!({"ev":"View","off":off,"len":r.len(),"bytes":cbytes(&bytes),"ptr":ptr,
                "idpos":idpos,"borrowed":borrowed}));
        }
    }
    out.push(json!({"ev":"Parse","kind":kind,"first":first,"dump":dump,"g":false}));
}

fn record_parses(rng: &mut Rng, n: usize, evs: &mut Vec<Value>) {
    let en = RunTimeEndian::Little;
    for i in 0..n {
        let secs = build_dwarf(rng, if i % 2 == 0 { 4 } else { 5 });
        parse_kind(KINDS[0], true, true, &secs, |d| (EndianSlice::new(d, en), d.as_ptr() as usize), evs);
        parse_kind(KINDS[1], false, false, &secs, |d| {
            let rc: Rc<[u8]> = Rc::from(d);
            let b = rc.as_ptr() as usize;
            (EndianReader::new(rc, en), b)
        }, evs);
        parse_kind(KINDS[2], false, false, &secs, |d| {
            let rc: Arc<[u8]> = Arc::from(d);
            let b = rc.as_ptr() as usize;
            (EndianReader::new(rc, en), b)
        }, evs);
        parse_kind(KINDS[3], false, false, &secs, |d| {
            let sh = Shared(Rc::new(Inner { data: d.to_vec(), freed: Rc::new(Cell::new(0)) }));
            let b = sh.as_ptr() as usize;
            (EndianReader::new(sh, en), b)
        }, evs);
        parse_kind(KINDS[4], false, false, &secs, |d| {
            (RelocateReader::new(EndianSlice::new(d, en), Ident), d.as_ptr() as usize)
        }, evs);
        parse_kind(KINDS[5], false, false, &secs, |d| {
            let rc: Rc<[u8]> = Rc::from(d);
            let b = rc.as_ptr() as usize;
            (RelocateReader::new(EndianReader::new(rc, en), Ident), b)
        }, evs);
    }
}

fn record(out: &str, a: &Args) {
    let seed = a.num("--seed", 1);
    let n = a.num("--n", 1000) as usize;
    let nlong = a.num("--long", 2) as usize;
    let nshort = a.num("--short", 20) as usize;
    let mut evs: Vec<Value> = Vec::new();
    let mut rng = Rng::new(seed);
    let mut plans: Vec<(Vec<u8>, bool, u64, usize, bool)> = Vec::new();
    for i in 0..nlong {
        let len = match i % 4 {
            0 => 64,
            1 => 4096,
            _ => rng.range(65, 4095) as usize,
        };
        plans.push((gen_buf(&mut rng, len), rng.chance(1, 2), rng.next(), n, false));
    }
    for _ in 0..nshort {
        let len = rng.range(0, 96) as usize;
        plans.push((gen_buf(&mut rng, len), rng.chance(1, 2), rng.next(), 30, true));
    }
    // long histories first, then the parses, the short histories containing `empty` last
    let run_plans = |which: bool, evs: &mut Vec<Value>| {
        for (data, le, hseed, steps, with_empty) in plans.iter().filter(|p| p.4 == which) {
            for k in 0..KINDS.len() {
                let mut job = RecordJob {
                    kind: KINDS[k],
                    le: *le,
                    seed: *hseed,
                    n: *steps,
                    with_empty: *with_empty,
                    mh: 8,
                    data,
                    out: evs,
                };
                let (_, td) = with_kind(k, data, *le, &mut job);
                let td = if td.is_null() { json!([-1, -1]) } else { td };
                evs.push(json!({"ev":"Teardown","kind":KINDS[k],"td":td}));
            }
        }
    };
    run_plans(false, &mut evs);
    let np = a.num("--parse", 4) as usize;
    let r = guarded(|| {
        record_parses(&mut rng, np, &mut evs);
        Value::Null
    });
    if !r.is_null() {
        eprintln!("record: {}", r);
        std::process::exit(3);
    }
    run_plans(true, &mut evs);
    write_lines(out, &evs);
}

fn main() {
    main_with(replay, record);
}
