//! C13 driver: line programs through gimli::write, read back with gimli::read.
//!
//! replay: a call script (add_directory / add_file / begin_sequence / set_address /
//!   row + generate_row / end_sequence) or a grid case (for every operation advance
//!   in the case: a two-row sequence with the given line advance) is performed on
//!   `gimli::write::LineProgram`, written with `EndianVec`, parsed back with
//!   `gimli::read`; the observation is the rows, the file / directory tables (string
//!   references resolved through the written string sections) and the emitted
//!   instruction stream.
//! record: random multi-sequence scripts with 64-bit values; one event per call
//!   and one with what was read back.
//! No expectations live here.
use gimli::write::{
    Address, DebugLine as WDebugLine, DebugLineStr as WDebugLineStr, DebugStr as WDebugStr, EndianVec, FileInfo,
    LineProgram, LineString, LineStringTable, StringTable,
};
use gimli::{
    AttributeValue, DebugLine, DebugLineOffset, DebugLineStr, DebugStr, Encoding, EndianSlice, Format,
    LineEncoding, LineInstruction, Reader, RunTimeEndian,
};
use gvh::*;
use serde_json::{json, Value};

fn tb(v: u64) -> Value {
    let b = v.to_le_bytes();
    let mut n = 8;
    while n > 0 && b[n - 1] == 0 {
        n -= 1;
    }
    bytes_json(&b[..n])
}

/// A number given either as a JSON number (bounded models) or as a little-endian byte tuple.
fn numv(v: &Value) -> u64 {
    if v.is_array() {
        unbv(v)
    } else if let Some(u) = v.as_u64() {
        u
    } else {
        v.as_i64().unwrap_or(0) as u64
    }
}

struct Params {
    enc: Encoding,
    lenc: LineEncoding,
}

fn params(p: &Value) -> Params {
    Params {
        enc: Encoding {
            version: p["ver"].as_u64().unwrap() as u16,
            format: if p["fmt"].as_u64() == Some(64) { Format::Dwarf64 } else { Format::Dwarf32 },
            address_size: p["asz"].as_u64().unwrap() as u8,
        },
        lenc: LineEncoding {
            minimum_instruction_length: p["mil"].as_u64().unwrap() as u8,
            maximum_operations_per_instruction: p["maxops"].as_u64().unwrap() as u8,
            default_is_stmt: p["dis"].as_bool().unwrap(),
            line_base: p["lbase"].as_i64().unwrap() as i8,
            line_range: p["lrange"].as_u64().unwrap() as u8,
        },
    }
}

struct Builder {
    p: Params,
    prog: LineProgram,
    lstr: LineStringTable,
    strs: StringTable,
    strform: String,
    dirs: Vec<gimli::write::DirectoryId>,
    files: Vec<gimli::write::FileId>,
    /// encoding of the unit that refers to the program (the argument of `LineProgram::write`); defaults to
    /// the program's own encoding
    uenc: Option<Encoding>,
    /// report instruction operands as byte tuples (cases with 64-bit values)
    wide: bool,
}

impl Builder {
    fn ls(&mut self, bytes: &[u8]) -> LineString {
        match self.strform.as_str() {
            "strp" => LineString::StringRef(self.strs.add(bytes.to_vec())),
            "line_strp" => LineString::LineStringRef(self.lstr.add(bytes.to_vec())),
            _ => LineString::String(bytes.to_vec()),
        }
    }
    /// Standard set-up: working dir "/w"; two files "a.c" (file id 0) and "b.c" (file id 1).
    fn new(pv: &Value, strform: &str, flags: &Value) -> Builder {
        let p = params(pv);
        let mut lstr = LineStringTable::default();
        let mut strs = StringTable::default();
        let mk = |b: &[u8], lstr: &mut LineStringTable, strs: &mut StringTable| match strform {
            "strp" => LineString::StringRef(strs.add(b.to_vec())),
            "line_strp" => LineString::LineStringRef(lstr.add(b.to_vec())),
            _ => LineString::String(b.to_vec()),
        };
        let wd = mk(b"/w", &mut lstr, &mut strs);
        let sf = mk(b"a.c", &mut lstr, &mut strs);
        let mut prog = LineProgram::new(p.enc, p.lenc, wd, None, sf, None);
        prog.file_has_timestamp = flags["time"].as_bool().unwrap_or(false);
        prog.file_has_size = flags["size"].as_bool().unwrap_or(false);
        prog.file_has_md5 = flags["md5"].as_bool().unwrap_or(false);
        prog.file_has_source = flags["src"].as_bool().unwrap_or(false);
        let d0 = prog.default_directory();
        let mut b = Builder { p, prog, lstr, strs, strform: strform.to_string(), dirs: vec![d0], files: vec![], uenc: None, wide: false };
        let a = b.ls(b"a.c");
        let f0 = b.prog.add_file(a, d0, None);
        let bb = b.ls(b"b.c");
        let f1 = b.prog.add_file(bb, d0, None);
        b.files = vec![f0, f1];
        b
    }

    fn call(&mut self, c: &Value) {
        let name = c[0].as_str().unwrap_or("");
        match name {
            "begin" => {
                let a = c[1].as_array().and_then(|a| a.first().cloned());
                self.prog.begin_sequence(a.map(|v| Address::Constant(numv(&v))));
            }
            "addr" => self.prog.set_address(Address::Constant(numv(&c[1]))),
            "row" => {
                let r = &c[1];
                let f = self.files[r["file"].as_u64().unwrap_or(0) as usize];
                let row = self.prog.row();
                row.address_offset = numv(&r["off"]);
                row.op_index = numv(&r["opi"]);
                row.file = f;
                row.line = numv(&r["line"]);
                row.column = numv(&r["col"]);
                row.discriminator = numv(&r["disc"]);
                row.is_statement = r["stmt"].as_bool().unwrap();
                row.basic_block = r["bb"].as_bool().unwrap();
                row.prologue_end = r["pe"].as_bool().unwrap();
                row.epilogue_begin = r["eb"].as_bool().unwrap();
                row.isa = numv(&r["isa"]);
                self.prog.generate_row();
            }
            "opi" => self.prog.row().op_index = numv(&c[1]),
            "end" => self.prog.end_sequence(numv(&c[1])),
            "dir" => {
                let s = self.ls(&bytes_of(&c[1]));
                let d = self.prog.add_directory(s);
                self.dirs.push(d);
            }
            "file" => {
                let s = self.ls(&bytes_of(&c[1]));
                let d = self.dirs[c[2].as_u64().unwrap_or(0) as usize];
                let info = if c[3].is_object() {
                    let i = &c[3];
                    let mut md5 = [0u8; 16];
                    for (k, b) in bytes_of(&i["md5"]).iter().enumerate().take(16) {
                        md5[k] = *b;
                    }
                    let src = if i["src"].is_array() && !i["src"].as_array().unwrap().is_empty() {
                        let sb = bytes_of(&i["src"][0]);
                        Some(self.ls(&sb))
                    } else {
                        None
                    };
                    Some(FileInfo { timestamp: numv(&i["time"]), size: numv(&i["size"]), md5, source: src })
                } else {
                    None
                };
                let f = self.prog.add_file(s, d, info);
                self.files.push(f);
            }
            _ => {}
        }
    }

    /// write + read back
    fn finish(&mut self) -> Value {
        let en = RunTimeEndian::Little;
        let mut w = WDebugLine::from(EndianVec::new(en));
        let unit_enc = self.uenc.unwrap_or(self.p.enc);
        let off = match self.prog.write(&mut w, unit_enc, &mut self.lstr, &mut self.strs) {
            Ok(o) => o,
            Err(e) => return json!({"ok": false, "err": format!("{:?}", e)}),
        };
        let mut wl = WDebugLineStr::from(EndianVec::new(en));
        let mut ws = WDebugStr::from(EndianVec::new(en));
        self.lstr.write(&mut wl).unwrap();
        self.strs.write(&mut ws).unwrap();
        read_back_w(w.slice(), off.0, self.p.enc.address_size, wl.slice(), ws.slice(), self.wide)
    }
}

fn resolve<'a>(
    a: &AttributeValue<EndianSlice<'a, RunTimeEndian>>,
    dls: &DebugLineStr<EndianSlice<'a, RunTimeEndian>>,
    ds: &DebugStr<EndianSlice<'a, RunTimeEndian>>,
) -> Value {
    match a {
        AttributeValue::String(s) => json!(["string", bytes_json(s.slice())]),
        AttributeValue::DebugLineStrRef(o) => match dls.get_str(*o) {
            Ok(s) => json!(["line_strp", bytes_json(s.slice())]),
            Err(e) => json!(["line_strp", format!("{:?}", e)]),
        },
        AttributeValue::DebugStrRef(o) => match ds.get_str(*o) {
            Ok(s) => json!(["strp", bytes_json(s.slice())]),
            Err(e) => json!(["strp", format!("{:?}", e)]),
        },
        other => json!(["other", format!("{:?}", other)]),
    }
}

fn ins_code<R: Reader>(i: &LineInstruction<R>, wide: bool) -> Value {
    let n = |v: u64| if wide { bv(v, 8) } else { json!(v) };
    match i {
        LineInstruction::Special(o) => json!(["S", *o]),
        LineInstruction::Copy => json!(["Y", 0]),
        LineInstruction::AdvancePc(v) => json!(["P", n(*v)]),
        LineInstruction::AdvanceLine(v) => {
            if wide {
                json!(["L", bv(*v as u64, 8)])
            } else {
                json!(["L", *v])
            }
        }
        LineInstruction::SetFile(v) => json!(["F", n(*v)]),
        LineInstruction::SetColumn(v) => json!(["C", n(*v)]),
        LineInstruction::NegateStatement => json!(["N", 0]),
        LineInstruction::SetBasicBlock => json!(["B", 0]),
        LineInstruction::ConstAddPc => json!(["K", 0]),
        LineInstruction::SetPrologueEnd => json!(["G", 0]),
        LineInstruction::SetEpilogueBegin => json!(["H", 0]),
        LineInstruction::SetIsa(v) => json!(["I", n(*v)]),
        LineInstruction::EndSequence => json!(["E", 0]),
        LineInstruction::SetAddress(v) => json!(["A", n(*v)]),
        LineInstruction::SetDiscriminator(v) => json!(["D", n(*v)]),
        other => json!(["?", format!("{:?}", other)]),
    }
}

fn read_back_w(sect: &[u8], off: usize, asz: u8, lstr: &[u8], strs: &[u8], wide: bool) -> Value {
    let en = RunTimeEndian::Little;
    let dl = DebugLine::new(sect, en);
    let dls = DebugLineStr::from(EndianSlice::new(lstr, en));
    let ds = DebugStr::new(strs, en);
    let prog = match dl.program(DebugLineOffset(off), asz, None, None) {
        Ok(p) => p,
        Err(e) => return json!({"ok": true, "read": format!("header: {:?}", e)}),
    };
    let h = prog.header().clone();
    let hdr = json!({"ver": h.version(), "fmt": if h.format() == Format::Dwarf64 {64} else {32}, "asz": h.address_size(),
        "mil": h.minimum_instruction_length(), "maxops": h.maximum_operations_per_instruction(),
        "dis": h.default_is_stmt(), "lbase": h.line_base(), "lrange": h.line_range(), "obase": h.opcode_base(),
        "unit_end": sect.len() == off + h.unit_length() + if h.format() == Format::Dwarf64 {12} else {4}});
    let dirs: Vec<Value> = h.include_directories().iter().map(|d| resolve(d, &dls, &ds)).collect();
    let files: Vec<Value> = h
        .file_names()
        .iter()
        .map(|f| {
            json!([resolve(&f.path_name(), &dls, &ds), f.directory_index(), tb(f.timestamp()), tb(f.size()),
                   bytes_json(f.md5()), match f.source() { Some(s) => json!([resolve(&s, &dls, &ds)]), None => json!([]) }])
        })
        .collect();
    let mut ins = Vec::new();
    let mut it = h.instructions();
    let mut ierr = Value::Null;
    loop {
        match it.next_instruction(&h) {
            Ok(Some(i)) => ins.push(ins_code(&i, wide)),
            Ok(None) => break,
            Err(e) => {
                ierr = json!(format!("{:?}", e));
                break;
            }
        }
    }
    let mut rows = Vec::new();
    let mut rerr = Value::Null;
    let mut rr = prog.rows();
    loop {
        match rr.next_row() {
            Ok(Some((_, row))) => {
                let line = row.line().map(|l| l.get()).unwrap_or(0);
                let col = match row.column() {
                    gimli::ColumnType::LeftEdge => 0,
                    gimli::ColumnType::Column(c) => c.get(),
                };
                let fl = (row.is_stmt() as u64)
                    | (row.basic_block() as u64) << 1
                    | (row.end_sequence() as u64) << 2
                    | (row.prologue_end() as u64) << 3
                    | (row.epilogue_begin() as u64) << 4;
                rows.push(json!([tb(row.address()), tb(row.op_index()), tb(row.file_index()), tb(line), tb(col), fl,
                                 tb(row.isa()), tb(row.discriminator())]));
            }
            Ok(None) => break,
            Err(e) => {
                rerr = json!(format!("{:?}", e));
                break;
            }
        }
    }
    json!({"ok": true, "hdr": hdr, "dirs": dirs, "files": files, "ins": ins, "ierr": ierr, "rows": rows, "rerr": rerr})
}

fn replay(case: &Value) -> Value {
    let strform = case["strform"].as_str().unwrap_or("string").to_string();
    let flags = case.get("flags").cloned().unwrap_or(json!({}));
    match case["sys"].as_str() {
        Some("script") | Some("files") | Some("mixed") | Some("lines") => {
            let mut b = Builder::new(&case["P"], &strform, &flags);
            b.wide = case["wide"].as_bool().unwrap_or(false);
            if case["uenc"].is_object() {
                // the referring unit has its own version / format (same address size)
                b.uenc = Some(Encoding {
                    version: case["uenc"]["ver"].as_u64().unwrap() as u16,
                    format: if case["uenc"]["fmt"].as_u64() == Some(64) { Format::Dwarf64 } else { Format::Dwarf32 },
                    address_size: b.p.enc.address_size,
                });
            }
            for c in case["calls"].as_array().unwrap() {
                b.call(c);
            }
            b.finish()
        }
        Some("grid") => {
            // one program per operation advance: A (line L0) -> B (line L0 + dline, op advance dop) -> end
            let p = params(&case["P"]);
            let l0 = case["L0"].as_u64().unwrap();
            let base = case["base"].as_u64().unwrap();
            let dline = case["dline"].as_i64().unwrap();
            let mil = p.lenc.minimum_instruction_length as u64;
            let maxops = p.lenc.maximum_operations_per_instruction as u64;
            let mut out = serde_json::Map::new();
            let mut keys: Vec<u64> = case["dops"].as_object().map(|o| o.keys().filter_map(|k| k.parse().ok()).collect()).unwrap_or_default();
            if keys.is_empty() {
                if let Some(a) = case["dops"].as_array() {
                    keys = (1..=a.len() as u64).collect();
                }
            }
            keys.sort();
            for dop in keys {
                let o = guarded(|| {
                    let mut b = Builder::new(&case["P"], "string", &json!({}));
                    b.prog.begin_sequence(Some(Address::Constant(base)));
                    b.prog.row().line = l0;
                    b.prog.generate_row();
                    b.prog.row().line = (l0 as i64 + dline) as u64;
                    b.prog.row().address_offset = mil * (dop / maxops);
                    b.prog.row().op_index = dop % maxops;
                    b.prog.generate_row();
                    b.prog.end_sequence(mil * (dop / maxops));
                    let r = b.finish();
                    json!({"ok": r["ok"], "err": r["err"], "rows": r["rows"], "ins": r["ins"], "rerr": r["rerr"], "ierr": r["ierr"]})
                });
                out.insert(dop.to_string(), o);
            }
            Value::Object(out)
        }
        _ => json!({"outcome": "bad-sys"}),
    }
}

// ---------------------------------------------------------------- record
fn record(out: &str, a: &Args) {
    let mut rng = Rng::new(a.num("--seed", 1));
    let n = a.num("--n", 50);
    let len = a.num("--len", 40);
    let mut evs = Vec::new();
    for i in 0..n {
        let ver = rng.range(2, 5);
        let maxops = if ver >= 4 { *rng.pick(&[1u64, 1, 2, 4]) } else { 1 };
        let mil = *rng.pick(&[1u64, 1, 2, 4]);
        // any line_base <= 0 and line_range with line_base + line_range > 0
        let lbase = -(rng.below(129) as i64);
        let lrange = ((1 - lbase) as u64 + rng.below(256)).min(255);
        let asz = *rng.pick(&[4u64, 8, 8]);
        let pv = json!({"ver": ver, "fmt": if rng.chance(1, 4) {64} else {32}, "asz": asz, "le": true, "mil": mil,
                        "maxops": maxops, "dis": rng.chance(1, 2), "lbase": lbase, "lrange": lrange});
        let strform = if ver >= 5 { *rng.pick(&["string", "strp", "line_strp"]) } else { "string" };
        let flags = if ver >= 5 { json!({"time": rng.chance(1,2), "size": rng.chance(1,2), "md5": rng.chance(1,2), "src": false}) } else { json!({}) };
        evs.push(json!({"ev": "New", "P": pv, "tag": format!("rand{}", i)}));
        let top = if asz == 8 { u64::MAX >> 1 } else { (1u64 << 31) - 1 };
        let o = guarded(|| {
            let mut b = Builder::new(&pv, strform, &flags);
            let mut calls = Vec::new();
            let mut off: u64 = 0;
            let mut opi: u64 = 0;
            let mut line: u64 = 1;
            let mut inseq = false;
            let mut cur_base: u64 = 0;
            let l = 1 + rng.below(len);
            for _ in 0..l {
                let c = match rng.below(10) {
                    0 if !inseq => {
                        inseq = true;
                        if rng.chance(1, 2) {
                            cur_base = rng.next() & (top >> 2);
                            json!(["begin", [bv(cur_base, 8)]])
                        } else {
                            cur_base = 0;
                            json!(["begin", []])
                        }
                    }
                    1 => {
                        // only forward; set_address resets the tracked operation index
                        opi = 0;
                        inseq = true;
                        // never backwards, never beyond the address size
                        let new = cur_base.wrapping_add(off).saturating_add(rng.below(1 << 20));
                        if new > top {
                            continue;
                        }
                        let c = json!(["addr", bv(new, 8)]);
                        cur_base = new.wrapping_sub(off);
                        c
                    }
                    2 => {
                        let eoff = if cur_base.wrapping_add(off) + 8 > top { off } else { off + mil * rng.below(3) };
                        let c = json!(["end", bv(eoff, 8)]);
                        inseq = false;
                        off = 0;
                        opi = 0;
                        line = 1;
                        cur_base = 0;
                        c
                    }
                    _ => {
                        inseq = true;
                        let adv = match rng.below(6) {
                            0 => 0,
                            1 => rng.below(1 << 16),
                            2 => rng.below(1 << 28),
                            _ => rng.below(40),
                        };
                        let adv = if cur_base.wrapping_add(off).saturating_add(mil * adv) > top { 0 } else { adv };
                        let nop = if maxops > 1 { rng.below(maxops) } else { 0 };
                        if adv == 0 && nop < opi {
                            opi = nop.max(opi);
                        } else {
                            opi = nop;
                        }
                        off += mil * adv;
                        // 64-bit boundary line numbers in consecutive rows, both directions: advances that do
                        // not fit an i64 are split into several DW_LNS_advance_line
                        const LB: [u64; 13] = [0, 1, 2, (1 << 31) - 1, (1 << 31) + 1, (1 << 32) - 1, (1 << 32) + 1,
                            i64::MAX as u64, 1 << 63, (1 << 63) + 1, u64::MAX - 1, u64::MAX, 1 << 62];
                        line = match rng.below(11) {
                            8 | 9 | 10 => *rng.pick(&LB),
                            0 => rng.next() >> 2,
                            1 => 0,
                            2 => line,
                            3 => line.saturating_sub(rng.below(300)),
                            _ => line.saturating_add(rng.below(20)),
                        };
                        json!(["row", {"off": bv(off, 8), "opi": bv(opi, 8), "file": rng.below(2), "line": bv(line, 8),
                            "col": bv(if rng.chance(1,3) { rng.boundary64() } else { rng.below(100) }, 8),
                            "disc": bv(if rng.chance(1,4) { rng.boundary64() } else { 0 }, 8),
                            "stmt": rng.chance(1,2), "bb": rng.chance(1,4), "pe": rng.chance(1,6), "eb": rng.chance(1,6),
                            "isa": bv(if rng.chance(1,5) { rng.boundary64() } else { 0 }, 8)}])
                    }
                };
                b.call(&c);
                calls.push(c);
            }
            if inseq {
                let c = json!(["end", bv(off, 8)]);
                b.call(&c);
                calls.push(c);
            }
            let en = RunTimeEndian::Little;
            let mut w = WDebugLine::from(EndianVec::new(en));
            let r = match b.prog.write(&mut w, b.p.enc, &mut b.lstr, &mut b.strs) {
                Ok(o) => read_back_w(w.slice(), o.0, b.p.enc.address_size, &[], &[], true),
                Err(e) => json!({"ok": false, "err": format!("{:?}", e)}),
            };
            json!({"calls": calls, "back": r})
        });
        if o.get("outcome").is_some() {
            evs.push(json!({"ev": "Panic", "msg": o["msg"], "loc": o["loc"]}));
            continue;
        }
        for c in o["calls"].as_array().unwrap() {
            evs.push(json!({"ev": "Call", "c": c}));
        }
        let back = &o["back"];
        evs.push(json!({"ev": "Back", "ok": back["ok"], "rows": back["rows"], "rerr": back["rerr"].as_str().unwrap_or(""),
                        "err": back["err"].as_str().unwrap_or(""), "ins": back["ins"]}));
    }
    write_lines(out, &evs);
}

fn main() {
    main_with(replay, record);
}
