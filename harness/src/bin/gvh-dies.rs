//! C02 driver: unit headers, abbreviation lookup and every DIE navigation API.
//!
//! replay: cases from MCDies (encoded .debug_info/.debug_types + .debug_abbrev
//! bytes, call scripts); reports what gimli returned, nothing is expected here.
//! record: builds large random units with gimli's own writer (and reads the
//! repository's self fixture), logs the raw token stream of each unit once and
//! then the observations of randomly interleaved cursor / tree / raw /
//! positioned traversals, one event per call, for DiesTrace.tla.
use gimli::{
    AttributeValue, DebugAbbrev, DebugAbbrevOffset, DebugInfo, DebugTypes, DebuggingInformationEntry,
    EndianSlice, EntriesTreeIter, EntriesTreeNode, RunTimeEndian, UnitHeader, UnitOffset,
    UnitType,
};
use gvh::*;
use serde_json::{json, Value};

type R<'a> = EndianSlice<'a, RunTimeEndian>;

fn endian(le: bool) -> RunTimeEndian {
    if le {
        RunTimeEndian::Little
    } else {
        RunTimeEndian::Big
    }
}

fn digits_to_u64(v: &Value) -> u64 {
    let mut r: u64 = 0;
    if let Some(a) = v.as_array() {
        for (i, d) in a.iter().enumerate() {
            r |= (d.as_u64().unwrap_or(0) & 0x7f).wrapping_shl(7 * i as u32);
        }
    }
    r
}

/// Variant name of an attribute value and its payload (numbers as little-endian
/// byte tuples, byte strings as they are).
fn value_obs(v: &AttributeValue<R>) -> (String, Value) {
    use AttributeValue::*;
    let kind = {
        let s = format!("{:?}", v);
        s.split(|c: char| c == '(' || c == ' ' || c == '{').next().unwrap_or("").to_string()
    };
    let n = |x: u64| bv(x, 8);
    let p = match v {
        Addr(x) => n(*x),
        Block(r) => bytes_json(r.slice()),
        Data1(x) => n(*x as u64),
        Data2(x) => n(*x as u64),
        Data4(x) => n(*x as u64),
        Data8(x) => n(*x),
        Data16(x) => bv128(*x, 16),
        Sdata(x) => n(*x as u64),
        Udata(x) => n(*x),
        Exprloc(e) => bytes_json(e.0.slice()),
        Flag(b) => n(*b as u64),
        SecOffset(o) => n(*o as u64),
        DebugAddrBase(o) => n(o.0 as u64),
        DebugAddrIndex(o) => n(o.0 as u64),
        UnitRef(o) => n(o.0 as u64),
        DebugInfoRef(o) => n(o.0 as u64),
        DebugInfoRefSup(o) => n(o.0 as u64),
        DebugLineRef(o) => n(o.0 as u64),
        LocationListsRef(o) => n(o.0 as u64),
        DebugLocListsBase(o) => n(o.0 as u64),
        DebugLocListsIndex(o) => n(o.0 as u64),
        DebugMacinfoRef(o) => n(o.0 as u64),
        DebugMacroRef(o) => n(o.0 as u64),
        RangeListsRef(o) => n(o.0 as u64),
        DebugRngListsBase(o) => n(o.0 as u64),
        DebugRngListsIndex(o) => n(o.0 as u64),
        DebugTypesRef(s) => n(s.0),
        DebugStrRef(o) => n(o.0 as u64),
        DebugStrRefSup(o) => n(o.0 as u64),
        DebugStrOffsetsBase(o) => n(o.0 as u64),
        DebugStrOffsetsIndex(o) => n(o.0 as u64),
        DebugLineStrRef(o) => n(o.0 as u64),
        String(r) => bytes_json(r.slice()),
        Encoding(c) => n(c.0 as u64),
        DecimalSign(c) => n(c.0 as u64),
        Endianity(c) => n(c.0 as u64),
        Accessibility(c) => n(c.0 as u64),
        Visibility(c) => n(c.0 as u64),
        Virtuality(c) => n(c.0 as u64),
        Language(c) => n(c.0 as u64),
        AddressClass(c) => n(c.0),
        IdentifierCase(c) => n(c.0 as u64),
        CallingConvention(c) => n(c.0 as u64),
        Inline(c) => n(c.0 as u64),
        Ordering(c) => n(c.0 as u64),
        FileIndex(x) => n(*x),
        DwoId(x) => n(x.0),
    };
    (kind, p)
}

fn entry_obs(e: &DebuggingInformationEntry<R>) -> Value {
    let attrs: Vec<Value> = e
        .attrs()
        .iter()
        .map(|a| {
            let (kind, v) = value_obs(&a.raw_value());
            json!({"name": a.name().0, "form": a.form().0, "kind": kind, "v": v})
        })
        .collect();
    json!({"off": e.offset().0, "depth": e.depth(), "tag": e.tag().0, "hc": e.has_children(),
           "nattrs": attrs.len(), "attrs": attrs})
}

/// The unit-reference value of DW_AT_sibling (0 if absent or of another class).
fn sibling_ref(e: &DebuggingInformationEntry<R>) -> u64 {
    match e.attr_value_raw(gimli::DW_AT_sibling) {
        Some(AttributeValue::UnitRef(o)) => o.0 as u64,
        _ => 0,
    }
}

fn header_obs(h: &UnitHeader<R>) -> Value {
    let (kind, sig, toff, dwo) = match h.type_() {
        UnitType::Compilation => ("Compilation", json!([]), json!([]), json!([])),
        UnitType::Partial => ("Partial", json!([]), json!([]), json!([])),
        UnitType::Type { type_signature, type_offset } => {
            ("Type", bv(type_signature.0, 8), bv(type_offset.0 as u64, 8), json!([]))
        }
        UnitType::SplitType { type_signature, type_offset } => {
            ("SplitType", bv(type_signature.0, 8), bv(type_offset.0 as u64, 8), json!([]))
        }
        UnitType::Skeleton(id) => ("Skeleton", json!([]), json!([]), bv(id.0, 8)),
        UnitType::SplitCompilation(id) => ("SplitCompilation", json!([]), json!([]), bv(id.0, 8)),
    };
    json!({
        "version": h.version(), "format": if h.format() == gimli::Format::Dwarf64 {64} else {32},
        "address_size": h.address_size(), "unit_length": h.unit_length(),
        "length_including_self": h.length_including_self(), "offset": h.offset().0,
        "abbrev_offset": h.debug_abbrev_offset().0,
        "section": if h.section() == gimli::SectionId::DebugTypes {"types"} else {"info"},
        "kind": kind, "sig": sig, "type_offset": toff, "dwo_id": dwo,
        "size_of_header": h.size_of_header(), "header_size": h.header_size(), "root_offset": h.root_offset().0,
        "unit_info_offset": h.debug_info_offset().map(|o| o.0 as i64).unwrap_or(-1),
        "unit_types_offset": h.debug_types_offset().map(|o| o.0 as i64).unwrap_or(-1),
        "root_section_offset": h.root_offset().to_unit_section_offset(h).0,
        "root_info_offset": h.root_offset().to_debug_info_offset(h).map(|o| o.0 as i64).unwrap_or(-1),
        "root_types_offset": h.root_offset().to_debug_types_offset(h).map(|o| o.0 as i64).unwrap_or(-1),
        "root_back": h.root_offset().to_unit_section_offset(h).to_unit_offset(h).map(|o| o.0 as i64).unwrap_or(-1),
        "encoding": {"version": h.encoding().version, "address_size": h.encoding().address_size,
                     "format": if h.encoding().format == gimli::Format::Dwarf64 {64} else {32}},
    })
}

fn nth_unit<'a>(info: &'a [u8], en: RunTimeEndian, types: bool, idx: usize) -> Result<UnitHeader<R<'a>>, String> {
    let mut i = 0;
    if types {
        let mut it = DebugTypes::new(info, en).units();
        loop {
            match it.next() {
                Ok(Some(h)) => {
                    if i == idx {
                        return Ok(h);
                    }
                    i += 1;
                }
                Ok(None) => return Err("no such unit".into()),
                Err(e) => return Err(err_name(&e)),
            }
        }
    } else {
        let mut it = DebugInfo::new(info, en).units();
        loop {
            match it.next() {
                Ok(Some(h)) => {
                    if i == idx {
                        return Ok(h);
                    }
                    i += 1;
                }
                Ok(None) => return Err("no such unit".into()),
                Err(e) => return Err(err_name(&e)),
            }
        }
    }
}

fn cur_obs(ret: &str, c: &gimli::EntriesCursor<R>) -> Value {
    json!({"ret": ret, "curnull": c.current().is_none(),
           "cur": match c.current() { Some(e) => entry_obs(e), None => json!("null") },
           "off": c.offset().0, "depth": c.depth(), "noff": c.next_offset().0, "ndepth": c.next_depth()})
}

fn cursor_op(c: &mut gimli::EntriesCursor<R>, op: &str) -> Value {
    match op {
        "e" => match c.next_entry() {
            Ok(b) => cur_obs(if b { "true" } else { "false" }, c),
            Err(e) => json!({"ret":"err","err":err_name(&e)}),
        },
        "d" => match c.next_dfs().map(|o| o.is_some()) {
            Ok(b) => cur_obs(if b { "entry" } else { "none" }, c),
            Err(e) => json!({"ret":"err","err":err_name(&e)}),
        },
        "s" => match c.next_sibling().map(|o| o.is_some()) {
            Ok(b) => cur_obs(if b { "entry" } else { "none" }, c),
            Err(e) => json!({"ret":"err","err":err_name(&e)}),
        },
        "k" => {
            // continue on a clone, drop the original
            let c2 = c.clone();
            *c = c2;
            cur_obs("-", c)
        }
        _ => json!({"ret":"bad-op"}),
    }
}

/// Tree scripts: R root, D children() of the node just returned, N next() on the
/// innermost iterator, A drop the innermost iterator.  Rust's borrows nest exactly
/// like the recursion below.
struct TreeRun<'s> {
    script: &'s [String],
    pos: usize,
    out: Vec<Value>,
}
enum Unwind {
    Done,
    Root,
}
impl<'s> TreeRun<'s> {
    fn peek(&self) -> Option<&str> {
        self.script.get(self.pos).map(|s| s.as_str())
    }
    fn node_obs(n: &gimli::Result<Option<EntriesTreeNode<R>>>) -> Value {
        match n {
            Ok(Some(n)) => json!({"ret":"entry","ent":entry_obs(n.entry())}),
            Ok(None) => json!({"ret":"none"}),
            Err(e) => json!({"ret":"err","err":err_name(e)}),
        }
    }
    /// Interpret ops on iterator `it` until it is dropped (A), the script ends or R.
    fn iter_loop(&mut self, it: &mut EntriesTreeIter<R>) -> Unwind {
        loop {
            match self.peek() {
                None => return Unwind::Done,
                Some("R") => return Unwind::Root,
                Some("A") => {
                    self.pos += 1;
                    self.out.push(json!({"ret":"-"}));
                    return Unwind::Done;
                }
                Some("N") => {
                    self.pos += 1;
                    let n = it.next();
                    self.out.push(Self::node_obs(&n));
                    if let Ok(Some(node)) = n {
                        if self.peek() == Some("D") {
                            self.pos += 1;
                            self.out.push(json!({"ret":"-"}));
                            let mut child = node.children();
                            match self.iter_loop(&mut child) {
                                Unwind::Root => return Unwind::Root,
                                Unwind::Done => {
                                    if self.peek().is_none() {
                                        return Unwind::Done;
                                    }
                                }
                            }
                        }
                    }
                }
                Some(_) => {
                    // not enabled here (e.g. D without a node): report and stop
                    self.pos += 1;
                    self.out.push(json!({"ret":"bad-op"}));
                    return Unwind::Done;
                }
            }
        }
    }
    fn run(&mut self, tree: &mut gimli::EntriesTree<R>) {
        while let Some(op) = self.peek() {
            if op != "R" {
                self.pos += 1;
                self.out.push(json!({"ret":"bad-op"}));
                continue;
            }
            self.pos += 1;
            let root = tree.root();
            match root {
                Ok(node) => {
                    self.out.push(json!({"ret":"entry","ent":entry_obs(node.entry())}));
                    if self.peek() == Some("D") {
                        self.pos += 1;
                        self.out.push(json!({"ret":"-"}));
                        let mut it = node.children();
                        let _ = self.iter_loop(&mut it);
                    }
                }
                Err(e) => self.out.push(json!({"ret":"err","err":err_name(&e)})),
            }
            // anything left that is not R cannot be executed without a node
        }
    }
}

fn raw_read<'a>(raw: &mut gimli::EntriesRaw<R<'a>>, ent: &mut DebuggingInformationEntry<R<'a>>) -> Value {
    match raw.read_entry(ent) {
        Ok(b) => json!({"ret": if b {"entry"} else {"null"}, "entnull": !b, "off": ent.offset().0, "depth": ent.depth(),
                        "ent": if b { entry_obs(ent) } else { json!("null") },
                        "noff": raw.next_offset().0, "ndepth": raw.next_depth()}),
        Err(e) => json!({"ret":"err","err":err_name(&e)}),
    }
}

fn run_nav(h: &UnitHeader<R>, abbrevs: &gimli::Abbreviations, nav: &Value) -> Value {
    let api = nav["api"].as_str().unwrap_or("");
    let start = nav["start"].as_i64().unwrap_or(-1);
    let script: Vec<String> = nav["script"]
        .as_array()
        .map(|a| a.iter().map(|s| s.as_str().unwrap_or("").to_string()).collect())
        .unwrap_or_default();
    let so = if start < 0 { None } else { Some(UnitOffset(start as usize)) };
    match api {
        "cursor" => {
            let mut c = match so {
                None => h.entries(abbrevs),
                Some(o) => match h.entries_at_offset(abbrevs, o) {
                    Ok(c) => c,
                    Err(e) => return json!({"open_err":err_name(&e)}),
                },
            };
            let mut last = Value::Null;
            for op in &script {
                last = cursor_op(&mut c, op);
            }
            json!({ "n": script.len(), "last": last })
        }
        "tree" => {
            let mut t = match h.entries_tree(abbrevs, so) {
                Ok(t) => t,
                Err(e) => return json!({"open_err":err_name(&e)}),
            };
            let mut run = TreeRun { script: &script, pos: 0, out: Vec::new() };
            run.run(&mut t);
            json!({ "n": run.out.len(), "last": run.out.last().cloned().unwrap_or(Value::Null) })
        }
        "raw" => {
            let mut r = match h.entries_raw(abbrevs, so) {
                Ok(r) => r,
                Err(e) => return json!({"open_err":err_name(&e)}),
            };
            let mut ent = DebuggingInformationEntry::null();
            let mut last = Value::Null;
            for _ in &script {
                last = raw_read(&mut r, &mut ent);
            }
            json!({ "n": script.len(), "last": last })
        }
        _ => json!({"outcome":"bad-api"}),
    }
}

fn decl_obs(a: Option<&gimli::Abbreviation>) -> Value {
    match a {
        Some(a) => json!({"tag": a.tag().0, "hc": a.has_children(), "nattrs": a.attributes().len(), "code": bv(a.code(), 8)}),
        None => json!("none"),
    }
}

fn replay_stream(case: &Value) -> Value {
    let info = bytes_of(&case["info"]);
    let abbrev = bytes_of(&case["abbrev"]);
    let en = endian(case["le"].as_bool().unwrap_or(true));
    let types = case["types"].as_bool().unwrap_or(false);
    let uidx = case["uidx"].as_u64().unwrap_or(0) as usize;
    let h = match nth_unit(&info, en, types, uidx) {
        Ok(h) => h,
        Err(e) => return json!({"unit_err": e}),
    };
    let mut out = serde_json::Map::new();
    out.insert("hdr".into(), header_obs(&h));
    // the section offset of every unit of the section
    let mut offs = Vec::new();
    for k in 0..64 {
        match nth_unit(&info, en, types, k) {
            Ok(u) => offs.push(u.offset().0),
            Err(_) => break,
        }
    }
    out.insert("alloffs".into(), json!(offs));
    // the same unit through header_from_offset (.debug_info only)
    if !types {
        if let Some(o) = h.debug_info_offset() {
            let same = DebugInfo::new(&info, en).header_from_offset(o).map(|h2| h2 == h).unwrap_or(false);
            out.insert("from_offset_same".into(), json!(same));
        }
    }
    let da = DebugAbbrev::new(&abbrev, en);
    let abbrevs = match h.abbreviations(&da) {
        Ok(a) => a,
        Err(e) => {
            out.insert("abbrev_err".into(), json!(err_name(&e)));
            return Value::Object(out);
        }
    };
    let gets: Vec<Value> = case["gets"]
        .as_array()
        .map(|a| {
            a.iter()
                .map(|g| {
                    let mut o = decl_obs(abbrevs.get(digits_to_u64(&g["code"])));
                    if let Some(m) = o.as_object_mut() {
                        m.remove("code");
                    }
                    json!({"code": g["code"], "exp": o})
                })
                .collect()
        })
        .unwrap_or_default();
    out.insert("gets".into(), json!(gets));
    // raw reading of the whole unit
    out.insert(
        "raw".into(),
        guarded(|| {
            let mut v = Vec::new();
            if let Ok(mut r) = h.entries_raw(&abbrevs, None) {
                let mut ent = DebuggingInformationEntry::null();
                let mut guard = 0;
                while !r.is_empty() && guard < 100_000 {
                    guard += 1;
                    let o = raw_read(&mut r, &mut ent);
                    let stop = o["ret"] == "err";
                    v.push(o);
                    if stop {
                        break;
                    }
                }
            }
            json!(v)
        }),
    );
    // entry(offset)
    let ents: Vec<Value> = case["entries"]
        .as_array()
        .map(|a| {
            a.iter()
                .map(|e| {
                    let off = e["off"].as_u64().unwrap_or(0) as usize;
                    let o = guarded(|| match h.entry(&abbrevs, UnitOffset(off)) {
                        Ok(ent) => entry_obs(&ent),
                        Err(er) => json!({"err":err_name(&er)}),
                    });
                    json!({"off": off, "exp": o})
                })
                .collect()
        })
        .unwrap_or_default();
    out.insert("entries".into(), json!(ents));
    let navs: Vec<Value> = case["navs"]
        .as_array()
        .map(|a| a.iter().map(|n| guarded(|| run_nav(&h, &abbrevs, n))).collect())
        .unwrap_or_default();
    out.insert("navs".into(), json!(navs));
    Value::Object(out)
}

fn replay_abbrev(case: &Value) -> Value {
    let table = bytes_of(&case["table"]);
    let da = DebugAbbrev::new(&table, RunTimeEndian::Little);
    match da.abbreviations(DebugAbbrevOffset(0)) {
        Ok(ab) => {
            let gets: Vec<Value> = case["probe"]
                .as_array()
                .map(|a| {
                    a.iter()
                        .map(|c| {
                            let mut o = decl_obs(ab.get(digits_to_u64(c)));
                            if let Some(m) = o.as_object_mut() {
                                m.remove("code");
                            }
                            json!({"code": c, "exp": o})
                        })
                        .collect()
                })
                .unwrap_or_default();
            json!({"ok": true, "gets": gets})
        }
        Err(e) => json!({"ok": false, "err": err_name(&e)}),
    }
}

fn replay(case: &Value) -> Value {
    match case["t"].as_str() {
        Some("stream") => replay_stream(case),
        Some("abbrev") => replay_abbrev(case),
        _ => json!({"outcome":"bad-case"}),
    }
}

// ------------------------------------------------------------------ record

/// Token stream of a unit as EntriesRaw reports it (the hint of the trace).
fn token_hint(h: &UnitHeader<R>, abbrevs: &gimli::Abbreviations, max: usize) -> Option<(Vec<Value>, u64)> {
    let mut r = h.entries_raw(abbrevs, None).ok()?;
    let mut ent = DebuggingInformationEntry::null();
    let mut toks = Vec::new();
    while !r.is_empty() {
        if toks.len() >= max {
            return None;
        }
        match r.read_entry(&mut ent) {
            Ok(true) => toks.push(json!({"k":"e","off":ent.offset().0,"d":ent.depth(),"tag":ent.tag().0,
                "hc":ent.has_children(),"sib":sibling_ref(&ent),"na":ent.attrs().len()})),
            Ok(false) => toks.push(json!({"k":"n","off":ent.offset().0,"d":ent.depth(),"tag":0,"hc":false,"sib":0,"na":0})),
            Err(_) => return None,
        }
    }
    Some((toks, r.next_offset().0 as u64))
}

fn slim(o: &Value) -> Value {
    // entry observation without attribute values
    match o {
        Value::Object(m) => {
            let mut m = m.clone();
            m.remove("attrs");
            Value::Object(m)
        }
        _ => o.clone(),
    }
}
fn slim_step(mut o: Value) -> Value {
    for k in ["cur", "ent"] {
        if let Some(c) = o.get(k).cloned() {
            o[k] = slim(&c);
        }
    }
    o
}

/// Random traversals of one unit; `toks` is the hint (for picking start offsets only).
fn drive_unit(h: &UnitHeader<R>, abbrevs: &gimli::Abbreviations, toks: &[Value], rng: &mut Rng, evs: &mut Vec<Value>, budget: usize) {
    let entry_idx: Vec<usize> = toks.iter().enumerate().filter(|(_, t)| t["k"] == "e").map(|(i, _)| i).collect();
    if entry_idx.is_empty() {
        return;
    }
    let pick_start = |rng: &mut Rng| -> (i64, Option<UnitOffset>) {
        if rng.chance(1, 3) {
            (0, None)
        } else {
            let i = *rng.pick(&entry_idx);
            ((i + 1) as i64, Some(UnitOffset(toks[i]["off"].as_u64().unwrap() as usize)))
        }
    };
    let mut used = 0usize;
    while used < budget {
        match rng.below(10) {
            0..=4 => {
                // cursor with random interleaving
                let (si, so) = pick_start(rng);
                let mut c = match so {
                    None => h.entries(abbrevs),
                    Some(o) => match h.entries_at_offset(abbrevs, o) {
                        Ok(c) => c,
                        Err(_) => continue,
                    },
                };
                evs.push(json!({"ev":"Open","api":"cursor","start":si}));
                let style = rng.below(4);
                let n = rng.range(3, 60);
                for _ in 0..n {
                    let op = match style {
                        0 => "d",
                        1 => *rng.pick(&["d", "s", "s"]),
                        2 => *rng.pick(&["e", "s", "d"]),
                        _ => *rng.pick(&["e", "d", "s", "k", "s"]),
                    };
                    let o = slim_step(guarded(|| cursor_op(&mut c, op)));
                    let mut e = json!({"ev":"C","op":op});
                    e["obs"] = o;
                    evs.push(e);
                    used += 1;
                }
            }
            5..=7 => {
                // tree walk with random descents, early ascents and re-rooting
                let (si, so) = pick_start(rng);
                let mut t = match h.entries_tree(abbrevs, so) {
                    Ok(t) => t,
                    Err(_) => continue,
                };
                evs.push(json!({"ev":"Open","api":"tree","start":si}));
                // generate a script by simulating only the stack discipline
                let n = rng.range(4, 50) as usize;
                let mut script: Vec<String> = vec!["R".into()];
                // the legality of D depends on results; over-generate and let the
                // interpreter stop at the first op that cannot be executed
                let mut depth = 0i64;
                let mut may_descend = true;
                for _ in 0..n {
                    let op = if may_descend && rng.chance(2, 3) {
                        "D"
                    } else if depth > 0 {
                        *rng.pick(&["N", "N", "N", "A"])
                    } else if rng.chance(1, 6) {
                        "R"
                    } else {
                        break;
                    };
                    match op {
                        "D" => {
                            depth += 1;
                            may_descend = false;
                        }
                        "N" => may_descend = true,
                        "A" => {
                            depth -= 1;
                            may_descend = false;
                        }
                        _ => {
                            depth = 0;
                            may_descend = true;
                        }
                    }
                    script.push(op.into());
                }
                let mut run = TreeRun { script: &script, pos: 0, out: Vec::new() };
                let r = guarded(|| {
                    run.run(&mut t);
                    json!(null)
                });
                if r.get("outcome").is_some() {
                    evs.push(json!({"ev":"T","op":"?","obs":r}));
                }
                for (i, o) in run.out.iter().enumerate() {
                    if o["ret"] == "bad-op" {
                        // D after a None / exhausted: not an enabled call, stop here
                        break;
                    }
                    evs.push(json!({"ev":"T","op":script[i],"obs":slim_step(o.clone())}));
                    used += 1;
                }
            }
            8 => {
                // positioned raw reading
                let (si, so) = pick_start(rng);
                let mut r = match h.entries_raw(abbrevs, so) {
                    Ok(r) => r,
                    Err(_) => continue,
                };
                evs.push(json!({"ev":"Open","api":"raw","start":si}));
                let mut ent = DebuggingInformationEntry::null();
                let n = rng.range(1, 40);
                for _ in 0..n {
                    if r.is_empty() {
                        break;
                    }
                    let o = slim_step(guarded(|| raw_read(&mut r, &mut ent)));
                    evs.push(json!({"ev":"R","obs":o}));
                    used += 1;
                }
            }
            _ => {
                // entry(offset) at an entry and (sometimes) at a null
                let i = rng.below(toks.len() as u64) as usize;
                let off = toks[i]["off"].as_u64().unwrap() as usize;
                let o = guarded(|| match h.entry(abbrevs, UnitOffset(off)) {
                    Ok(e) => json!({"ret":"entry","ent":slim(&entry_obs(&e))}),
                    Err(e) => json!({"ret":"err","err":err_name(&e)}),
                });
                evs.push(json!({"ev":"E","tok":i + 1,"obs":o}));
                used += 1;
            }
        }
    }
}

fn record_one(h: &UnitHeader<R>, da: &DebugAbbrev<R>, built: Option<&Vec<Value>>, rng: &mut Rng, evs: &mut Vec<Value>,
              per_unit: usize, src: &str, max_toks: usize) -> bool {
    let abbrevs = match h.abbreviations(da) {
        Ok(a) => a,
        Err(_) => return false,
    };
    let (toks, end) = match token_hint(h, &abbrevs, max_toks) {
        Some(x) => x,
        None => return false,
    };
    if toks.is_empty() {
        return false;
    }
    evs.push(json!({"ev":"Unit","src":src,"toks":toks,"end":end,"root":h.root_offset().0,
                    "hasbuilt": built.is_some(),
                    "built": built.cloned().map(Value::Array).unwrap_or(json!([]))}));
    drive_unit(h, &abbrevs, &toks, rng, evs, per_unit);
    true
}

fn record_sections(info: &[u8], abbrev: &[u8], types: Option<&[u8]>, en: RunTimeEndian, built: Option<&Vec<Value>>, rng: &mut Rng,
                   evs: &mut Vec<Value>, max_units: usize, per_unit: usize, src: &str, max_toks: usize, skip: u64) {
    let da = DebugAbbrev::new(abbrev, en);
    let mut it = DebugInfo::new(info, en).units();
    let mut n = 0;
    while let Ok(Some(h)) = it.next() {
        if n >= max_units {
            break;
        }
        if skip > 0 && rng.below(skip) != 0 {
            continue;
        }
        if record_one(&h, &da, built, rng, evs, per_unit, src, max_toks) {
            n += 1;
        }
    }
    if let Some(t) = types {
        let mut it = DebugTypes::new(t, en).units();
        let mut n = 0;
        while let Ok(Some(h)) = it.next() {
            if n >= max_units {
                break;
            }
            if record_one(&h, &da, built, rng, evs, per_unit, src, max_toks) {
                n += 1;
            }
        }
    }
}

fn record_dir(dir: &str, src: &str, rng: &mut Rng, evs: &mut Vec<Value>, max_units: usize, per_unit: usize, max_toks: usize, skip: u64) {
    for (i, a, t) in [("debug_info", "debug_abbrev", "debug_types"), ("debug_info.dwo", "debug_abbrev.dwo", "debug_types.dwo")] {
        if let (Ok(info), Ok(abbrev)) = (std::fs::read(format!("{}/{}", dir, i)), std::fs::read(format!("{}/{}", dir, a))) {
            let types = std::fs::read(format!("{}/{}", dir, t)).ok();
            record_sections(&info, &abbrev, types.as_deref(), RunTimeEndian::Little, None, rng, evs, max_units, per_unit, src, max_toks, skip);
        }
    }
}

fn record(out: &str, a: &Args) {
    use gimli::write;
    let mut rng = Rng::new(a.num("--seed", 1));
    let n = a.num("--n", 20) as usize;
    let per_unit = a.num("--steps", 300) as usize;
    let maxn = a.num("--max", 2000);
    let mut evs: Vec<Value> = Vec::new();
    let tags = [gimli::DW_TAG_subprogram, gimli::DW_TAG_variable, gimli::DW_TAG_lexical_block, gimli::DW_TAG_typedef,
        gimli::DW_TAG_structure_type, gimli::DW_TAG_member, gimli::DW_TAG_namespace, gimli::DW_TAG_GNU_call_site];
    for k in 0..n {
        let version = *rng.pick(&[2u16, 3, 4, 5]);
        let format = if rng.chance(1, 3) { gimli::Format::Dwarf64 } else { gimli::Format::Dwarf32 };
        let address_size = *rng.pick(&[4u8, 8]);
        let encoding = gimli::Encoding { version, format, address_size };
        let le = rng.chance(1, 2);
        let mut dwarf = write::Dwarf::new();
        let uid = dwarf.units.add(write::Unit::new(encoding, write::LineProgram::none()));
        let unit = dwarf.units.get_mut(uid);
        let count = rng.range(50, maxn.max(50)) as usize;
        let shape = k % 4; // 0 random, 1 deep chain segments, 2 wide, 3 bushy
        let sib_mode = rng.below(3); // 0 none, 1 all, 2 random
        let root = unit.root();
        let mut nodes = vec![root];
        let mut spine = vec![root];
        for i in 1..count {
            let parent = match shape {
                1 => {
                    if rng.chance(1, 40) && spine.len() > 1 {
                        let cut = rng.range(1, spine.len() as u64 - 1) as usize;
                        spine.truncate(cut);
                    }
                    if spine.len() > 400 {
                        spine.truncate(200);
                    }
                    *spine.last().unwrap()
                }
                2 => {
                    if rng.chance(9, 10) {
                        root
                    } else {
                        *rng.pick(&nodes)
                    }
                }
                3 => {
                    let back = rng.below(8).min(spine.len() as u64 - 1) as usize;
                    spine.truncate(spine.len() - back);
                    *spine.last().unwrap()
                }
                _ => *rng.pick(&nodes),
            };
            let id = unit.add(parent, *rng.pick(&tags));
            unit.get_mut(id).set(gimli::DW_AT_decl_line, write::AttributeValue::Udata(i as u64));
            if rng.chance(1, 4) {
                unit.get_mut(id).set(gimli::DW_AT_external, write::AttributeValue::Flag(true));
            }
            nodes.push(id);
            if shape == 1 || shape == 3 {
                spine.push(id);
            }
        }
        for id in &nodes {
            let s = match sib_mode {
                0 => false,
                1 => true,
                _ => rng.chance(1, 2),
            };
            unit.get_mut(*id).set_sibling(s);
        }
        // the structure that was asked for: preorder (tag, depth)
        let mut built = Vec::new();
        let mut stack = vec![(root, 0i64)];
        while let Some((id, d)) = stack.pop() {
            let e = unit.get(id);
            built.push(json!({"tag": e.tag().0, "d": d, "hc": e.children().count() > 0}));
            let kids: Vec<_> = e.children().cloned().collect();
            for c in kids.into_iter().rev() {
                stack.push((c, d + 1));
            }
        }
        let mut sections = write::Sections::new(write::EndianVec::new(endian(le)));
        if dwarf.write(&mut sections).is_err() {
            continue;
        }
        let info = sections.debug_info.slice().to_vec();
        let abbrev = sections.debug_abbrev.slice().to_vec();
        record_sections(&info, &abbrev, None, endian(le), Some(&built), &mut rng, &mut evs, 1, per_unit, "writer", 100_000, 0);
    }
    // the repository's own fixture and the compiled corpus
    let fx = a.opt("--fixture").unwrap_or("");
    if !fx.is_empty() {
        let units = a.num("--fixture-units", 8) as usize;
        let max_toks = a.num("--fixture-max", 6000) as usize;
        record_dir(fx, "fixture", &mut rng, &mut evs, units, per_unit, max_toks, 3);
    }
    if let Some(c) = a.opt("--corpus") {
        let mut dirs: Vec<_> = std::fs::read_dir(c).map(|d| d.filter_map(|e| e.ok()).map(|e| e.path()).collect()).unwrap_or_default();
        dirs.sort();
        let steps = a.num("--corpus-steps", 120) as usize;
        for d in dirs {
            let name = d.file_name().and_then(|n| n.to_str()).unwrap_or("").to_string();
            if !d.is_dir() || name.ends_with("_dwp") {
                continue; // packages need the index sections to find each unit's abbreviations
            }
            record_dir(d.to_str().unwrap_or(""), &format!("corpus/{}", name), &mut rng, &mut evs, 6, steps, 6000, 0);
        }
    }
    write_lines(out, &evs);
}

fn main() {
    main_with(replay, record);
}
