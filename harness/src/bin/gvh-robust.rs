//! C01 driver: untrusted DWARF never panics / aborts / hangs, and every lazy
//! iterator follows the protocol of spec/IterProto.tla.
//!
//! `replay` takes small JSON *recipes*:
//!   {"sys":"robust","base":"self"|"corpus:<v>"|"gen"|"raw","seed":n,"gseed":n,
//!    "mut":[{"k":"trunc"|"flip"|"splice"|"extreme"|"fill"|"repeat",...}],
//!    "reader":"slice"|"faulty","fail_at":k|null,"endian":"le"|"be",
//!    "sections":{name:[bytes]},"only":[group,...],"tails":{"sec":s,"tails":[[..],..]}}
//! builds the sections (files, gimli's own writer used as a generator of valid
//! input, or the bytes given), applies the mutations, and drives every public
//! reading entry point over them.  No DWARF semantics and no expectations live
//! here: it counts `Ok`/`Err` per entry point, records the run-length-encoded
//! result sequence of every pumped iterator, and turns panics into data.
#![allow(clippy::all)]
use gimli::read::{self, Reader, Section};
use gimli::{
    BaseAddresses, DebugAbbrevOffset, DebugAddrBase, DebugAddrIndex, DebugInfoOffset,
    DebugLineOffset, DebugLineStrOffset, DebugLocListsBase, DebugLocListsIndex,
    DebugMacinfoOffset, DebugMacroOffset, DebugRngListsBase, DebugRngListsIndex, DebugStrOffset,
    DebugStrOffsetsBase, DebugStrOffsetsIndex, DebugTypeSignature, DwarfFileType, DwoId, Encoding,
    EndianSlice, Format, LocationListsOffset, RangeListsOffset, RunTimeEndian, SectionId,
    UnitOffset, UnwindSection,
};
use gvh::interpose::{Log, TracingReader};
use gvh::*;
use serde_json::{json, Map, Value as J};
use std::cell::RefCell;
use std::collections::BTreeMap;
use std::rc::Rc;

include!("robust/core.rs");
include!("robust/mutate.rs");
include!("robust/drive_units.rs");
include!("robust/drive_sections.rs");
include!("robust/drive_cfi.rs");
include!("robust/drive_convert.rs");
include!("robust/gen.rs");
include!("robust/entry.rs");
