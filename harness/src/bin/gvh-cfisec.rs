//! C05 driver: CIE/FDE iteration and the three address-lookup paths of
//! `gimli::read::cfi` (replay), and `.eh_frame_hdr` binary-search traces on
//! large random tables (record).  No expectations and no DWARF decoding live
//! here: sections come from the TLA+ encoders (replay) or are laid out from
//! values whose layout the trace spec re-derives (record); this file only
//! calls gimli's public API and prints what it reported.
use gimli::{
    BaseAddresses, CallFrameInstruction, CieOrFde, CommonInformationEntry, DebugFrame, EhFrame,
    EhFrameHdr, EndianSlice, FrameDescriptionEntry, Pointer, Reader, RunTimeEndian,
    SectionBaseAddresses, UnwindContext, UnwindOffset, UnwindSection,
};
use gvh::interpose::TracingReader;
use gvh::*;
use serde_json::{json, Value};

fn endian(le: bool) -> RunTimeEndian {
    if le {
        RunTimeEndian::Little
    } else {
        RunTimeEndian::Big
    }
}

fn opt_bv(v: &Value) -> Option<u64> {
    match v.as_array() {
        Some(a) if !a.is_empty() => Some(unbv(v)),
        _ => None,
    }
}

fn sec_bases(v: &Value) -> SectionBaseAddresses {
    SectionBaseAddresses {
        section: opt_bv(&v["section"]),
        text: opt_bv(&v["text"]),
        data: opt_bv(&v["data"]),
    }
}

fn errv(e: &gimli::Error) -> Value {
    json!({"ok":false,"err":err_name(e)})
}

fn ptr_kv(p: Pointer) -> (&'static str, u64) {
    match p {
        Pointer::Direct(v) => ("direct", v),
        Pointer::Indirect(v) => ("indirect", v),
    }
}

fn ins_json<R: Reader<Offset = usize>>(mut it: gimli::CallFrameInstructionIter<'_, R>) -> Value {
    let mut out = Vec::new();
    loop {
        match it.next() {
            Ok(Some(CallFrameInstruction::Nop)) => out.push(json!(["nop"])),
            Ok(Some(CallFrameInstruction::AdvanceLoc { delta })) => out.push(json!(["adv", delta])),
            Ok(Some(other)) => out.push(json!(["other", format!("{:?}", other)])),
            Ok(None) => break,
            Err(e) => {
                out.push(json!(["err", err_name(&e)]));
                break;
            }
        }
    }
    Value::Array(out)
}

fn cie_json<R: Reader<Offset = usize>, S: UnwindSection<R>>(
    c: &CommonInformationEntry<R>,
    sec: &S,
    bases: &BaseAddresses,
) -> Value {
    let aug = match c.augmentation() {
        None => json!({"some":false}),
        Some(_) => {
            let pers = match c.personality_with_encoding() {
                None => json!({"some":false}),
                Some((e, p)) => {
                    let (k, v) = ptr_kv(p);
                    json!({"some":true,"enc":e.0,"k":k,"v":bv(v,8)})
                }
            };
            json!({"some":true,
                   "lsda": c.lsda_encoding().map(|e| e.0 as i64).unwrap_or(-1),
                   "pers": pers,
                   "fenc": c.fde_address_encoding().map(|e| e.0 as i64).unwrap_or(-1),
                   "sig": c.is_signal_trampoline()})
        }
    };
    let enc = c.encoding();
    json!({"t":"cie","off":c.offset(),"len":c.entry_len(),
           "fmt": if enc.format == gimli::Format::Dwarf64 {64} else {32},
           "ver":c.version(),"asz":c.address_size(),
           "caf":bv(c.code_alignment_factor(),8),"daf":bv(c.data_alignment_factor() as u64,8),
           "ra":c.return_address_register().0,"aug":aug,"ins":ins_json(c.instructions(sec, bases))})
}

fn fde_parsed_json<R: Reader<Offset = usize>, S: UnwindSection<R>>(
    f: &FrameDescriptionEntry<R>,
    sec: &S,
    bases: &BaseAddresses,
) -> Value {
    let lsda = match f.lsda() {
        None => json!({"some":false}),
        Some(p) => {
            let (k, v) = ptr_kv(p);
            json!({"some":true,"k":k,"v":bv(v,8)})
        }
    };
    json!({"ok":true,"cie":cie_json(f.cie(), sec, bases),
           "start":bv(f.initial_address(),8),"rng":bv(f.len(),8),"end":bv(f.end_address(),8),
           "lsda":lsda,"ins":ins_json(f.instructions(sec, bases))})
}

/// Iterate the section with `entries()`; each FDE is fully parsed with
/// `cie_from_offset`.  After the end (or an error) the iterator is pumped
/// twice more and must keep returning `None`.
fn entries_json<R, S>(sec: &S, bases: &BaseAddresses) -> Value
where
    R: Reader<Offset = usize>,
    S: UnwindSection<R>,
    S::Offset: UnwindOffset<usize>,
{
    let mut out = Vec::new();
    let mut it = sec.entries(bases);
    let end;
    loop {
        match it.next() {
            Ok(None) => {
                end = json!({"ok":true});
                break;
            }
            Err(e) => {
                end = errv(&e);
                break;
            }
            Ok(Some(CieOrFde::Cie(c))) => out.push(cie_json(&c, sec, bases)),
            Ok(Some(CieOrFde::Fde(p))) => {
                let parsed = match p.parse(S::cie_from_offset) {
                    Ok(f) => {
                        let mut v = fde_parsed_json(&f, sec, bases);
                        // the fully parsed entry must agree with the partial one
                        if f.offset() != p.offset() || f.entry_len() != p.entry_len() {
                            v["partial_mismatch"] = json!(true);
                        }
                        v
                    }
                    Err(e) => errv(&e),
                };
                out.push(json!({"t":"fde","off":p.offset(),"len":p.entry_len(),
                                "cie_off": UnwindOffset::into(p.cie_offset()),"p":parsed}));
            }
        }
    }
    let mut fused = true;
    for _ in 0..2 {
        if !matches!(it.next(), Ok(None)) {
            fused = false;
        }
    }
    json!({"ents":out,"end":end,"fused":fused})
}

fn row_json<R: Reader<Offset = usize>>(
    r: gimli::Result<&gimli::UnwindTableRow<R::Offset>>,
) -> Value {
    match r {
        Ok(row) => json!({"ok":true,"row":[bv(row.start_address(),8), bv(row.end_address(),8)]}),
        Err(e) => errv(&e),
    }
}

fn lookups<R, S>(sec: &S, bases: &BaseAddresses, a: u64) -> (Value, Value)
where
    R: Reader<Offset = usize>,
    S: UnwindSection<R>,
    S::Offset: UnwindOffset<usize>,
{
    let scan = match sec.fde_for_address(bases, a, S::cie_from_offset) {
        Ok(f) => json!({"ok":true,"off":f.offset()}),
        Err(e) => errv(&e),
    };
    let mut ctx = UnwindContext::new();
    let uw = row_json::<R>(sec.unwind_info_for_address(bases, &mut ctx, a, S::cie_from_offset));
    (scan, uw)
}

fn pair_json(r: gimli::Result<Option<(Pointer, Pointer)>>) -> Value {
    match r {
        Ok(Some((f, t))) => {
            let (fk, fv) = ptr_kv(f);
            let (tk, tv) = ptr_kv(t);
            json!({"ok":true,"some":true,"l":{"k":fk,"v":bv(fv,8)},"p":{"k":tk,"v":bv(tv,8)}})
        }
        Ok(None) => json!({"ok":true,"some":false}),
        Err(e) => errv(&e),
    }
}

fn replay(case: &Value) -> Value {
    let le = case["le"].as_bool().unwrap_or(true);
    let asz = case["asz"].as_u64().unwrap_or(8) as u8;
    let secb = bytes_of(&case["sec"]);
    let hdrb = bytes_of(&case["hdr"]);
    let bases = BaseAddresses {
        eh_frame: sec_bases(&case["eb"]),
        eh_frame_hdr: sec_bases(&case["hb"]),
    };
    let probes: Vec<u64> = case["probes"].as_array().map(|a| a.iter().map(unbv).collect()).unwrap_or_default();
    let mut out = json!({});
    if case["kind"] == "debug" {
        let mut s = DebugFrame::new(&secb, endian(le));
        s.set_address_size(asz);
        out["it"] = entries_json(&s, &bases);
        let mut look = Vec::new();
        for &a in &probes {
            let (scan, uw) = lookups(&s, &bases, a);
            look.push(json!({"a":bv(a,8),"scan":scan,"uw":uw}));
        }
        out["look"] = Value::Array(look);
        return out;
    }
    let mut s = EhFrame::new(&secb, endian(le));
    s.set_address_size(asz);
    if case["nosec"] != json!(true) {
        out["it"] = entries_json(&s, &bases);
    }
    let hdr = EhFrameHdr::new(&hdrb, endian(le));
    let parsed = if hdrb.is_empty() { None } else { Some(hdr.parse(&bases, asz)) };
    let mut table = None;
    match &parsed {
        None => {}
        Some(Err(e)) => out["hdr"] = errv(e),
        Some(Ok(p)) => {
            let (k, v) = ptr_kv(p.eh_frame_ptr());
            table = p.table();
            let mut h = json!({"ok":true,"ptr":{"k":k,"v":bv(v,8)},"table":table.is_some()});
            if let Some(t) = &table {
                let mut rows = Vec::new();
                let mut it = t.iter(&bases);
                let mut n = 0;
                loop {
                    let r = it.next();
                    let stop = !matches!(r, Ok(Some(_)));
                    rows.push(pair_json(r));
                    n += 1;
                    if stop || n > 10000 {
                        break;
                    }
                }
                h["iter"] = Value::Array(rows);
                let mut nth = Vec::new();
                for k in case["nth"].as_array().cloned().unwrap_or_default() {
                    let k = k.as_u64().unwrap_or(0) as usize;
                    nth.push(pair_json(t.iter(&bases).nth(k)));
                }
                h["nth"] = Value::Array(nth);
            }
            out["hdr"] = h;
        }
    }
    let mut look = Vec::new();
    for &a in &probes {
        let mut l = json!({"a":bv(a,8)});
        if case["nosec"] != json!(true) {
            let (scan, uw) = lookups(&s, &bases, a);
            l["scan"] = scan;
            l["uw"] = uw;
        }
        if let Some(t) = &table {
            l["hl"] = match t.lookup(a, &bases) {
                Ok(p) => {
                    let (k, v) = ptr_kv(p);
                    json!({"ok":true,"k":k,"v":bv(v,8)})
                }
                Err(e) => errv(&e),
            };
            if case["nosec"] != json!(true) {
                l["hf"] = match t.fde_for_address(&s, &bases, a, EhFrame::cie_from_offset) {
                    Ok(f) => json!({"ok":true,"off":f.offset()}),
                    Err(e) => errv(&e),
                };
                let mut ctx = UnwindContext::new();
                l["hu"] = row_json::<EndianSlice<RunTimeEndian>>(t.unwind_info_for_address(
                    &s,
                    &bases,
                    &mut ctx,
                    a,
                    EhFrame::cie_from_offset,
                ));
            }
        }
        look.push(l);
    }
    out["look"] = Value::Array(look);
    out
}

// ---------------------------------------------------------------- record (V)
//
// Random sorted tables of 1..=2000 FDEs.  The .eh_frame section is produced by
// gimli's own writer; the .eh_frame_hdr bytes are laid out here from the values
// listed in the `Table` event (version, three encoding bytes, eh_frame_ptr,
// count, rows) and the trace spec re-encodes them with CfiCodec!EncHdr for the
// small tables, so a wrong layout cannot hide a wrong byte.  Everything else in
// the events is what gimli reported: the FDE list from `entries()`, the table
// rows from `EhHdrTableIter`, the reader operations of `lookup` from
// `TracingReader`, and the lookup results.

fn put(out: &mut Vec<u8>, v: u64, n: usize, le: bool) {
    let b = v.to_le_bytes();
    if le {
        out.extend_from_slice(&b[..n]);
    } else {
        out.extend(b[..n].iter().rev());
    }
}

fn record(out: &str, a: &Args) {
    use gimli::write::{self, Address, EndianVec};
    let mut rng = Rng::new(a.num("--seed", 1));
    let ntables = a.num("--n", 20);
    let maxn = a.num("--max", 2000);
    let nlook = a.num("--look", 40);
    let mut evs: Vec<Value> = Vec::new();
    for t in 0..ntables {
        let n = match t {
            0 => 1,
            1 => 2,
            2 => 3,
            3 => maxn,
            _ => {
                if rng.chance(1, 2) {
                    rng.range(1, 40.min(maxn))
                } else {
                    rng.range(1, maxn)
                }
            }
        } as usize;
        let le = !rng.chance(1, 4);
        // table entry size 4 or 8 (2-byte entries cannot address n FDEs in general)
        let size: usize = if n <= 60 && rng.chance(1, 3) {
            2
        } else if rng.chance(1, 2) {
            4
        } else {
            8
        };
        let signed = rng.chance(1, 2);
        let datarel = size != 2 && rng.chance(1, 2);
        // strictly increasing, non-overlapping ranges with random gaps
        let step: u64 = if size == 2 { 8 } else { 64 };
        let mut addr: u64 = if size == 2 { 16 } else { 0x1000 + rng.below(0x1000) };
        let mut ranges = Vec::new();
        for _ in 0..n {
            let len = rng.range(1, step);
            ranges.push((addr, len));
            addr += len + if rng.chance(1, 2) { 0 } else { rng.range(1, step) };
        }
        // section order is shuffled (the table is sorted, the section need not be)
        let mut order: Vec<usize> = (0..n).collect();
        for i in (1..n).rev() {
            order.swap(i, rng.below(i as u64 + 1) as usize);
        }
        let enc = gimli::Encoding {
            format: gimli::Format::Dwarf32,
            version: 1,
            address_size: 8,
        };
        let mut ft = write::FrameTable::default();
        let cie = write::CommonInformationEntry::new(enc, 1, -8, gimli::Register(16));
        let cid = ft.add_cie(cie);
        for &i in &order {
            ft.add_fde(cid, write::FrameDescriptionEntry::new(Address::Constant(ranges[i].0), ranges[i].1 as u32));
        }
        let mut w = write::EhFrame(EndianVec::new(endian(le)));
        ft.write_eh_frame(&mut w).expect("write eh_frame");
        let secb = w.0.into_vec();
        // read the FDE list back (hints from gimli)
        let ehbase: u64 = if size == 2 { 0 } else { 0x10_0000 + 16 * rng.below(0x1000) };
        // an unsigned data-relative table can only express targets above its base
        let hdrbase: u64 = if size == 2 {
            0
        } else if datarel && !signed {
            0x800
        } else {
            0x20_0000 + 16 * rng.below(0x1000)
        };
        let mut bases = BaseAddresses::default();
        bases.eh_frame.section = Some(ehbase);
        bases.eh_frame_hdr.section = Some(hdrbase);
        bases.eh_frame_hdr.data = Some(hdrbase);
        let mut s = EhFrame::new(&secb, endian(le));
        s.set_address_size(8);
        let mut fdes: Vec<(usize, u64, u64)> = Vec::new();
        let mut it = s.entries(&bases);
        while let Ok(Some(e)) = it.next() {
            if let CieOrFde::Fde(p) = e {
                let f = p.parse(EhFrame::cie_from_offset).expect("fde");
                fdes.push((f.offset(), f.initial_address(), f.len()));
            }
        }
        if size == 2 && secb.len() > 0x7000 {
            continue;
        }
        // table order = ascending address; fidx[i] = position in the section's FDE list (a hint)
        let mut fidx: Vec<usize> = (0..fdes.len()).collect();
        fidx.sort_by_key(|&i| fdes[i].1);
        let sorted: Vec<(usize, u64, u64)> = fidx.iter().map(|&i| fdes[i]).collect();
        // lay out the header from the listed values
        let fmt: u8 = match (size, signed) {
            (2, false) => 0x02,
            (2, true) => 0x0a,
            (4, false) => 0x03,
            (4, true) => 0x0b,
            (8, false) => 0x04,
            _ => 0x0c,
        };
        let tenc = fmt | if datarel { 0x30 } else { 0 };
        let penc: u8 = 0x04; // udata8, absolute
        let cenc: u8 = 0x03; // udata4
        let mut hb = vec![1u8, penc, cenc, tenc];
        put(&mut hb, ehbase, 8, le);
        put(&mut hb, sorted.len() as u64, 4, le);
        let t0 = hb.len();
        let tbase = if datarel { hdrbase } else { 0 };
        let mut rows_raw = Vec::new();
        for (off, start, _) in &sorted {
            let l = start.wrapping_sub(tbase);
            let p = (ehbase + *off as u64).wrapping_sub(tbase);
            put(&mut hb, l, size, le);
            put(&mut hb, p, size, le);
            rows_raw.push(json!({"l":bv(l,8),"p":bv(p,8)}));
        }
        // plain reader: parse, iterate
        let hdr = EhFrameHdr::new(&hb, endian(le));
        let parsed = hdr.parse(&bases, 8).expect("hdr parse");
        let table = parsed.table().expect("table");
        let mut rows = Vec::new();
        let mut ti = table.iter(&bases);
        while let Ok(Some((f, t))) = ti.next() {
            rows.push(json!([bv(f.pointer(),8), bv(t.pointer(),8)]));
        }
        let small = sorted.len() <= 48;
        evs.push(json!({"ev":"Table","le":le,"size":size,"tenc":tenc,"penc":penc,"cenc":cenc,"t0":t0,
            "ehptr":bv(parsed.eh_frame_ptr().pointer(),8),"hbase":bv(hdrbase,8),
            "rows":rows,"fidx":fidx,
            "fdes":fdes.iter().map(|(o,s,l)| json!([o, bv(*s,8), bv(*l,8)])).collect::<Vec<_>>(),
            "hdr": if small { bytes_json(&hb) } else { json!([]) },
            "raw": if small { Value::Array(rows_raw) } else { json!([]) },
            "count": bv(sorted.len() as u64, 8)}));
        // probes: boundaries of random FDEs, +-1, and random addresses
        let mut probes: Vec<u64> = vec![0, sorted[0].1.wrapping_sub(1), sorted[0].1, addr, addr + 1, u64::MAX];
        for _ in 0..nlook {
            let (_, st, ln) = sorted[rng.below(sorted.len() as u64) as usize];
            match rng.below(6) {
                0 => probes.push(st),
                1 => probes.push(st.wrapping_sub(1)),
                2 => probes.push(st + ln - 1),
                3 => probes.push(st + ln),
                4 => probes.push(st + rng.below(ln)),
                _ => probes.push(rng.range(sorted[0].1.saturating_sub(4), addr + 4)),
            }
        }
        for &a in &probes {
            // lookup through the tracing reader: its Reader operations are the steps
            let tr = TracingReader::new(&hb, endian(le), None, true);
            let log = tr.log.clone();
            let th = EhFrameHdr::from(tr);
            let tp = th.parse(&bases, 8).expect("hdr parse (tracing)");
            let tt = tp.table().expect("table (tracing)");
            log.borrow_mut().events.clear();
            let r = guarded(|| match tt.lookup(a, &bases) {
                Ok(p) => {
                    let (k, v) = ptr_kv(p);
                    json!({"ok":true,"k":k,"v":bv(v,8)})
                }
                Err(e) => errv(&e),
            });
            let steps: Vec<Value> = log.borrow().events.iter().map(|e| json!([e.prim, e.off, e.n])).collect();
            evs.push(json!({"ev":"Lookup","a":bv(a,8),"steps":steps,"res":r}));
            let r = guarded(|| match table.fde_for_address(&s, &bases, a, EhFrame::cie_from_offset) {
                Ok(f) => json!({"ok":true,"off":f.offset()}),
                Err(e) => errv(&e),
            });
            evs.push(json!({"ev":"FdeHdr","a":bv(a,8),"res":r}));
            if sorted.len() <= 300 || rng.chance(1, 8) {
                let r = guarded(|| match s.fde_for_address(&bases, a, EhFrame::cie_from_offset) {
                    Ok(f) => json!({"ok":true,"off":f.offset()}),
                    Err(e) => errv(&e),
                });
                evs.push(json!({"ev":"FdeScan","a":bv(a,8),"res":r}));
            }
        }
    }
    write_lines(out, &evs);
}

fn main() {
    main_with(replay, record);
}
