//! C11 driver: builder calls on `gimli::write::Unit` / `UnitTable` / `Dwarf`, write,
//! read back with `read::Dwarf`, print the forest.
//!
//! The harness performs the calls of a case literally and reports what gimli's
//! reader sees in the produced sections: per unit the entries in section order with
//! offset, depth, tag, attribute (name, form, value), every entry reference resolved
//! to the (unit, preorder index) of the entry at the referenced offset, strings /
//! range lists / location lists / line program references resolved through the
//! reader.  It has no expectations of its own.
use gimli::read;
use gimli::write::{
    self, Address, AttributeValue, DebugInfoRef, EndianVec, Expression, LineProgram, LineString,
    Location, LocationList, Range, RangeList, Sections, Unit, UnitEntryId, UnitId,
};
use gimli::{
    constants, DebugInfoOffset, DebugMacinfoOffset, DebugMacroOffset, DebugStrOffset,
    DebugTypeSignature, DwAt, DwTag, Encoding, EndianSlice, Format, LineEncoding, RunTimeEndian,
    SectionId,
};
use gvh::*;
use serde_json::{json, Value};
use std::collections::HashMap;

type Slice<'a> = EndianSlice<'a, RunTimeEndian>;

fn tag_by_name(name: &str) -> DwTag {
    thread_local! {
        static MAP: HashMap<&'static str, u16> = {
            let mut m = HashMap::new();
            for v in 0..=0xffffu16 {
                if let Some(s) = DwTag(v).static_string() { m.entry(s).or_insert(v); }
            }
            m
        };
    }
    MAP.with(|m| DwTag(*m.get(name).unwrap_or_else(|| panic!("unknown tag {}", name))))
}

fn at_by_name(name: &str) -> DwAt {
    thread_local! {
        static MAP: HashMap<&'static str, u16> = {
            let mut m = HashMap::new();
            for v in 0..=0xffffu16 {
                if let Some(s) = DwAt(v).static_string() { m.entry(s).or_insert(v); }
            }
            m
        };
    }
    MAP.with(|m| DwAt(*m.get(name).unwrap_or_else(|| panic!("unknown attribute {}", name))))
}

fn encoding_of(u: &Value) -> Encoding {
    Encoding {
        version: u["version"].as_u64().unwrap_or(4) as u16,
        format: if u["format"].as_u64() == Some(8) { Format::Dwarf64 } else { Format::Dwarf32 },
        address_size: u["asz"].as_u64().unwrap_or(8) as u8,
    }
}

struct Builder {
    dwarf: write::Dwarf,
    units: Vec<UnitId>,
    /// per unit: model entry index (1-based) -> id
    ids: Vec<Vec<UnitEntryId>>,
    /// per unit: the files added to its line program, in order ("f": n names the n-th)
    files: Vec<Vec<write::FileId>>,
}

fn unbv128(v: &Value) -> u128 {
    let mut r = 0u128;
    if let Some(a) = v.as_array() {
        for (i, b) in a.iter().enumerate().take(16) {
            r |= ((b.as_u64().unwrap_or(0) & 0xff) as u128) << (8 * i);
        }
    }
    r
}

/// The list named by a RangeListRef value: `list` = entries {k, a, b} with
/// k = base | opair | se | slen, or the short form `v` (one start/end entry).
fn range_list_of(val: &Value) -> RangeList {
    let Some(list) = val["list"].as_array() else {
        return RangeList(vec![Range::StartEnd {
            begin: Address::Constant(0x10),
            end: Address::Constant(0x20 + unbv(&val["v"])),
        }]);
    };
    RangeList(
        list.iter()
            .map(|e| {
                let (a, b) = (unbv(&e["a"]), unbv(&e["b"]));
                match e["k"].as_str().expect("entry kind") {
                    "base" => Range::BaseAddress { address: Address::Constant(a) },
                    "opair" => Range::OffsetPair { begin: a, end: b },
                    "se" => Range::StartEnd { begin: Address::Constant(a), end: Address::Constant(b) },
                    "slen" => Range::StartLength { begin: Address::Constant(a), length: b },
                    k => panic!("unknown range entry {}", k),
                }
            })
            .collect(),
    )
}

/// The list named by a LocationListRef value (entries additionally carry raw
/// expression bytes `d`; k may also be defloc).
fn loc_list_of(val: &Value, entry_ref: &dyn Fn(&Value) -> DebugInfoRef) -> LocationList {
    let Some(list) = val["list"].as_array() else {
        let n = unbv(&val["v"]);
        let mut ex = Expression::new();
        ex.op_reg(gimli::Register(n as u16));
        return LocationList(vec![Location::StartEnd {
            begin: Address::Constant(0x10),
            end: Address::Constant(0x20 + n),
            data: ex,
        }]);
    };
    LocationList(
        list.iter()
            .map(|e| {
                let (a, b) = (unbv(&e["a"]), unbv(&e["b"]));
                // "ref": the expression is the (one-byte) operations d followed by DW_OP_call_ref to an entry
                let data = if e["ref"].is_null() {
                    Expression::raw(bytes_of(&e["d"]))
                } else {
                    let mut ex = Expression::new();
                    for b in bytes_of(&e["d"]) {
                        ex.op(gimli::DwOp(b));
                    }
                    ex.op_call_ref(entry_ref(&e["ref"]));
                    ex
                };
                match e["k"].as_str().expect("entry kind") {
                    "base" => Location::BaseAddress { address: Address::Constant(a) },
                    "opair" => Location::OffsetPair { begin: a, end: b, data },
                    "se" => Location::StartEnd { begin: Address::Constant(a), end: Address::Constant(b), data },
                    "slen" => Location::StartLength { begin: Address::Constant(a), length: b, data },
                    "defloc" => Location::DefaultLocation { data },
                    k => panic!("unknown location entry {}", k),
                }
            })
            .collect(),
    )
}

/// Attribute values that do not depend on ids, tables or lists.
fn simple_value(val: &Value) -> AttributeValue {
    let mut b = Builder { dwarf: write::Dwarf::new(), units: Vec::new(), ids: Vec::new(), files: Vec::new() };
    b.value(0, val)
}

impl Builder {
    fn entry(&self, u: usize, e: &Value) -> UnitEntryId {
        self.ids[u][e.as_u64().expect("entry index") as usize - 1]
    }

    fn value(&mut self, u: usize, val: &Value) -> AttributeValue {
        let k = val["k"].as_str().expect("value kind");
        let v = &val["v"];
        let n = unbv(v);
        match k {
            "Address" => AttributeValue::Address(Address::Constant(n)),
            "Block" => AttributeValue::Block(bytes_of(&val["b"])),
            "Data1" => AttributeValue::Data1(n as u8),
            "Data2" => AttributeValue::Data2(n as u16),
            "Data4" => AttributeValue::Data4(n as u32),
            "Data8" => AttributeValue::Data8(n),
            "Data16" => AttributeValue::Data16(unbv128(v)),
            "Sdata" => AttributeValue::Sdata(n as i64),
            "Udata" => AttributeValue::Udata(n),
            "ImplicitConst" => AttributeValue::ImplicitConst(n as i64),
            "Exprloc" => {
                if val["ops"].is_null() {
                    AttributeValue::Exprloc(Expression::raw(bytes_of(&val["b"])))
                } else {
                    AttributeValue::Exprloc(self.expression(u, &val["ops"]))
                }
            }
            "Flag" => AttributeValue::Flag(v.as_bool().unwrap_or(false)),
            "FlagPresent" => AttributeValue::FlagPresent,
            "UnitRef" => AttributeValue::UnitRef(self.entry(u, &val["e"])),
            "DebugInfoRef" => {
                let tu = val["u"].as_u64().expect("ref unit") as usize - 1;
                AttributeValue::DebugInfoRef(DebugInfoRef::Entry(self.units[tu], self.entry(tu, &val["e"])))
            }
            "DebugInfoRefSup" => AttributeValue::DebugInfoRefSup(DebugInfoOffset(n as usize)),
            "LineProgramRef" => AttributeValue::LineProgramRef,
            "LocationListRef" => {
                let list = loc_list_of(val, &|r: &Value| {
                    let tu = r["u"].as_u64().expect("ref unit") as usize - 1;
                    DebugInfoRef::Entry(self.units[tu], self.entry(tu, &r["e"]))
                });
                let unit = self.dwarf.units.get_mut(self.units[u]);
                AttributeValue::LocationListRef(unit.locations.add(list))
            }
            "DebugMacinfoRef" => AttributeValue::DebugMacinfoRef(DebugMacinfoOffset(n as usize)),
            "DebugMacroRef" => AttributeValue::DebugMacroRef(DebugMacroOffset(n as usize)),
            "RangeListRef" => {
                let list = range_list_of(val);
                let unit = self.dwarf.units.get_mut(self.units[u]);
                AttributeValue::RangeListRef(unit.ranges.add(list))
            }
            "DebugTypesRef" => AttributeValue::DebugTypesRef(DebugTypeSignature(n)),
            "StringRef" => AttributeValue::StringRef(self.dwarf.strings.add(bytes_of(&val["s"]))),
            "DebugStrRefSup" => AttributeValue::DebugStrRefSup(DebugStrOffset(n as usize)),
            "LineStringRef" => AttributeValue::LineStringRef(self.dwarf.line_strings.add(bytes_of(&val["s"]))),
            "String" => AttributeValue::String(bytes_of(&val["s"])),
            "Encoding" => AttributeValue::Encoding(constants::DwAte(n as u8)),
            "DecimalSign" => AttributeValue::DecimalSign(constants::DwDs(n as u8)),
            "Endianity" => AttributeValue::Endianity(constants::DwEnd(n as u8)),
            "Accessibility" => AttributeValue::Accessibility(constants::DwAccess(n as u8)),
            "Visibility" => AttributeValue::Visibility(constants::DwVis(n as u8)),
            "Virtuality" => AttributeValue::Virtuality(constants::DwVirtuality(n as u8)),
            "Language" => AttributeValue::Language(constants::DwLang(n as u16)),
            "AddressClass" => AttributeValue::AddressClass(constants::DwAddr(n)),
            "IdentifierCase" => AttributeValue::IdentifierCase(constants::DwId(n as u8)),
            "CallingConvention" => AttributeValue::CallingConvention(constants::DwCc(n as u8)),
            "Inline" => AttributeValue::Inline(constants::DwInl(n as u8)),
            "Ordering" => AttributeValue::Ordering(constants::DwOrd(n as u8)),
            "FileIndex" => match val["f"].as_u64() {
                Some(n) => AttributeValue::FileIndex(Some(self.files[u][n as usize - 1])),
                None => AttributeValue::FileIndex(None),
            },
            _ => panic!("unknown value kind {}", k),
        }
    }

    fn expression(&mut self, u: usize, ops: &Value) -> Expression {
        let mut ex = Expression::new();
        for op in ops.as_array().expect("ops") {
            match op["op"].as_str().expect("op") {
                "raw" => return Expression::raw(bytes_of(&op["b"])),
                "constu" => ex.op_constu(unbv(&op["v"])),
                "deref_type" => ex.op_deref_type(op["size"].as_u64().unwrap_or(4) as u8, self.entry(u, &op["e"])),
                "convert" => ex.op_convert(Some(self.entry(u, &op["e"]))),
                "call" => ex.op_call(self.entry(u, &op["e"])),
                "call_ref" => {
                    let tu = op["u"].as_u64().expect("op unit") as usize - 1;
                    ex.op_call_ref(DebugInfoRef::Entry(self.units[tu], self.entry(tu, &op["e"])))
                }
                o => panic!("unknown op {}", o),
            }
        }
        ex
    }

    fn call(&mut self, c: &Value) {
        let u = c["u"].as_u64().expect("unit") as usize - 1;
        let uid = self.units[u];
        match c["op"].as_str().expect("op") {
            "add" => {
                let p = self.entry(u, &c["p"]);
                let id = self.dwarf.units.get_mut(uid).add(p, tag_by_name(c["tag"].as_str().unwrap()));
                self.ids[u].push(id);
            }
            "reserve" => {
                let id = self.dwarf.units.get_mut(uid).reserve();
                self.ids[u].push(id);
            }
            "add_reserved" => {
                let p = self.entry(u, &c["p"]);
                let e = self.entry(u, &c["e"]);
                self.dwarf.units.get_mut(uid).add_reserved(e, p, tag_by_name(c["tag"].as_str().unwrap()));
            }
            "set" => {
                let e = self.entry(u, &c["e"]);
                let v = self.value(u, &c["val"]);
                self.dwarf.units.get_mut(uid).get_mut(e).set(at_by_name(c["name"].as_str().unwrap()), v);
            }
            "delete" => {
                let e = self.entry(u, &c["e"]);
                self.dwarf.units.get_mut(uid).get_mut(e).delete(at_by_name(c["name"].as_str().unwrap()));
            }
            "sibling" => {
                let e = self.entry(u, &c["e"]);
                self.dwarf.units.get_mut(uid).get_mut(e).set_sibling(c["v"].as_bool().unwrap_or(true));
            }
            "delete_child" => {
                let p = self.entry(u, &c["p"]);
                let e = self.entry(u, &c["e"]);
                self.dwarf.units.get_mut(uid).get_mut(p).delete_child(e);
            }
            o => panic!("unknown call {}", o),
        }
    }
}

fn load<'a>(s: &'a Sections<EndianVec<RunTimeEndian>>, endian: RunTimeEndian) -> read::Dwarf<Slice<'a>> {
    read::Dwarf::load(|id: SectionId| -> Result<Slice<'a>, ()> {
        Ok(EndianSlice::new(s.get(id).map(|w| w.slice()).unwrap_or(&[]), endian))
    })
    .unwrap()
}

type Index = HashMap<usize, (usize, usize)>; // section offset -> (unit, preorder index), 1-based

fn resolve(ix: &Index, off: usize) -> Value {
    match ix.get(&off) {
        Some((u, i)) => json!({"ref": [u, i]}),
        None => json!({"ref": "DANGLING", "off": off}),
    }
}

fn attr_repr<'a>(unit: read::UnitRef<'_, Slice<'a>>, attr: &read::Attribute<Slice<'a>>, ix: &Index) -> Value {
    use read::AttributeValue as A;
    let base = unit.header.offset().0;
    if attr.name() == constants::DW_AT_sibling {
        if let A::UnitRef(o) = attr.value() {
            return json!({"sib": o.0});
        }
    }
    if attr.form() == constants::DW_FORM_implicit_const {
        if let A::Sdata(v) = attr.raw_value() {
            return json!({"implicit": bv(v as u64, 8)});
        }
    }
    match attr.value() {
        A::Addr(v) => json!({"addr": bv(v, 8)}),
        A::Block(b) => json!({"block": bytes_json(b.slice())}),
        A::Data1(v) => json!({"data": 1, "v": bv(v as u64, 8)}),
        A::Data2(v) => json!({"data": 2, "v": bv(v as u64, 8)}),
        A::Data4(v) => json!({"data": 4, "v": bv(v as u64, 8)}),
        A::Data8(v) => json!({"data": 8, "v": bv(v, 8)}),
        A::Data16(v) => json!({"data": 16, "v": bv128(v, 16)}),
        A::Sdata(v) => json!({"sdata": bv(v as u64, 8)}),
        A::Udata(v) => json!({"udata": bv(v, 8)}),
        A::Exprloc(e) => json!({"expr": bytes_json(e.0.slice())}),
        A::Flag(b) => json!({"flag": b}),
        A::UnitRef(o) => resolve(ix, base + o.0),
        A::DebugInfoRef(o) => resolve(ix, o.0),
        A::DebugInfoRefSup(o) => json!({"refsup": bv(o.0 as u64, 8)}),
        A::DebugLineRef(o) => {
            let own = unit.line_program.as_ref().map(|p| p.header().offset());
            json!({"line": if own == Some(o) { json!("own") } else { json!(o.0) }})
        }
        A::LocationListsRef(off) => {
            let mut out = Vec::new();
            match unit.locations(off) {
                Ok(mut it) => loop {
                    match it.next() {
                        Ok(Some(l)) => out.push(json!({"b": bv(l.range.begin, 8), "e": bv(l.range.end, 8),
                                                       "expr": bytes_json(l.data.0.slice())})),
                        Ok(None) => break,
                        Err(e) => { out.push(json!({"err": format!("{:?}", e)})); break; }
                    }
                },
                Err(e) => out.push(json!({"err": format!("{:?}", e)})),
            }
            json!({"loclist": out})
        }
        A::RangeListsRef(off) => {
            let mut out = Vec::new();
            match unit.ranges(unit.ranges_offset_from_raw(off)) {
                Ok(mut it) => loop {
                    match it.next() {
                        Ok(Some(r)) => out.push(json!({"b": bv(r.begin, 8), "e": bv(r.end, 8)})),
                        Ok(None) => break,
                        Err(e) => { out.push(json!({"err": format!("{:?}", e)})); break; }
                    }
                },
                Err(e) => out.push(json!({"err": format!("{:?}", e)})),
            }
            json!({"ranges": out})
        }
        A::DebugMacinfoRef(o) => json!({"macinfo": bv(o.0 as u64, 8)}),
        A::DebugMacroRef(o) => json!({"macro": bv(o.0 as u64, 8)}),
        A::DebugTypesRef(s) => json!({"sig8": bv(s.0, 8)}),
        A::DebugStrRefSup(o) => json!({"strsup": bv(o.0 as u64, 8)}),
        v @ A::DebugStrRef(_) => match unit.attr_string(v) {
            Ok(s) => json!({"strp": bytes_json(s.slice())}),
            Err(e) => json!({"strp_err": format!("{:?}", e)}),
        },
        v @ A::DebugLineStrRef(_) => match unit.attr_string(v) {
            Ok(s) => json!({"line_strp": bytes_json(s.slice())}),
            Err(e) => json!({"line_strp_err": format!("{:?}", e)}),
        },
        A::String(s) => json!({"string": bytes_json(s.slice())}),
        A::Encoding(c) => json!({"const": "Encoding", "v": bv(c.0 as u64, 8)}),
        A::DecimalSign(c) => json!({"const": "DecimalSign", "v": bv(c.0 as u64, 8)}),
        A::Endianity(c) => json!({"const": "Endianity", "v": bv(c.0 as u64, 8)}),
        A::Accessibility(c) => json!({"const": "Accessibility", "v": bv(c.0 as u64, 8)}),
        A::Visibility(c) => json!({"const": "Visibility", "v": bv(c.0 as u64, 8)}),
        A::Virtuality(c) => json!({"const": "Virtuality", "v": bv(c.0 as u64, 8)}),
        A::Language(c) => json!({"const": "Language", "v": bv(c.0 as u64, 8)}),
        A::AddressClass(c) => json!({"const": "AddressClass", "v": bv(c.0, 8)}),
        A::IdentifierCase(c) => json!({"const": "IdentifierCase", "v": bv(c.0 as u64, 8)}),
        A::CallingConvention(c) => json!({"const": "CallingConvention", "v": bv(c.0 as u64, 8)}),
        A::Inline(c) => json!({"const": "Inline", "v": bv(c.0 as u64, 8)}),
        A::Ordering(c) => json!({"const": "Ordering", "v": bv(c.0 as u64, 8)}),
        A::FileIndex(v) => {
            // the path the index resolves to in the unit's line program
            let path = unit.line_program.as_ref().and_then(|p| p.header().file(v)).and_then(|f| {
                unit.attr_string(f.path_name()).ok().map(|s| bytes_json(s.slice()))
            });
            match path {
                Some(p) => json!({"file": bv(v, 8), "path": p}),
                None => json!({"file": bv(v, 8)}),
            }
        }
        other => json!({"other": format!("{:?}", other)}),
    }
}

fn read_back(dwarf: &read::Dwarf<Slice<'_>>) -> Result<Value, String> {
    let err = |e: gimli::Error| format!("{:?}", e);
    let mut hdrs = Vec::new();
    let mut it = dwarf.units();
    while let Some(h) = it.next().map_err(err)? {
        hdrs.push(h);
    }
    // pass 1: index of entry offsets
    let mut ix: Index = HashMap::new();
    for (u, h) in hdrs.iter().enumerate() {
        let unit = dwarf.unit(*h).map_err(err)?;
        let base = unit.header.offset().0;
        let mut raw = unit.entries_raw(None).map_err(err)?;
        let mut e = read::DebuggingInformationEntry::null();
        let mut i = 0;
        while !raw.is_empty() {
            if raw.read_entry(&mut e).map_err(err)? {
                i += 1;
                ix.insert(base + e.offset.0, (u + 1, i));
            }
        }
    }
    let mut units = Vec::new();
    for h in &hdrs {
        let unit = dwarf.unit(*h).map_err(err)?;
        let uref = unit.unit_ref(dwarf);
        let mut raw = unit.entries_raw(None).map_err(err)?;
        let mut e = read::DebuggingInformationEntry::null();
        let mut entries: Vec<Value> = Vec::new();
        // entries with children that are still open: (depth, index into `entries`)
        let mut open: Vec<(isize, usize)> = Vec::new();
        loop {
            // close the subtrees that end before the next position
            let depth = raw.next_depth();
            let pos = raw.next_offset().0;
            while let Some((d, k)) = open.last().copied() {
                if depth <= d {
                    entries[k]["after"] = json!(pos);
                    open.pop();
                } else {
                    break;
                }
            }
            if raw.is_empty() {
                break;
            }
            if !raw.read_entry(&mut e).map_err(err)? {
                continue;
            }
            let attrs: Vec<Value> = e
                .attrs
                .iter()
                .map(|a| json!([a.name().to_string(), a.form().to_string(), attr_repr(uref, a, &ix)]))
                .collect();
            entries.push(json!({"off": e.offset.0, "depth": e.depth, "tag": e.tag.to_string(),
                                "children": e.has_children, "attrs": attrs}));
            if e.has_children {
                open.push((e.depth, entries.len() - 1));
            }
        }
        let enc = unit.encoding();
        units.push(json!({"off": unit.header.offset().0, "version": enc.version,
            "format": enc.format.word_size(), "asz": enc.address_size,
            "len": unit.header.length_including_self(), "entries": entries}));
    }
    Ok(json!(units))
}

fn werr(stage: &str, e: impl std::fmt::Debug) -> Value {
    let s = format!("{:?}", e);
    let name = s.split(|c: char| c == '(' || c == ' ' || c == '{').next().unwrap_or("").to_string();
    json!({"ok": false, "stage": stage, "err": name, "detail": s})
}

fn finish(sections: &Sections<EndianVec<RunTimeEndian>>, endian: RunTimeEndian) -> Value {
    let back = load(sections, endian);
    match read_back(&back) {
        Ok(units) => json!({"ok": true, "units": units,
            "info": bytes_json(sections.debug_info.slice()),
            "abbrev": bytes_json(sections.debug_abbrev.slice()),
            "str": bytes_json(sections.debug_str.slice())}),
        Err(e) => json!({"ok": false, "stage": "readback", "err": e}),
    }
}

fn replay(case: &Value) -> Value {
    let endian = if case["be"].as_bool() == Some(true) { RunTimeEndian::Big } else { RunTimeEndian::Little };
    if case["mode"].as_str() == Some("incremental") {
        return replay_incremental(case, endian);
    }
    let mut b = Builder { dwarf: write::Dwarf::new(), units: Vec::new(), ids: Vec::new(), files: Vec::new() };
    for u in case["units"].as_array().expect("units") {
        let enc = encoding_of(u);
        // "lineprog": the DWARF version of the unit's line program (absent: none)
        let mut files = Vec::new();
        let program = if let Some(pv) = u["lineprog"].as_u64() {
            let penc = Encoding { version: pv as u16, ..enc };
            let mut p = LineProgram::new(
                penc,
                LineEncoding::default(),
                LineString::String(b"/dir".to_vec()),
                None,
                LineString::String(b"primary.c".to_vec()),
                None,
            );
            let dir = p.default_directory();
            // "nfiles" files f1.c, f2.c, ... ("f": n of a FileIndex value names the n-th)
            for k in 1..=u["nfiles"].as_u64().unwrap_or(2) {
                files.push(p.add_file(LineString::String(format!("f{}.c", k).into_bytes()), dir, None));
            }
            p
        } else {
            LineProgram::none()
        };
        let id = b.dwarf.units.add(Unit::new(enc, program));
        let root = b.dwarf.units.get(id).root();
        b.units.push(id);
        b.ids.push(vec![root]);
        b.files.push(files);
    }
    for c in case["calls"].as_array().expect("calls") {
        b.call(c);
    }
    let mut sections = Sections::new(EndianVec::new(endian));
    if let Err(e) = b.dwarf.write(&mut sections) {
        return werr("write", e);
    }
    finish(&sections, endian)
}

/// Incremental per-unit writing.  `ConvertUnit::write` is the only public way to write
/// one unit at a time, so the units are obtained from a conversion of an input that
/// has the same number of units, each with as many (dummy) entries as the script
/// creates ids: the conversion reserves these ids up front in every output unit
/// (id k of the script = k-th reserved id), which also makes references to entries
/// of units that are written later expressible.  `add` of the script becomes
/// `add_reserved` of the pre-reserved id.  Each unit's calls are performed when the
/// unit is reached, then the unit is written; `Dwarf::write` finishes.
fn replay_incremental(case: &Value, endian: RunTimeEndian) -> Value {
    let units = case["units"].as_array().expect("units");
    let calls = case["calls"].as_array().expect("calls");
    // number of ids each unit's script creates
    let mut nids = vec![0usize; units.len()];
    for c in calls {
        if matches!(c["op"].as_str(), Some("add") | Some("reserve")) {
            nids[c["u"].as_u64().unwrap() as usize - 1] += 1;
        }
    }
    // the input: same encodings, dummy entries
    let mut input = write::Dwarf::new();
    for (k, u) in units.iter().enumerate() {
        let id = input.units.add(Unit::new(encoding_of(u), LineProgram::none()));
        let unit = input.units.get_mut(id);
        let root = unit.root();
        for _ in 0..nids[k] {
            unit.add(root, constants::DW_TAG_variable);
        }
    }
    let mut in_sections = Sections::new(EndianVec::new(endian));
    if let Err(e) = input.write(&mut in_sections) {
        return werr("input", e);
    }
    let in_dwarf = load(&in_sections, endian);
    // offsets of all input entries, per unit, in order (root first)
    let mut in_offsets: Vec<Vec<usize>> = Vec::new();
    {
        let mut it = in_dwarf.units();
        while let Ok(Some(h)) = it.next() {
            let unit = in_dwarf.unit(h).expect("input unit");
            let base = unit.header.offset().0;
            let mut raw = unit.entries_raw(None).expect("raw");
            let mut e = read::DebuggingInformationEntry::null();
            let mut v = Vec::new();
            while !raw.is_empty() {
                if raw.read_entry(&mut e).expect("entry") {
                    v.push(base + e.offset.0);
                }
            }
            in_offsets.push(v);
        }
    }
    let mut out = write::Dwarf::new();
    let mut sections = Sections::new(EndianVec::new(endian));
    {
        let mut convert = match out.convert(&in_dwarf) {
            Ok(c) => c,
            Err(e) => return werr("convert_new", e),
        };
        let mut k = 0usize;
        loop {
            let (mut cu, _root) = match convert.read_unit() {
                Ok(Some(x)) => x,
                Ok(None) => break,
                Err(e) => return werr("convert_read_unit", e),
            };
            // ids of every unit's entries through the conversion's reservation table
            let mut uids: Vec<UnitId> = Vec::new();
            let mut ids: Vec<Vec<UnitEntryId>> = Vec::new();
            for offs in &in_offsets {
                let mut v = Vec::new();
                let mut uid = None;
                for o in offs {
                    match cu.convert_debug_info_ref(DebugInfoOffset(*o)) {
                        Ok(DebugInfoRef::Entry(u, e)) => {
                            uid = Some(u);
                            v.push(e);
                        }
                        other => return werr("id_lookup", other),
                    }
                }
                uids.push(uid.expect("unit id"));
                ids.push(v);
            }
            let mut next_id = vec![1usize; units.len()]; // next unused pre-reserved id per unit (0 = root)
            // replay the id allocation of the whole script so that indices agree
            let mut alloc: Vec<Vec<UnitEntryId>> = ids.iter().map(|v| vec![v[0]]).collect();
            for c in calls {
                let u = c["u"].as_u64().unwrap() as usize - 1;
                if matches!(c["op"].as_str(), Some("add") | Some("reserve")) {
                    alloc[u].push(ids[u][next_id[u]]);
                    next_id[u] += 1;
                }
            }
            let ent = |u: usize, e: &Value| -> UnitEntryId { alloc[u][e.as_u64().expect("entry index") as usize - 1] };
            let mut created = 1usize;
            for c in calls {
                let u = c["u"].as_u64().unwrap() as usize - 1;
                if u != k {
                    continue;
                }
                let unit: &mut Unit = &mut *cu.unit;
                match c["op"].as_str().expect("op") {
                    "add" => {
                        let id = alloc[u][created];
                        created += 1;
                        unit.add_reserved(id, ent(u, &c["p"]), tag_by_name(c["tag"].as_str().unwrap()));
                    }
                    "reserve" => created += 1,
                    "add_reserved" => unit.add_reserved(ent(u, &c["e"]), ent(u, &c["p"]), tag_by_name(c["tag"].as_str().unwrap())),
                    "set" => {
                        let val = &c["val"];
                        let v = match val["k"].as_str().expect("kind") {
                            "UnitRef" => AttributeValue::UnitRef(ent(u, &val["e"])),
                            "DebugInfoRef" => {
                                let tu = val["u"].as_u64().unwrap() as usize - 1;
                                AttributeValue::DebugInfoRef(DebugInfoRef::Entry(uids[tu], ent(tu, &val["e"])))
                            }
                            "StringRef" => AttributeValue::StringRef(cu.strings.add(bytes_of(&val["s"]))),
                            "LineStringRef" => AttributeValue::LineStringRef(cu.line_strings.add(bytes_of(&val["s"]))),
                            "Exprloc" if !val["ops"].is_null() => {
                                let mut ex = Expression::new();
                                for op in val["ops"].as_array().expect("ops") {
                                    match op["op"].as_str().expect("op") {
                                        "constu" => ex.op_constu(unbv(&op["v"])),
                                        "deref_type" => ex.op_deref_type(op["size"].as_u64().unwrap_or(4) as u8, ent(u, &op["e"])),
                                        "convert" => ex.op_convert(Some(ent(u, &op["e"]))),
                                        "call" => ex.op_call(ent(u, &op["e"])),
                                        "call_ref" => {
                                            let tu = op["u"].as_u64().unwrap() as usize - 1;
                                            ex.op_call_ref(DebugInfoRef::Entry(uids[tu], ent(tu, &op["e"])))
                                        }
                                        o => panic!("unknown op {}", o),
                                    }
                                }
                                AttributeValue::Exprloc(ex)
                            }
                            "RangeListRef" => AttributeValue::RangeListRef(unit.ranges.add(range_list_of(val))),
                            "LocationListRef" => AttributeValue::LocationListRef(unit.locations.add(loc_list_of(val, &|r: &Value| {
                                let tu = r["u"].as_u64().expect("ref unit") as usize - 1;
                                DebugInfoRef::Entry(uids[tu], ent(tu, &r["e"]))
                            }))),
                            "FileIndex" => return json!({"ok": false, "stage": "unsupported-in-incremental"}),
                            _ => simple_value(val),
                        };
                        unit.get_mut(ent(u, &c["e"])).set(at_by_name(c["name"].as_str().unwrap()), v);
                    }
                    "delete" => unit.get_mut(ent(u, &c["e"])).delete(at_by_name(c["name"].as_str().unwrap())),
                    "sibling" => unit.get_mut(ent(u, &c["e"])).set_sibling(c["v"].as_bool().unwrap_or(true)),
                    "delete_child" => unit.get_mut(ent(u, &c["p"])).delete_child(ent(u, &c["e"])),
                    o => panic!("unknown call {}", o),
                }
            }
            if let Err(e) = cu.write(&mut sections) {
                return werr("write", e);
            }
            k += 1;
        }
    }
    if let Err(e) = out.write(&mut sections) {
        return werr("write", e);
    }
    finish(&sections, endian)
}

// ---------------------------------------------------------------------------
// record: random larger unit tables for UnitWriterTrace.tla.  The generator only
// knows how to call the API (which ids exist); what must come out is the spec's job.

/// (value kind, attribute name under which the reader classifies it)
/// Form-driven kinds sit under vendor attribute names that the reader does not
/// reinterpret by name; name-driven kinds sit under their natural name.
const RANDOM_KINDS: [(&str, &str); 26] = [
    ("RangeListRef", "DW_AT_ranges"), ("LocationListRef", "DW_AT_frame_base"),
    ("Address", "DW_AT_low_pc"), ("Block", "DW_AT_MIPS_fde"), ("Data1", "DW_AT_MIPS_loop_begin"),
    ("Data2", "DW_AT_MIPS_tail_loop_begin"), ("Data4", "DW_AT_MIPS_epilog_begin"), ("Data8", "DW_AT_MIPS_loop_unroll_factor"),
    ("Sdata", "DW_AT_MIPS_software_pipeline_depth"), ("Udata", "DW_AT_MIPS_stride"), ("ImplicitConst", "DW_AT_MIPS_has_inlines"),
    ("Exprloc", "DW_AT_location"), ("Flag", "DW_AT_external"), ("FlagPresent", "DW_AT_artificial"),
    ("DebugTypesRef", "DW_AT_signature"), ("StringRef", "DW_AT_MIPS_abstract_name"), ("LineStringRef", "DW_AT_sf_names"),
    ("String", "DW_AT_src_info"), ("Encoding", "DW_AT_encoding"), ("Language", "DW_AT_language"),
    ("Accessibility", "DW_AT_accessibility"), ("Inline", "DW_AT_inline"), ("DebugInfoRefSup", "DW_AT_MIPS_clone_origin"),
    ("Data16", "DW_AT_body_begin"), ("Virtuality", "DW_AT_virtuality"), ("Ordering", "DW_AT_ordering"),
];
const TAGS: [&str; 8] = ["DW_TAG_variable", "DW_TAG_structure_type", "DW_TAG_subprogram", "DW_TAG_member",
    "DW_TAG_pointer_type", "DW_TAG_typedef", "DW_TAG_lexical_block", "DW_TAG_enumeration_type"];

fn random_value(rng: &mut Rng, kind: &str, asz: u64, word: u64) -> Value {
    let mut v = rng.boundary64();
    let small = |rng: &mut Rng| -> Vec<u8> {
        let n = *rng.pick(&[0u64, 1, 2, 5, 127, 128]);
        (0..n).map(|i| 1 + ((i * 7 + 3) % 250) as u8).collect()
    };
    match kind {
        "Address" => {
            if asz < 8 { v &= (1u64 << (8 * asz)) - 1; }
            json!({"k": kind, "v": bv(v, 8)})
        }
        "Block" => json!({"k": kind, "b": bytes_json(&small(rng))}),
        "Exprloc" => json!({"k": kind, "b": bytes_json(&vec![0x96u8; rng.below(4) as usize])}),
        "Data1" => json!({"k": kind, "v": bv(v & 0xff, 8)}),
        "Data2" => json!({"k": kind, "v": bv(v & 0xffff, 8)}),
        "Data4" => json!({"k": kind, "v": bv(v & 0xffff_ffff, 8)}),
        "Data16" => json!({"k": kind, "v": bv128(((v as u128) << 64) | rng.next() as u128, 16)}),
        "RangeListRef" | "LocationListRef" => {
            // one to three entries; now and then a base address entry followed by offset pairs
            let loc = kind == "LocationListRef";
            let d = |rng: &mut Rng| if loc { json!([0x50 + rng.below(32)]) } else { json!([]) };
            let mut list = Vec::new();
            let based = rng.chance(1, 4);
            if based {
                list.push(json!({"k": "base", "a": bv(0x1000 * rng.range(1, 8), 8), "b": bv(0, 8), "d": []}));
            }
            for i in 0..rng.range(1, 3) {
                let b = 0x100 * (i + 1) + rng.below(16);
                let e = if based {
                    json!({"k": "opair", "a": bv(b, 8), "b": bv(b + 1 + rng.below(64), 8), "d": d(rng)})
                } else if rng.chance(1, 2) {
                    json!({"k": "se", "a": bv(b, 8), "b": bv(b + 1 + rng.below(64), 8), "d": d(rng)})
                } else {
                    json!({"k": "slen", "a": bv(b, 8), "b": bv(1 + rng.below(64), 8), "d": d(rng)})
                };
                list.push(e);
            }
            json!({"k": kind, "list": list})
        }
        "Flag" => json!({"k": kind, "v": rng.chance(1, 2)}),
        "FlagPresent" => json!({"k": kind}),
        "StringRef" | "LineStringRef" | "String" => {
            let words: [&[u8]; 6] = [b"", b"a", b"int", b"main", b"a_rather_long_identifier_name", b"x"];
            let w: &[u8] = words[rng.below(words.len() as u64) as usize];
            json!({"k": kind, "s": bytes_json(w)})
        }
        "Encoding" | "Accessibility" | "Inline" | "Virtuality" | "Ordering" => json!({"k": kind, "v": bv(v & 0xff, 8)}),
        "Language" => json!({"k": kind, "v": bv(v & 0xffff, 8)}),
        "DebugInfoRefSup" => {
            if word == 4 { v &= 0xffff_ffff; }
            json!({"k": kind, "v": bv(v, 8)})
        }
        _ => json!({"k": kind, "v": bv(v, 8)}),
    }
}

fn random_script(rng: &mut Rng, lo: u64, hi: u64) -> Value {
    let nunits = rng.range(1, 4) as usize;
    let total = rng.range(lo, hi) as usize;
    let mut units = Vec::new();
    for _ in 0..nunits {
        units.push(json!({"version": rng.range(2, 5), "format": *rng.pick(&[4u64, 4, 8]), "asz": *rng.pick(&[4u64, 8])}));
    }
    let mut calls: Vec<Value> = Vec::new();
    // per unit: ids 1.. (1 = root); state of each id
    let mut added: Vec<Vec<usize>> = vec![vec![1]; nunits];
    let mut reserved_only: Vec<Vec<usize>> = vec![Vec::new(); nunits];
    let mut next_id: Vec<usize> = vec![2; nunits];
    for k in 0..total {
        let u = k * nunits / total;
        if rng.chance(1, 10) {
            calls.push(json!({"op": "reserve", "u": u + 1}));
            reserved_only[u].push(next_id[u]);
            next_id[u] += 1;
            continue;
        }
        let p = if rng.chance(2, 5) { 1 } else { *rng.pick(&added[u]) };
        let tag = if p == 1 && rng.chance(1, 6) { "DW_TAG_base_type" } else { *rng.pick(&TAGS) };
        if !reserved_only[u].is_empty() && rng.chance(1, 3) {
            let i = rng.below(reserved_only[u].len() as u64) as usize;
            let e = reserved_only[u].remove(i);
            calls.push(json!({"op": "add_reserved", "u": u + 1, "e": e, "p": p, "tag": tag}));
            added[u].push(e);
        } else {
            calls.push(json!({"op": "add", "u": u + 1, "p": p, "tag": tag}));
            added[u].push(next_id[u]);
            next_id[u] += 1;
        }
    }
    // attributes and references
    for u in 0..nunits {
        let asz = units[u]["asz"].as_u64().unwrap();
        let word = units[u]["format"].as_u64().unwrap();
        let ids = added[u].clone();
        for &e in &ids {
            let n = rng.below(4);
            for _ in 0..n {
                let (mut kind, mut name) = *rng.pick(&RANDOM_KINDS);
                if e == 1 && kind == "Address" && !rng.chance(1, 8) {
                    (kind, name) = ("Udata", "DW_AT_MIPS_stride");
                }
                calls.push(json!({"op": "set", "u": u + 1, "e": e, "name": name, "val": random_value(rng, kind, asz, word)}));
            }
            if e != 1 && rng.chance(1, 3) {
                let t = *rng.pick(&ids);
                calls.push(json!({"op": "set", "u": u + 1, "e": e, "name": "DW_AT_type", "val": {"k": "UnitRef", "e": t}}));
            }
            if e != 1 && rng.chance(1, 5) {
                let tu = rng.below(nunits as u64) as usize;
                let t = *rng.pick(&added[tu]);
                calls.push(json!({"op": "set", "u": u + 1, "e": e, "name": "DW_AT_abstract_origin",
                                  "val": {"k": "DebugInfoRef", "u": tu + 1, "e": t}}));
            }
            if rng.chance(1, 5) {
                calls.push(json!({"op": "sibling", "u": u + 1, "e": e, "v": true}));
            }
            if rng.chance(1, 25) {
                calls.push(json!({"op": "delete", "u": u + 1, "e": e, "name": "DW_AT_type"}));
            }
        }
    }
    // now and then an entry is removed again (references to it become unencodable)
    if rng.chance(1, 4) {
        let u = rng.below(nunits as u64) as usize;
        if added[u].len() > 2 {
            let e = added[u][rng.range(1, added[u].len() as u64 - 1) as usize];
            let p = if rng.chance(1, 2) { 1 } else { *rng.pick(&added[u]) };
            calls.push(json!({"op": "delete_child", "u": u + 1, "p": p, "e": e}));
        }
    }
    json!({"sys": "unitw", "be": rng.chance(1, 4), "mode": if rng.chance(1, 3) { "incremental" } else { "dwarf" },
           "units": units, "calls": calls})
}

fn record(out: &str, a: &Args) {
    let mut rng = Rng::new(a.num("--seed", 1));
    let n = a.num("--n", 4);
    let lo = a.num("--min", 50);
    let hi = a.num("--max", 200);
    let mut evs: Vec<Value> = Vec::new();
    for _ in 0..n {
        let case = random_script(&mut rng, lo, hi);
        let o = guarded(|| replay(&case));
        evs.push(json!({"ev": "Units", "units": case["units"], "mode": case["mode"]}));
        for c in case["calls"].as_array().unwrap() {
            evs.push(json!({"ev": "Call", "c": c}));
        }
        let obs = if o.get("outcome").is_some() {
            json!({"ok": false, "stage": o["outcome"], "loc": o["loc"], "msg": o["msg"]})
        } else if o["ok"].as_bool() == Some(true) {
            json!({"ok": true, "units": o["units"]})
        } else {
            json!({"ok": false, "stage": o["stage"], "err": o["err"]})
        };
        evs.push(json!({"ev": "Result", "be": case["be"], "mode": case["mode"], "obs": obs}));
    }
    write_lines(out, &evs);
}

fn main() {
    main_with(replay, record);
}
