//! C09 driver: LEB128 / fixed-width / initial-length readers (replay) and the
//! writers (record).  No expectations live here; it only reports what gimli did.
use gimli::write::{EndianVec, Writer};
use gimli::{EndianSlice, Format, Reader, RunTimeEndian};
use gvh::*;
use serde_json::{json, Value};

fn endian(le: bool) -> RunTimeEndian {
    if le {
        RunTimeEndian::Little
    } else {
        RunTimeEndian::Big
    }
}

fn res<T, F: Fn(&T) -> Value>(r: gimli::Result<T>, consumed: usize, f: F) -> Value {
    match r {
        Ok(v) => json!({"ok":true,"v":f(&v),"n":consumed}),
        Err(e) => json!({"ok":false,"err":err_name(&e)}),
    }
}

fn leb_all(bytes: &[u8]) -> Value {
    let mk = || EndianSlice::new(bytes, RunTimeEndian::Little);
    let mut r = mk();
    let u64r = r.read_uleb128();
    let u64v = res(u64r, bytes.len() - r.len(), |v| bv(*v, 8));
    let mut r = mk();
    let u32r = r.read_uleb128_u32();
    let u32v = res(u32r, bytes.len() - r.len(), |v| bv(*v as u64, 4));
    let mut r = mk();
    let u16r = r.read_uleb128_u16();
    let u16v = res(u16r, bytes.len() - r.len(), |v| bv(*v as u64, 2));
    let mut r = mk();
    let i64r = r.read_sleb128();
    let i64v = res(i64r, bytes.len() - r.len(), |v| bv(*v as u64, 8));
    let mut r = mk();
    let sk = match r.skip_leb128() {
        Ok(()) => json!({"ok":true,"n":bytes.len() - r.len()}),
        Err(e) => json!({"ok":false,"err":err_name(&e)}),
    };
    // the free functions of gimli::leb128::read over the same bytes
    let mut r = mk();
    let fu = gimli::leb128::read::unsigned(&mut r);
    let fuv = res(fu, bytes.len() - r.len(), |v| bv(*v, 8));
    let mut r = mk();
    let fs = gimli::leb128::read::signed(&mut r);
    let fsv = res(fs, bytes.len() - r.len(), |v| bv(*v as u64, 8));
    let mut r = mk();
    let f16 = gimli::leb128::read::u16(&mut r);
    let f16v = res(f16, bytes.len() - r.len(), |v| bv(*v as u64, 2));
    json!({"u64":u64v,"u32":u32v,"u16":u16v,"i64":i64v,"skip":sk,"f_u64":fuv,"f_i64":fsv,"f_u16":f16v})
}

fn fixed(case: &Value) -> Value {
    let bytes = bytes_of(&case["bytes"]);
    let le = case["le"].as_bool().unwrap_or(true);
    let op = case["op"].as_str().unwrap_or("");
    let arg = case["arg"].as_u64().unwrap_or(0);
    let mut r = EndianSlice::new(&bytes, endian(le));
    let total = bytes.len();
    macro_rules! fin {
        ($r:expr, $w:expr) => {{
            let x = $r;
            res(x, total - r.len(), |v| bv(*v as u64, $w))
        }};
    }
    match op {
        "read_u8" => fin!(r.read_u8(), 8),
        "read_u16" => fin!(r.read_u16(), 8),
        "read_u32" => fin!(r.read_u32(), 8),
        "read_u64" => fin!(r.read_u64(), 8),
        "read_i8" => fin!(r.read_i8().map(|v| v as u8), 8),
        "read_i16" => fin!(r.read_i16().map(|v| v as u16), 8),
        "read_i32" => fin!(r.read_i32().map(|v| v as u32), 8),
        "read_i64" => fin!(r.read_i64().map(|v| v as u64), 8),
        "read_uint" => fin!(r.read_uint(arg as usize), 8),
        "read_address" => fin!(r.read_address(arg as u8), 8),
        "read_sized_offset" => fin!(r.read_sized_offset(arg as u8), 8),
        "read_offset" | "read_word" | "read_length" => {
            let f = if arg == 8 { Format::Dwarf64 } else { Format::Dwarf32 };
            match op {
                "read_offset" => fin!(r.read_offset(f), 8),
                "read_word" => fin!(r.read_word(f), 8),
                _ => fin!(r.read_length(f), 8),
            }
        }
        "read_u128" => {
            let x = r.read_u128();
            match x {
                Ok(v) => json!({"ok":true,"v":bv128(v,16),"n":total - r.len()}),
                Err(e) => json!({"ok":false,"err":err_name(&e)}),
            }
        }
        "read_initial_length" => match r.read_initial_length() {
            Ok((v, f)) => {
                json!({"ok":true,"v":bv(v as u64,8),"n":total - r.len(),"fmt": if f == Format::Dwarf64 {64} else {32}})
            }
            Err(e) => json!({"ok":false,"err":err_name(&e)}),
        },
        "read_address_size" => fin!(r.read_address_size(), 8),
        _ => json!({"outcome":"bad-op"}),
    }
}

fn replay(case: &Value) -> Value {
    match case["sys"].as_str() {
        Some("leb") => {
            let b = bytes_of(&case["bytes"]);
            let mut bt = b.clone();
            bt.extend(bytes_of(&case["tail"]));
            json!({"plain": leb_all(&b), "tailed": leb_all(&bt)})
        }
        Some("fixed") => fixed(case),
        _ => json!({"outcome":"bad-sys"}),
    }
}


/// One writer event; a panic inside the library call is data, not a harness failure.
fn event<F: FnOnce() -> Value>(name: &str, v: u64, f: F) -> Value {
    let mut e = guarded(f);
    if e.get("outcome").is_some() {
        e["ev"] = json!(name);
        e["v"] = bv(v, 8);
    }
    e
}

/// Writers: one event per primitive write with the value, the bytes produced and
/// the size the library reports for it.
fn record(out: &str, a: &Args) {
    install_quiet_hook();
    let mut rng = Rng::new(a.num("--seed", 1));
    let n = a.num("--n", 2000);
    let all16 = a.num("--all16", 0) == 1;
    let mut evs: Vec<Value> = Vec::new();
    let mut vals: Vec<u64> = Vec::new();
    // every 16-bit value: LEB128 writers and the 2-byte fixed writers only
    let n16 = if all16 { 0x10000usize } else { 0 };
    if all16 {
        vals.extend(0..=0xffffu64);
    }
    for _ in 0..n {
        vals.push(rng.boundary64());
    }
    // the band of reserved 32-bit initial lengths and its neighbours
    vals.extend(0xffff_ffe0u64..=0x1_0000_0010u64);
    for sh in 0..64 {
        for d in [0u64, 1, u64::MAX] {
            vals.push((1u64 << sh).wrapping_add(d));
            vals.push((!0u64 << sh).wrapping_add(d));
        }
    }
    for (vi, v) in vals.into_iter().enumerate() {
        let small = vi < n16;
        // LEB128 writers through the Writer trait, the Leb128 struct, the size functions
        evs.push(event("WriteULeb", v, || {
            let mut w = EndianVec::new(RunTimeEndian::Little);
            let r = w.write_uleb128(v);
            json!({"ev":"WriteULeb","v":bv(v,8),"ok":r.is_ok(),"bytes":bytes_json(w.slice()),
                "size":gimli::leb128::write::uleb128_size(v),
                "sbytes":bytes_json(gimli::leb128::write::Leb128::unsigned(v).bytes())})
        }));
        evs.push(event("WriteSLeb", v, || {
            let mut w = EndianVec::new(RunTimeEndian::Little);
            let r = w.write_sleb128(v as i64);
            json!({"ev":"WriteSLeb","v":bv(v,8),"ok":r.is_ok(),"bytes":bytes_json(w.slice()),
                "size":gimli::leb128::write::sleb128_size(v as i64),
                "sbytes":bytes_json(gimli::leb128::write::Leb128::signed(v as i64).bytes())})
        }));
        // std::io::Write based free functions
        evs.push(event("WriteULeb", v, || {
            let mut buf: Vec<u8> = Vec::new();
            let r = gimli::leb128::write::unsigned(&mut buf, v);
            json!({"ev":"WriteULeb","v":bv(v,8),"ok":r.is_ok(),"bytes":bytes_json(&buf),
                "size":r.unwrap_or(usize::MAX),"sbytes":bytes_json(&buf)})
        }));
        evs.push(event("WriteSLeb", v, || {
            let mut buf: Vec<u8> = Vec::new();
            let r = gimli::leb128::write::signed(&mut buf, v as i64);
            json!({"ev":"WriteSLeb","v":bv(v,8),"ok":r.is_ok(),"bytes":bytes_json(&buf),
                "size":r.unwrap_or(usize::MAX),"sbytes":bytes_json(&buf)})
        }));
        // fixed-size data in both byte orders
        for le in [true, false] {
            let sizes: &[u8] = if small { &[2] } else { &[1, 2, 4, 8, 0, 3, 16] };
            for &size in sizes {
                evs.push(event("WriteUData", v, || {
                    let mut w = EndianVec::new(endian(le));
                    let r = w.write_udata(v, size);
                    json!({"ev":"WriteUData","v":bv(v,8),"size":size,"le":le,"ok":r.is_ok(),"bytes":bytes_json(w.slice())})
                }));
                evs.push(event("WriteSData", v, || {
                    let mut w = EndianVec::new(endian(le));
                    let r = w.write_sdata(v as i64, size);
                    json!({"ev":"WriteSData","v":bv(v,8),"size":size,"le":le,"ok":r.is_ok(),"bytes":bytes_json(w.slice())})
                }));
                // write at an offset into a pre-filled buffer
                evs.push(event("WriteUDataAt", v, || {
                    let mut w = EndianVec::new(endian(le));
                    w.write(&[0xee; 12]).unwrap();
                    let r = w.write_udata_at(2, v, size);
                    json!({"ev":"WriteUDataAt","v":bv(v,8),"size":size,"le":le,"ok":r.is_ok(),"off":2,"bytes":bytes_json(w.slice())})
                }));
            }
            // initial length: placeholder then patched; then read back by the real reader
            if small {
                continue;
            }
            for f in [Format::Dwarf32, Format::Dwarf64] {
                evs.push(event("WriteInitialLength", v, || {
                    let mut w = EndianVec::new(endian(le));
                    let off = w.write_initial_length(f).unwrap();
                    let r = w.write_initial_length_at(off, v, f);
                    let mut rd = EndianSlice::new(w.slice(), endian(le));
                    let back = match rd.read_initial_length() {
                        Ok((l, ff)) => json!({"ok":true,"v":bv(l as u64,8),"fmt": if ff == Format::Dwarf64 {64} else {32}, "n": w.slice().len() - rd.len()}),
                        Err(_) => json!({"ok":false}),
                    };
                    json!({"ev":"WriteInitialLength","v":bv(v,8),"fmt": if f == Format::Dwarf64 {64} else {32},"le":le,
                        "ok":r.is_ok(),"bytes":bytes_json(w.slice()),"back":back})
                }));
            }
        }
    }
    write_lines(out, &evs);
}

fn main() {
    main_with(replay, record);
}
