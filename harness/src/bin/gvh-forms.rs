//! C03 driver: attribute forms.
//!
//! replay: cases from MCForms (one unit with one entry); reports, per attribute,
//! what `read_attribute` returned (raw value, normalised value, bytes consumed),
//! where `skip_attributes` lands, and the advertised `AttributeSpecification::size`.
//! record: walks real units (the self fixture), logs per entry the forms, the
//! bytes each read consumed, where skipping lands, and raw/normalised values.
//! No expectations live here.
use gimli::{
    AttributeValue, DebugAbbrev, DebugInfo, DebuggingInformationEntry, EndianSlice, RunTimeEndian, UnitHeader,
};
use gvh::*;
use serde_json::{json, Value};

type R<'a> = EndianSlice<'a, RunTimeEndian>;

fn endian(le: bool) -> RunTimeEndian {
    if le {
        RunTimeEndian::Little
    } else {
        RunTimeEndian::Big
    }
}

/// Variant name of an attribute value and its payload (numbers as little-endian
/// byte tuples, byte strings as they are).
fn value_obs(v: &AttributeValue<R>) -> (String, Value) {
    use AttributeValue::*;
    let kind = {
        let s = format!("{:?}", v);
        s.split(|c: char| c == '(' || c == ' ' || c == '{').next().unwrap_or("").to_string()
    };
    let n = |x: u64| bv(x, 8);
    let p = match v {
        Addr(x) => n(*x),
        Block(r) => bytes_json(r.slice()),
        Data1(x) => n(*x as u64),
        Data2(x) => n(*x as u64),
        Data4(x) => n(*x as u64),
        Data8(x) => n(*x),
        Data16(x) => bv128(*x, 16),
        Sdata(x) => n(*x as u64),
        Udata(x) => n(*x),
        Exprloc(e) => bytes_json(e.0.slice()),
        Flag(b) => n(*b as u64),
        SecOffset(o) => n(*o as u64),
        DebugAddrBase(o) => n(o.0 as u64),
        DebugAddrIndex(o) => n(o.0 as u64),
        UnitRef(o) => n(o.0 as u64),
        DebugInfoRef(o) => n(o.0 as u64),
        DebugInfoRefSup(o) => n(o.0 as u64),
        DebugLineRef(o) => n(o.0 as u64),
        LocationListsRef(o) => n(o.0 as u64),
        DebugLocListsBase(o) => n(o.0 as u64),
        DebugLocListsIndex(o) => n(o.0 as u64),
        DebugMacinfoRef(o) => n(o.0 as u64),
        DebugMacroRef(o) => n(o.0 as u64),
        RangeListsRef(o) => n(o.0 as u64),
        DebugRngListsBase(o) => n(o.0 as u64),
        DebugRngListsIndex(o) => n(o.0 as u64),
        DebugTypesRef(s) => n(s.0),
        DebugStrRef(o) => n(o.0 as u64),
        DebugStrRefSup(o) => n(o.0 as u64),
        DebugStrOffsetsBase(o) => n(o.0 as u64),
        DebugStrOffsetsIndex(o) => n(o.0 as u64),
        DebugLineStrRef(o) => n(o.0 as u64),
        String(r) => bytes_json(r.slice()),
        Encoding(c) => n(c.0 as u64),
        DecimalSign(c) => n(c.0 as u64),
        Endianity(c) => n(c.0 as u64),
        Accessibility(c) => n(c.0 as u64),
        Visibility(c) => n(c.0 as u64),
        Virtuality(c) => n(c.0 as u64),
        Language(c) => n(c.0 as u64),
        AddressClass(c) => n(c.0),
        IdentifierCase(c) => n(c.0 as u64),
        CallingConvention(c) => n(c.0 as u64),
        Inline(c) => n(c.0 as u64),
        Ordering(c) => n(c.0 as u64),
        FileIndex(x) => n(*x),
        DwoId(x) => n(x.0),
    };
    (kind, p)
}


fn vo(v: &AttributeValue<R>) -> Value {
    let (kind, p) = value_obs(v);
    json!({"kind": kind, "v": p})
}

/// udata_value / sdata_value / offset_value of a raw value; `[]` = None.
fn conv(v: &AttributeValue<R>) -> Value {
    let o = |x: Option<u64>| x.map(|x| bv(x, 8)).unwrap_or(json!([]));
    json!({"ud": o(v.udata_value()), "sd": o(v.sdata_value().map(|x| x as u64)),
           "off": o(v.offset_value().map(|x| x as u64)),
           "u8": o(v.u8_value().map(|x| x as u64)), "u16": o(v.u16_value().map(|x| x as u64))})
}

/// The line-table variant: a DWARF 5 line-program header; report its file entries.
fn replay_line(case: &Value) -> Value {
    let bytes = bytes_of(&case["line"]);
    let en = endian(case["le"].as_bool().unwrap_or(true));
    let asz = case["enc"]["asz"].as_u64().unwrap_or(8) as u8;
    let dl = gimli::DebugLine::new(&bytes, en);
    match dl.program(gimli::DebugLineOffset(0), asz, None, None) {
        Ok(prog) => {
            let h = prog.header();
            let files: Vec<Value> = h
                .file_names()
                .iter()
                .map(|f| {
                    let mut o = json!({"path": vo(&f.path_name()), "dir": bv(f.directory_index(), 8),
                                       "timestamp": bv(f.timestamp(), 8), "size": bv(f.size(), 8)});
                    o["md5"] = bytes_json(&f.md5()[..]);
                    o
                })
                .collect();
            json!({"ok": true, "files": files, "ndirs": h.include_directories().len(),
                   "header_length": h.header_length() as u64})
        }
        Err(e) => json!({"ok": false, "err": err_name(&e)}),
    }
}

fn replay(case: &Value) -> Value {
    if case["t"] == "line" {
        return replay_line(case);
    }
    let info = bytes_of(&case["info"]);
    let abbrev = bytes_of(&case["abbrev"]);
    let en = endian(case["le"].as_bool().unwrap_or(true));
    let h: UnitHeader<R> = match DebugInfo::new(&info, en).units().next() {
        Ok(Some(h)) => h,
        Ok(None) => return json!({"unit_err":"none"}),
        Err(e) => return json!({"unit_err":err_name(&e)}),
    };
    let da = DebugAbbrev::new(&abbrev, en);
    let abbrevs = match h.abbreviations(&da) {
        Ok(a) => a,
        Err(e) => return json!({"abbrev_err":err_name(&e)}),
    };
    let mut out = serde_json::Map::new();
    // --- read every attribute, one at a time
    let mut raw = match h.entries_raw(&abbrevs, None) {
        Ok(r) => r,
        Err(e) => return json!({"open_err":err_name(&e)}),
    };
    let ab = match raw.read_abbreviation() {
        Ok(Some(a)) => a,
        Ok(None) => return json!({"open_err":"null entry"}),
        Err(e) => return json!({"open_err":err_name(&e)}),
    };
    let specs = ab.attributes();
    let start = raw.next_offset().0;
    out.insert("sizes".into(), json!(specs.iter().map(|s| s.size(&h).map(|x| x as i64).unwrap_or(-1)).collect::<Vec<_>>()));
    out.insert("forms".into(), json!(specs.iter().map(|s| s.form().0).collect::<Vec<_>>()));
    let mut reads = Vec::new();
    let mut attrs = Vec::new();
    for spec in specs {
        let o0 = raw.next_offset().0;
        match raw.read_attribute(*spec) {
            Ok(a) => {
                let mut o = vo(&a.raw_value());
                o["n"] = json!(raw.next_offset().0 - o0);
                o["norm"] = vo(&a.value());
                o["conv"] = conv(&a.raw_value());
                o["name"] = json!(a.name().0);
                o["form"] = json!(a.form().0);
                reads.push(o);
                attrs.push(a);
            }
            Err(e) => {
                reads.push(json!({"err": err_name(&e)}));
                break;
            }
        }
    }
    let all_read = reads.len() == specs.len() && reads.last().map(|r| r.get("err").is_none()).unwrap_or(true);
    out.insert("read_end".into(), json!(if all_read { (raw.next_offset().0 - start) as i64 } else { -1 }));
    out.insert("reads".into(), json!(reads));
    // --- the same through read_entry / UnitHeader::entry
    let same = guarded(|| {
        let mut ent = DebuggingInformationEntry::null();
        let mut r2 = h.entries_raw(&abbrevs, None).unwrap();
        match r2.read_entry(&mut ent) {
            Ok(true) => json!({"ok": true, "same": ent.attrs() == &attrs[..], "n": r2.next_offset().0 - start}),
            Ok(false) => json!({"ok": true, "same": false}),
            Err(e) => json!({"ok": false, "err": err_name(&e)}),
        }
    });
    out.insert("entry".into(), same);
    // --- skip all attributes
    let skip = guarded(|| {
        let mut r3 = h.entries_raw(&abbrevs, None).unwrap();
        let ab = r3.read_abbreviation().unwrap().unwrap();
        match r3.skip_attributes(ab.attributes()) {
            Ok(()) => json!({"ok": true, "n": r3.next_offset().0 - start}),
            Err(e) => json!({"ok": false, "err": err_name(&e)}),
        }
    });
    out.insert("skip".into(), skip);
    Value::Object(out)
}

/// One real unit: per entry the forms, per-attribute consumption, skip landing.
fn record_unit(h: &UnitHeader<R>, da: &DebugAbbrev<R>, rng: &mut Rng, evs: &mut Vec<Value>, max_dies: usize, src: &str, le: bool) {
    let abbrevs = match h.abbreviations(da) {
        Ok(a) => a,
        Err(_) => return,
    };
    let enc = json!({"ver": h.version(), "fmt": if h.format() == gimli::Format::Dwarf64 {64} else {32}, "asz": h.address_size(), "le": le});
    let mut raw = match h.entries_raw(&abbrevs, None) {
        Ok(r) => r,
        Err(_) => return,
    };
    let mut nd = 0;
    while !raw.is_empty() && nd < max_dies {
        let mut skipper = raw.clone();
        let ab = match raw.read_abbreviation() {
            Ok(Some(a)) => a,
            Ok(None) => continue,
            Err(_) => break,
        };
        nd += 1;
        let start = raw.next_offset().0;
        let mut attrs = Vec::new();
        let mut failed = false;
        for spec in ab.attributes() {
            let o0 = raw.next_offset().0;
            match raw.read_attribute(*spec) {
                Ok(at) => {
                    let (kind, _) = value_obs(&at.raw_value());
                    attrs.push(json!({"form": spec.form().0, "name": spec.name().0, "n": raw.next_offset().0 - o0, "kind": kind,
                                      "size": spec.size(h).map(|x| x as i64).unwrap_or(-1)}));
                    if rng.chance(1, 6) {
                        evs.push(json!({"ev":"Norm","src":src,"name":spec.name().0,"raw":vo(&at.raw_value()),"norm":vo(&at.value()),"conv":conv(&at.raw_value())}));
                    }
                }
                Err(_) => {
                    failed = true;
                    break;
                }
            }
        }
        if failed {
            break;
        }
        let _ = skipper.read_abbreviation();
        let sk = guarded(|| match skipper.skip_attributes(ab.attributes()) {
            Ok(()) => json!({"ok": true, "n": skipper.next_offset().0 - start}),
            Err(e) => json!({"ok": false, "err": err_name(&e)}),
        });
        evs.push(json!({"ev":"Die","src":src,"enc":enc,"attrs":attrs,"read_n":raw.next_offset().0 - start,"skip":sk}));
    }
}

fn record_dir(dir: &str, src: &str, rng: &mut Rng, evs: &mut Vec<Value>, max_units: usize, max_dies: usize, sample: u64) {
    let en = RunTimeEndian::Little;
    for (i, a) in [("debug_info", "debug_abbrev"), ("debug_info.dwo", "debug_abbrev.dwo")] {
        let (info, abbrev) = match (std::fs::read(format!("{}/{}", dir, i)), std::fs::read(format!("{}/{}", dir, a))) {
            (Ok(i), Ok(a)) => (i, a),
            _ => continue,
        };
        let da = DebugAbbrev::new(&abbrev, en);
        let mut it = DebugInfo::new(&info, en).units();
        let mut nu = 0;
        while let Ok(Some(h)) = it.next() {
            if nu >= max_units {
                break;
            }
            if sample > 1 && rng.below(sample) != 0 {
                continue;
            }
            nu += 1;
            record_unit(&h, &da, rng, evs, max_dies, src, true);
        }
        let tname = if i.ends_with(".dwo") { "debug_types.dwo" } else { "debug_types" };
        if let Ok(types) = std::fs::read(format!("{}/{}", dir, tname)) {
            let mut it = gimli::DebugTypes::new(&types, en).units();
            let mut nu = 0;
            while let Ok(Some(h)) = it.next() {
                if nu >= max_units {
                    break;
                }
                nu += 1;
                record_unit(&h, &da, rng, evs, max_dies, src, true);
            }
        }
    }
}

/// Real units: the repository's self fixture and the compiled corpus.
fn record(out: &str, a: &Args) {
    let mut rng = Rng::new(a.num("--seed", 1));
    let fx = a.opt("--fixture").unwrap_or("/repo/fixtures/self");
    let max_units = a.num("--units", 10) as usize;
    let max_dies = a.num("--dies", 3000) as usize;
    let mut evs: Vec<Value> = Vec::new();
    record_dir(fx, "fixture", &mut rng, &mut evs, max_units, max_dies, 3);
    if let Some(c) = a.opt("--corpus") {
        let mut dirs: Vec<_> = std::fs::read_dir(c).map(|d| d.filter_map(|e| e.ok()).map(|e| e.path()).collect()).unwrap_or_default();
        dirs.sort();
        for d in dirs {
            let name = d.file_name().and_then(|n| n.to_str()).unwrap_or("").to_string();
            if !d.is_dir() || name.ends_with("_dwp") {
                continue; // packages need the index sections to find each unit's abbreviations
            }
            record_dir(d.to_str().unwrap_or(""), &format!("corpus/{}", name), &mut rng, &mut evs, 50, max_dies, 1);
        }
    }
    write_lines(out, &evs);
}

fn main() {
    main_with(replay, record);
}
