//! C07 driver: DWARF expression decoding and evaluation.
//!
//! replay: `sys = "expr"` runs an `Evaluation` with a script of resume answers and
//! reports every `Requires*` payload plus the final result; `sys = "opdecode"`
//! runs `Operation::parse` once.  record: random programs with random answers,
//! one `Reset` event per program followed by one event per stop of the machine.
//! Values are projected as DESIGN.md section 3 says: generic values mod 2^(8*asz).
use gimli::{
    DieReference, Encoding, EndianSlice, Evaluation, EvaluationResult, EvaluationStorage, Format,
    Location, Operation, Piece, Reader, RunTimeEndian, Value, ValueType,
};
use gvh::opjson::op_json;
use gvh::*;
use serde_json::{json, Value as J};

type R<'a> = EndianSlice<'a, RunTimeEndian>;

struct Small;
impl<'a> EvaluationStorage<R<'a>> for Small {
    type Stack = [Value; 2];
    type ExpressionStack = [(R<'a>, R<'a>); 1];
    type Result = [Piece<R<'a>>; 2];
}

fn vt_name(t: ValueType) -> &'static str {
    match t {
        ValueType::Generic => "generic",
        ValueType::I8 => "i8",
        ValueType::U8 => "u8",
        ValueType::I16 => "i16",
        ValueType::U16 => "u16",
        ValueType::I32 => "i32",
        ValueType::U32 => "u32",
        ValueType::I64 => "i64",
        ValueType::U64 => "u64",
        ValueType::F32 => "f32",
        ValueType::F64 => "f64",
    }
}

fn vt_of(s: &str) -> ValueType {
    match s {
        "i8" => ValueType::I8,
        "u8" => ValueType::U8,
        "i16" => ValueType::I16,
        "u16" => ValueType::U16,
        "i32" => ValueType::I32,
        "u32" => ValueType::U32,
        "i64" => ValueType::I64,
        "u64" => ValueType::U64,
        "f32" => ValueType::F32,
        "f64" => ValueType::F64,
        _ => ValueType::Generic,
    }
}

fn val_json(v: Value, asz: usize) -> J {
    let (t, bits, w) = match v {
        Value::Generic(x) => ("generic", x, asz),
        Value::I8(x) => ("i8", x as u8 as u64, 1),
        Value::U8(x) => ("u8", x as u64, 1),
        Value::I16(x) => ("i16", x as u16 as u64, 2),
        Value::U16(x) => ("u16", x as u64, 2),
        Value::I32(x) => ("i32", x as u32 as u64, 4),
        Value::U32(x) => ("u32", x as u64, 4),
        Value::I64(x) => ("i64", x as u64, 8),
        Value::U64(x) => ("u64", x, 8),
        Value::F32(x) => ("f32", x.to_bits() as u64, 4),
        Value::F64(x) => ("f64", x.to_bits(), 8),
    };
    json!({"t": t, "v": bv(bits, w)})
}

fn val_of(j: &J) -> Value {
    let bits = unbv(&j["v"]);
    match j["t"].as_str().unwrap_or("generic") {
        "i8" => Value::I8(bits as i8),
        "u8" => Value::U8(bits as u8),
        "i16" => Value::I16(bits as i16),
        "u16" => Value::U16(bits as u16),
        "i32" => Value::I32(bits as i32),
        "u32" => Value::U32(bits as u32),
        "i64" => Value::I64(bits as i64),
        "u64" => Value::U64(bits),
        "f32" => Value::F32(f32::from_bits(bits as u32)),
        "f64" => Value::F64(f64::from_bits(bits)),
        _ => Value::Generic(bits),
    }
}

fn loc_json(l: &Location<R>, asz: usize) -> J {
    match l {
        Location::Empty => json!({"loc":"empty"}),
        Location::Register { register } => json!({"loc":"reg","reg":register.0}),
        Location::Address { address } => json!({"loc":"addr","a":bv(*address,8)}),
        Location::Value { value } => json!({"loc":"value","v":val_json(*value, asz)}),
        Location::Bytes { value } => json!({"loc":"bytes","data":bytes_json(value.slice())}),
        Location::ImplicitPointer { value, byte_offset } => {
            json!({"loc":"implptr","value":bv(value.0 as u64,8),"byte_offset":bv(*byte_offset as u64,8)})
        }
    }
}

fn piece_json(p: &Piece<R>, asz: usize) -> J {
    json!({
        "bits": p.size_in_bits.map(|b| bv(b,8)).unwrap_or(json!([])),
        "bitoff": p.bit_offset.map(|b| bv(b,8)).unwrap_or(json!([])),
        "loc": loc_json(&p.location, asz),
    })
}

fn req_json(r: &EvaluationResult<R>) -> J {
    match r {
        EvaluationResult::Complete => json!({"q":"Complete"}),
        EvaluationResult::RequiresMemory { address, size, space, base_type } => json!({
            "q":"Memory","addr":bv(*address,8),"size":size,
            "space": space.map(|s| bv(s,8)).unwrap_or(json!([])),"base":bv(base_type.0 as u64,8)}),
        EvaluationResult::RequiresRegister { register, base_type } => {
            json!({"q":"Register","reg":register.0,"base":bv(base_type.0 as u64,8)})
        }
        EvaluationResult::RequiresFrameBase => json!({"q":"FrameBase"}),
        EvaluationResult::RequiresTls(i) => json!({"q":"Tls","index":bv(*i,8)}),
        EvaluationResult::RequiresCallFrameCfa => json!({"q":"CallFrameCfa"}),
        EvaluationResult::RequiresAtLocation(d) => match d {
            DieReference::UnitRef(o) => json!({"q":"AtLocation","ref":"unit","off":bv(o.0 as u64,8)}),
            DieReference::DebugInfoRef(o) => json!({"q":"AtLocation","ref":"info","off":bv(o.0 as u64,8)}),
        },
        EvaluationResult::RequiresEntryValue(e) => json!({"q":"EntryValue","expr":bytes_json(e.0.slice())}),
        EvaluationResult::RequiresParameterRef(o) => json!({"q":"ParameterRef","off":bv(o.0 as u64,8)}),
        EvaluationResult::RequiresRelocatedAddress(a) => json!({"q":"RelocatedAddress","addr":bv(*a,8)}),
        EvaluationResult::RequiresIndexedAddress { index, relocate } => {
            json!({"q":"IndexedAddress","index":bv(index.0 as u64,8),"relocate":relocate})
        }
        EvaluationResult::RequiresBaseType(o) => json!({"q":"BaseType","base":bv(o.0 as u64,8)}),
        EvaluationResult::RequiresWasmLocal { index } => json!({"q":"Wasm","which":"local","index":bv(*index as u64,4)}),
        EvaluationResult::RequiresWasmGlobal { index } => json!({"q":"Wasm","which":"global","index":bv(*index as u64,4)}),
        EvaluationResult::RequiresWasmStack { index } => json!({"q":"Wasm","which":"stack","index":bv(*index as u64,4)}),
    }
}

fn encoding(c: &J) -> (Encoding, RunTimeEndian) {
    let enc = Encoding {
        address_size: c["asz"].as_u64().unwrap_or(8) as u8,
        format: if c["fmt"].as_u64() == Some(8) { Format::Dwarf64 } else { Format::Dwarf32 },
        version: c["ver"].as_u64().unwrap_or(4) as u16,
    };
    let e = if c["le"].as_bool().unwrap_or(true) { RunTimeEndian::Little } else { RunTimeEndian::Big };
    (enc, e)
}

/// Source of resume answers: a fixed script (replay) or generated on demand (record).
trait Answers {
    fn next(&mut self, req: &J) -> Option<J>;
}
struct Script<'a>(&'a [J], usize);
impl<'a> Answers for Script<'a> {
    fn next(&mut self, _req: &J) -> Option<J> {
        let a = self.0.get(self.1).cloned();
        self.1 += 1;
        a
    }
}

fn drive<'a, S: EvaluationStorage<R<'a>>>(
    c: &J,
    code: &'a [u8],
    nested: &'a [Vec<u8>],
    answers: &mut dyn Answers,
    given: &mut Vec<J>,
) -> J {
    let (enc, endian) = encoding(c);
    let asz = enc.address_size as usize;
    let mut ev: Evaluation<R<'a>, S> = Evaluation::new_in(EndianSlice::new(code, endian), enc);
    if let Some(mi) = c["maxiter"].as_i64() {
        if mi >= 0 {
            ev.set_max_iterations(mi as u32);
        }
    }
    if c["obj"].as_array().map(|a| !a.is_empty()).unwrap_or(false) {
        ev.set_object_address(unbv(&c["obj"]));
    }
    if c["init"].as_array().map(|a| !a.is_empty()).unwrap_or(false) {
        ev.set_initial_value(unbv(&c["init"]));
    }
    let mut events: Vec<J> = Vec::new();
    let mut res = ev.evaluate();
    let mut nested_used = 0usize;
    loop {
        let r = match res {
            Err(e) => {
                return json!({"events":events,"final":{"o":"error","kind":err_name(&e)}});
            }
            Ok(r) => r,
        };
        if let EvaluationResult::Complete = r {
            let pieces: Vec<J> = ev.as_result().iter().map(|p| piece_json(p, asz)).collect();
            let value = ev.value_result().map(|v| val_json(v, asz)).unwrap_or(json!({"t":"none","v":[]}));
            return json!({"events":events,"final":{"o":"complete","pieces":pieces,"value":value}});
        }
        let rq = req_json(&r);
        events.push(rq.clone());
        let a = match answers.next(&rq) {
            Some(a) => a,
            None => return json!({"events":events,"final":{"o":"script-exhausted"}}),
        };
        given.push(a.clone());
        res = match r {
            EvaluationResult::RequiresMemory { .. } => ev.resume_with_memory(val_of(&a["v"])),
            EvaluationResult::RequiresRegister { .. } => ev.resume_with_register(val_of(&a["v"])),
            EvaluationResult::RequiresEntryValue(_) => ev.resume_with_entry_value(val_of(&a["v"])),
            EvaluationResult::RequiresWasmLocal { .. }
            | EvaluationResult::RequiresWasmGlobal { .. }
            | EvaluationResult::RequiresWasmStack { .. } => ev.resume_with_wasm_value(val_of(&a["v"])),
            EvaluationResult::RequiresFrameBase => ev.resume_with_frame_base(unbv(&a["v"])),
            EvaluationResult::RequiresTls(_) => ev.resume_with_tls(unbv(&a["v"])),
            EvaluationResult::RequiresCallFrameCfa => ev.resume_with_call_frame_cfa(unbv(&a["v"])),
            EvaluationResult::RequiresParameterRef(_) => ev.resume_with_parameter_ref(unbv(&a["v"])),
            EvaluationResult::RequiresRelocatedAddress(_) => ev.resume_with_relocated_address(unbv(&a["v"])),
            EvaluationResult::RequiresIndexedAddress { .. } => ev.resume_with_indexed_address(unbv(&a["v"])),
            EvaluationResult::RequiresBaseType(_) => ev.resume_with_base_type(vt_of(a["t"].as_str().unwrap_or(""))),
            EvaluationResult::RequiresAtLocation(_) => {
                // nested expressions were pre-allocated by the caller so that they outlive `ev`
                let want = bytes_of(&a["code"]);
                let mut found = None;
                for (i, n) in nested.iter().enumerate().skip(nested_used) {
                    if *n == want {
                        found = Some(i);
                        break;
                    }
                }
                match found {
                    Some(i) => {
                        nested_used = i + 1;
                        ev.resume_with_at_location(EndianSlice::new(&nested[i], endian))
                    }
                    None => return json!({"events":events,"final":{"o":"harness-nested-missing"}}),
                }
            }
            EvaluationResult::Complete => unreachable!(),
        };
    }
}

fn run_case(c: &J) -> J {
    let code = bytes_of(&c["code"]);
    let script: Vec<J> = c["script"].as_array().cloned().unwrap_or_default();
    let nested: Vec<Vec<u8>> = script
        .iter()
        .filter(|a| a["a"] == "bytes")
        .map(|a| bytes_of(&a["code"]))
        .collect();
    let mut given = Vec::new();
    let mut s = Script(&script, 0);
    if c["store"] == "small" {
        drive::<Small>(c, &code, &nested, &mut s, &mut given)
    } else {
        drive::<gimli::StoreOnHeap>(c, &code, &nested, &mut s, &mut given)
    }
}

fn decode_case(c: &J) -> J {
    let code = bytes_of(&c["code"]);
    let (enc, endian) = encoding(c);
    let mut r = EndianSlice::new(&code, endian);
    match Operation::parse(&mut r, enc) {
        Ok(op) => {
            let mut o = op_json(&op);
            o["len"] = json!(code.len() - r.len());
            o
        }
        Err(e) => json!({"err": err_name(&e)}),
    }
}

fn replay(c: &J) -> J {
    match c["sys"].as_str() {
        Some("expr") => run_case(c),
        Some("opdecode") => decode_case(c),
        _ => json!({"outcome":"bad-sys"}),
    }
}

// ------------------------------------------------------------------ record

struct RandAnswers<'a> {
    rng: &'a mut Rng,
    nested: &'a [Vec<u8>],
    next_nested: usize,
}
impl<'a> Answers for RandAnswers<'a> {
    fn next(&mut self, req: &J) -> Option<J> {
        let q = req["q"].as_str().unwrap_or("");
        let r = &mut *self.rng;
        Some(match q {
            "Memory" | "Register" | "EntryValue" | "Wasm" => {
                let t = *r.pick(&["generic", "generic", "generic", "u8", "i8", "u16", "i16", "u32", "i32", "u64", "i64"]);
                let w = match t { "u8" | "i8" => 1, "u16" | "i16" => 2, "u32" | "i32" => 4, _ => 8 };
                json!({"a":"value","v":{"t":t,"v":bv(r.boundary64(), w)}})
            }
            "AtLocation" => {
                if self.next_nested < self.nested.len() {
                    let n = &self.nested[self.next_nested];
                    self.next_nested += 1;
                    json!({"a":"bytes","code":bytes_json(n)})
                } else {
                    json!({"a":"bytes","code":[]})
                }
            }
            "BaseType" => {
                let t = *r.pick(&["generic", "u8", "i8", "u16", "i16", "u32", "i32", "u64", "i64"]);
                json!({"a":"type","t":t})
            }
            _ => json!({"a":"u64","v":bv(r.boundary64(), 8)}),
        })
    }
}

fn leb_u(mut v: u64, out: &mut Vec<u8>) {
    loop {
        let b = (v & 0x7f) as u8;
        v >>= 7;
        if v == 0 {
            out.push(b);
            return;
        }
        out.push(b | 0x80);
    }
}

/// A random program: a byte string built from opcode templates with random operands.
/// (The harness does not know what they mean; it only needs plausible byte strings.)
fn random_program(r: &mut Rng, asz: usize, le: bool, len: usize) -> Vec<u8> {
    let mut p = Vec::new();
    let fixed = |v: u64, n: usize, p: &mut Vec<u8>| {
        let b = v.to_le_bytes();
        if le {
            p.extend_from_slice(&b[..n]);
        } else {
            let mut x = b[..n].to_vec();
            x.reverse();
            p.extend(x);
        }
    };
    // `d` is only an estimate of the stack depth used to bias the generator towards
    // programs that run for a while; it is not an oracle.
    let mut d: i64 = 0;
    for i in 0..len {
        let mut k = r.below(100);
        if d < 2 && k < 30 && r.chance(9, 10) {
            k = 30 + r.below(37); // push something instead
        }
        if (90..=95).contains(&k) && i + 3 < len && r.chance(4, 5) {
            k = r.below(30); // keep location descriptions mostly for the end
        }
        match k {
            0..=29 => {
                // no-operand arithmetic / stack / compare
                let un = [0x19u8, 0x1f, 0x20, 0x96, 0x96];
                let bin = [0x1au8, 0x1b, 0x1c, 0x1d, 0x1e, 0x21, 0x22, 0x24, 0x25, 0x26, 0x27, 0x29, 0x2a, 0x2b, 0x2c, 0x2d, 0x2e];
                match r.below(10) {
                    0 => { p.push(0x12); d += 1; }
                    1 => { p.push(0x14); d += 1; }
                    2 => { p.push(*r.pick(&[0x16u8, 0x17])); }
                    3 => { p.push(0x13); d -= 1; }
                    4 | 5 => p.push(*r.pick(&un)),
                    _ => { p.push(*r.pick(&bin)); d -= 1; }
                }
            }
            30..=44 => { p.push(0x30 + r.below(32) as u8); d += 1; }
            45..=49 => { p.push(0x08); p.push(r.next() as u8); d += 1; }
            50..=52 => { p.push(0x09); p.push(r.next() as u8); d += 1; }
            53..=55 => { p.push(0x0a + r.below(2) as u8); let v = r.boundary64(); fixed(v, 2, &mut p); d += 1; }
            56..=58 => { p.push(0x0c + r.below(2) as u8); let v = r.boundary64(); fixed(v, 4, &mut p); d += 1; }
            59..=62 => { p.push(0x0e + r.below(2) as u8); let v = r.boundary64(); fixed(v, 8, &mut p); d += 1; }
            63..=65 => { p.push(0x10); let v = r.boundary64(); leb_u(v, &mut p); d += 1; }
            66 => { p.push(0x11); p.push(r.below(128) as u8); d += 1; }
            67..=68 => { p.push(0x23); let v = r.boundary64(); leb_u(v, &mut p); }
            69 => { p.push(0x15); p.push(r.below(4) as u8); d += 1; }
            70..=72 => {
                let bra = r.chance(1, 2);
                p.push(if bra { 0x28 } else { 0x2f });
                let t = (r.below(9) as i64 - 3) as u16 as u64;
                fixed(t, 2, &mut p);
                if bra { d -= 1; }
            }
            73..=75 => { p.push(0x70 + r.below(32) as u8); p.push(r.below(128) as u8); d += 1; }
            76 => { p.push(0x91); p.push(r.below(128) as u8); d += 1; }
            77..=78 => p.push(0x06),
            79 => { p.push(0x94); p.push(r.range(0, asz as u64 + 1) as u8); }
            80 => { p.push(0x9c); d += 1; }
            81 => { p.push(0x03); let v = r.boundary64(); fixed(v, asz, &mut p); d += 1; }
            82 => { p.push(0x98); fixed(r.below(300), 2, &mut p); }
            83 => { p.push(0xa8); p.push(r.below(3) as u8); }
            84 => { p.push(0xa9); p.push(r.below(3) as u8); }
            85 => { p.push(0xa4); p.push(1); let n = *r.pick(&[1u8, 2, 4, 8]); p.push(n); for _ in 0..n { p.push(r.next() as u8); } d += 1; }
            86 => { p.push(0xa5); p.push(r.below(40) as u8); p.push(r.below(3) as u8); d += 1; }
            87 => { p.push(0xa6); p.push(r.range(1, asz as u64) as u8); p.push(1); }
            88 => { p.push(0x97); d += 1; }
            89 => { p.push(0xa1 + r.below(2) as u8); leb_u(r.below(1000), &mut p); d += 1; }
            90 => { p.push(0x93); leb_u(r.below(16), &mut p); d -= 1; }
            91 => { p.push(0x9d); leb_u(r.below(64), &mut p); leb_u(r.below(8), &mut p); d -= 1; }
            92 => { p.push(0x9f); d -= 1; if r.chance(2, 3) { p.push(0x93); leb_u(r.below(16), &mut p); } }
            93 => { p.push(0x50 + r.below(32) as u8); if r.chance(2, 3) { p.push(0x93); leb_u(r.below(16), &mut p); } }
            94 => { p.push(0x9e); p.push(2); p.push(1); p.push(2); if r.chance(2, 3) { p.push(0x93); leb_u(r.below(16), &mut p); } }
            95 => { p.push(0xa3); p.push(1); p.push(0x31); d += 1; }
            96 => p.push(0x9b),
            97 => p.push(0x18),
            98 => { p.push(0xed); p.push(r.below(4) as u8); leb_u(r.below(70000), &mut p); d += 1; }
            _ => p.push(r.next() as u8),
        }
        if d < 0 { d = 0; }
    }
    p
}

fn record(out: &str, a: &Args) {
    let mut rng = Rng::new(a.num("--seed", 1));
    let n = a.num("--n", 200);
    let maxlen = a.num("--len", 40);
    let mut evs: Vec<J> = Vec::new();
    for _ in 0..n {
        let asz = *rng.pick(&[1usize, 2, 4, 8, 8, 4]);
        let le = rng.chance(3, 4);
        let len = rng.range(1, maxlen) as usize;
        let code = random_program(&mut rng, asz, le, len);
        let nested: Vec<Vec<u8>> = (0..3).map(|_| { let l = rng.range(0, 4) as usize; random_program(&mut rng, asz, le, l) }).collect();
        let maxiter = rng.range(1, 200) as i64;
        let c = json!({"asz":asz,"fmt": if rng.chance(1,2) {4} else {8},"ver": rng.range(2,5),"le":le,
            "maxiter": maxiter,
            "obj": if rng.chance(1,2) { bv(rng.boundary64(),8) } else { json!([]) },
            "init": if rng.chance(1,3) { bv(rng.boundary64(),8) } else { json!([]) },
            "store": if rng.chance(1,5) {"small"} else {"heap"}});
        let mut given: Vec<J> = Vec::new();
        let obs = guarded(|| {
            let mut ans = RandAnswers { rng: &mut rng, nested: &nested, next_nested: 0 };
            if c["store"] == "small" {
                drive::<Small>(&c, &code, &nested, &mut ans, &mut given)
            } else {
                drive::<gimli::StoreOnHeap>(&c, &code, &nested, &mut ans, &mut given)
            }
        });
        let mut reset = c.clone();
        reset["ev"] = json!("Reset");
        reset["code"] = bytes_json(&code);
        evs.push(reset);
        if obs.get("outcome").is_some() {
            evs.push(json!({"ev":"Abnormal","obs":obs}));
            continue;
        }
        let events = obs["events"].as_array().cloned().unwrap_or_default();
        for (i, e) in events.iter().enumerate() {
            evs.push(json!({"ev":"Requires","req":e,"ans": given.get(i).cloned().unwrap_or(json!({"a":"none"}))}));
        }
        evs.push(json!({"ev":"Final","final":obs["final"]}));
    }
    write_lines(out, &evs);
}

fn main() {
    main_with(replay, record);
}
