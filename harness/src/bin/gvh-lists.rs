//! C08 driver: range lists and location lists.
//!
//! `replay`: feeds the sections produced by the TLA+ model (spec/MCLists.tla) to
//! gimli's raw and resolving list iterators / to `Dwarf::{attr_ranges_offset,
//! attr_ranges, attr_locations_offset, attr_locations, die_ranges, unit_ranges}`
//! and prints what gimli reported.  `record`: drives the same iterators over
//! seeded random sections (a syntax-directed byte generator plus arbitrary
//! bytes) at address sizes 4/8 (and 1/2) and logs one event per call for
//! spec/ListsTrace.tla.  No expectations live here.
use gimli::{
    DebugAddr, DebugAddrBase, DebugLoc, DebugLocLists, DebugRanges, DebugRngLists, DwarfFileType,
    Encoding, EndianSlice, Format, LocationLists, LocationListsOffset, RangeLists,
    RangeListsOffset, RawLocListEntry, RawRngListEntry, RunTimeEndian, SectionId,
};
use gvh::*;
use serde_json::{json, Value};

type R<'a> = EndianSlice<'a, RunTimeEndian>;

fn endian(le: bool) -> RunTimeEndian {
    if le {
        RunTimeEndian::Little
    } else {
        RunTimeEndian::Big
    }
}

/// Lossless compact form of a u64 (replay only): a JSON number below 2^31,
/// else the little-endian byte tuple.  The model prints values the same way.
fn cv(v: u64) -> Value {
    if v < (1u64 << 31) {
        json!(v)
    } else {
        bv(v, 8)
    }
}
fn uncv(v: &Value) -> u64 {
    if v.is_array() {
        unbv(v)
    } else {
        v.as_u64().unwrap_or(0)
    }
}

#[derive(Clone, Copy)]
struct Cf {
    loc: bool,
    ver: u16,
    asz: u8,
    fmt: Format,
    dwo: bool,
    le: bool,
}

fn cf_of(v: &Value) -> Cf {
    Cf {
        loc: v["fam"].as_str() == Some("loc"),
        ver: v["ver"].as_u64().unwrap_or(5) as u16,
        asz: v["asz"].as_u64().unwrap_or(8) as u8,
        fmt: if v["fmt"].as_u64() == Some(64) {
            Format::Dwarf64
        } else {
            Format::Dwarf32
        },
        dwo: v["dwo"].as_bool().unwrap_or(false),
        le: v["le"].as_bool().unwrap_or(true),
    }
}
fn cf_json(c: &Cf) -> Value {
    json!({"fam": if c.loc {"loc"} else {"rng"}, "ver": c.ver, "asz": c.asz,
           "fmt": if c.fmt == Format::Dwarf64 {64} else {32}, "dwo": c.dwo, "le": c.le})
}
fn enc(c: &Cf) -> Encoding {
    Encoding {
        format: c.fmt,
        version: c.ver,
        address_size: c.asz,
    }
}

fn err_item(e: &gimli::Error) -> Value {
    json!({"t":"err","err":err_name(e)})
}

fn raw_rng_item(e: &RawRngListEntry<usize>, f: fn(u64) -> Value) -> Value {
    let (k, a, b) = match *e {
        RawRngListEntry::AddressOrOffsetPair { begin, end } => ("pair", begin, end),
        RawRngListEntry::BaseAddress { addr } => ("base", addr, 0),
        RawRngListEntry::BaseAddressx { addr } => ("basex", addr.0 as u64, 0),
        RawRngListEntry::StartxEndx { begin, end } => ("sxex", begin.0 as u64, end.0 as u64),
        RawRngListEntry::StartxLength { begin, length } => ("sxlen", begin.0 as u64, length),
        RawRngListEntry::OffsetPair { begin, end } => ("opair", begin, end),
        RawRngListEntry::StartEnd { begin, end } => ("se", begin, end),
        RawRngListEntry::StartLength { begin, length } => ("slen", begin, length),
    };
    json!({"t":"some","e":{"k":k,"a":f(a),"b":f(b),"d":[]}})
}

fn raw_loc_item(e: &RawLocListEntry<R>, f: fn(u64) -> Value) -> Value {
    let none: &[u8] = &[];
    let (k, a, b, d) = match e {
        RawLocListEntry::AddressOrOffsetPair { begin, end, data } => {
            ("pair", *begin, *end, data.0.slice())
        }
        RawLocListEntry::BaseAddress { addr } => ("base", *addr, 0, none),
        RawLocListEntry::BaseAddressx { addr } => ("basex", addr.0 as u64, 0, none),
        RawLocListEntry::StartxEndx { begin, end, data } => {
            ("sxex", begin.0 as u64, end.0 as u64, data.0.slice())
        }
        RawLocListEntry::StartxLength {
            begin,
            length,
            data,
        } => ("sxlen", begin.0 as u64, *length, data.0.slice()),
        RawLocListEntry::OffsetPair { begin, end, data } => {
            ("opair", *begin, *end, data.0.slice())
        }
        RawLocListEntry::DefaultLocation { data } => ("defloc", 0, 0, data.0.slice()),
        RawLocListEntry::StartEnd { begin, end, data } => ("se", *begin, *end, data.0.slice()),
        RawLocListEntry::StartLength {
            begin,
            length,
            data,
        } => ("slen", *begin, *length, data.0.slice()),
    };
    json!({"t":"some","e":{"k":k,"a":f(a),"b":f(b),"d":bytes_json(d)}})
}

fn range_item(begin: u64, end: u64, d: &[u8], f: fn(u64) -> Value) -> Value {
    json!({"t":"some","begin":f(begin),"end":f(end),"d":bytes_json(d)})
}

/// One list under one configuration: everything gimli reports.
struct ListRun {
    raw_open: bool,
    raw: Vec<Value>,
    raw_fused: bool,
    res_open: bool,
    res: Vec<Value>,
    res_fused: bool,
    /// the same resolution driven through next_raw + convert_raw
    manual: Vec<Value>,
}

fn run_list(c: &Cf, sec: &[u8], off: usize, ub: u64, addr_sec: &[u8], addr_base: usize, f: fn(u64) -> Value) -> ListRun {
    let e = endian(c.le);
    let cap = sec.len() + 4;
    let debug_addr = DebugAddr::from(EndianSlice::new(addr_sec, e));
    let ab = DebugAddrBase(addr_base);
    let mut out = ListRun {
        raw_open: false,
        raw: vec![],
        raw_fused: true,
        res_open: false,
        res: vec![],
        res_fused: true,
        manual: vec![],
    };
    if c.loc {
        let ll = LocationLists::new(DebugLoc::new(sec, e), DebugLocLists::new(sec, e));
        let o = LocationListsOffset(off);
        let raw = if c.dwo {
            ll.raw_locations_dwo(o, enc(c))
        } else {
            ll.raw_locations(o, enc(c))
        };
        if let Ok(mut it) = raw {
            out.raw_open = true;
            for _ in 0..cap {
                match it.next() {
                    Ok(Some(x)) => out.raw.push(raw_loc_item(&x, f)),
                    Ok(None) => break,
                    Err(x) => out.raw.push(err_item(&x)),
                }
            }
            out.raw_fused = matches!(it.next(), Ok(None));
        }
        let mk = || {
            if c.dwo {
                ll.locations_dwo(o, enc(c), ub, &debug_addr, ab)
            } else {
                ll.locations(o, enc(c), ub, &debug_addr, ab)
            }
        };
        if let Ok(mut it) = mk() {
            out.res_open = true;
            for _ in 0..cap {
                match it.next() {
                    Ok(Some(x)) => out.res.push(range_item(x.range.begin, x.range.end, x.data.0.slice(), f)),
                    Ok(None) => break,
                    Err(x) => out.res.push(err_item(&x)),
                }
            }
            out.res_fused = matches!(it.next(), Ok(None));
        }
        if let Ok(mut it) = mk() {
            for _ in 0..cap {
                match it.next_raw() {
                    Ok(Some(r)) => match it.convert_raw(r) {
                        Ok(Some(x)) => out.manual.push(range_item(x.range.begin, x.range.end, x.data.0.slice(), f)),
                        Ok(None) => {}
                        Err(x) => out.manual.push(err_item(&x)),
                    },
                    Ok(None) => break,
                    Err(x) => out.manual.push(err_item(&x)),
                }
            }
        }
    } else {
        let rl = RangeLists::new(DebugRanges::new(sec, e), DebugRngLists::new(sec, e));
        let o = RangeListsOffset(off);
        if let Ok(mut it) = rl.raw_ranges(o, enc(c)) {
            out.raw_open = true;
            for _ in 0..cap {
                match it.next() {
                    Ok(Some(x)) => out.raw.push(raw_rng_item(&x, f)),
                    Ok(None) => break,
                    Err(x) => out.raw.push(err_item(&x)),
                }
            }
            out.raw_fused = matches!(it.next(), Ok(None));
        }
        if let Ok(mut it) = rl.ranges(o, enc(c), ub, &debug_addr, ab) {
            out.res_open = true;
            for _ in 0..cap {
                match it.next() {
                    Ok(Some(x)) => out.res.push(range_item(x.begin, x.end, &[], f)),
                    Ok(None) => break,
                    Err(x) => out.res.push(err_item(&x)),
                }
            }
            out.res_fused = matches!(it.next(), Ok(None));
        }
        if let Ok(mut it) = rl.ranges(o, enc(c), ub, &debug_addr, ab) {
            for _ in 0..cap {
                match it.next_raw() {
                    Ok(Some(r)) => match it.convert_raw(r) {
                        Ok(Some(x)) => out.manual.push(range_item(x.begin, x.end, &[], f)),
                        Ok(None) => {}
                        Err(x) => out.manual.push(err_item(&x)),
                    },
                    Ok(None) => break,
                    Err(x) => out.manual.push(err_item(&x)),
                }
            }
        }
    }
    out
}

fn list_obs(r: &ListRun) -> Value {
    json!({"raw":{"open":r.raw_open,"items":r.raw},"res":{"open":r.res_open,"items":r.res},
           "raw_fused":r.raw_fused,"res_fused":r.res_fused,"manual_same": r.manual == r.res})
}

fn replay_list(case: &Value) -> Value {
    let base = cf_of(&case["cf"]);
    let sec = bytes_of(&case["sec"]);
    let off = case["off"].as_u64().unwrap_or(0) as usize;
    let ub = uncv(&case["ub"]);
    let addr_sec = bytes_of(&case["addr"]["sec"]);
    let addr_base = uncv(&case["addr"]["base"]) as usize;
    let vers: Vec<u16> = case["vers"].as_array().map(|a| a.iter().map(|v| v.as_u64().unwrap_or(0) as u16).collect()).unwrap_or_default();
    let dwos: Vec<bool> = case["dwos"].as_array().map(|a| a.iter().map(|v| v.as_bool().unwrap_or(false)).collect()).unwrap_or_default();
    let first = list_obs(&run_list(&base, &sec, off, ub, &addr_sec, addr_base, cv));
    let mut variants = 0;
    let mut diff: Vec<Value> = vec![];
    for ver in &vers {
        for dwo in &dwos {
            for fmt in [Format::Dwarf32, Format::Dwarf64] {
                let c = Cf { ver: *ver, dwo: *dwo, fmt, ..base };
                let o = list_obs(&run_list(&c, &sec, off, ub, &addr_sec, addr_base, cv));
                variants += 1;
                if o != first {
                    diff.push(json!({"cf":cf_json(&c),"obs":o}));
                }
            }
        }
    }
    // the same list through the Dwarf-level and UnitRef-level API of a unit of each
    // version / format / file type (unit images come from the model, see "unitimages")
    let mut dvariants = 0;
    let mut ddiff: Vec<Value> = vec![];
    let rng_dwos = [false, true];
    for ver in &vers {
        let ds: &[bool] = if base.loc { &dwos } else { &rng_dwos };
        for dwo in ds {
            for fmt in [Format::Dwarf32, Format::Dwarf64] {
                let c = Cf { ver: *ver, dwo: *dwo, fmt, ..base };
                let Some((info, abbrev)) = unit_image(&c) else { continue };
                let o = guarded(|| dwarf_level_list(&c, &info, &abbrev, &sec, off, ub, &addr_sec, addr_base));
                dvariants += 1;
                if o["raw"] != first["raw"] || o["res"] != first["res"] || o["uref_same"] != json!(true) {
                    ddiff.push(json!({"cf":cf_json(&c),"obs":o}));
                }
            }
        }
    }
    let mut o = first;
    o["variants"] = json!(variants);
    o["diff"] = Value::Array(diff);
    o["dvariants"] = json!(dvariants);
    o["ddiff"] = Value::Array(ddiff);
    o
}

type Image = (u16, bool, bool, u8, bool, Vec<u8>, Vec<u8>);
static IMAGES: std::sync::Mutex<Vec<Image>> = std::sync::Mutex::new(Vec::new());

/// `{"sys":"unitimages","table":[{"cf":..,"info":[..],"abbrev":[..]},..]}`: minimal units (a root
/// DIE without attributes) for every version / format / file type / address size / byte order.
fn store_images(case: &Value) -> Value {
    let mut t = IMAGES.lock().unwrap();
    t.clear();
    for e in case["table"].as_array().cloned().unwrap_or_default() {
        let c = cf_of(&e["cf"]);
        t.push((c.ver, c.fmt == Format::Dwarf64, c.dwo, c.asz, c.le, bytes_of(&e["info"]), bytes_of(&e["abbrev"])));
    }
    json!({"stored": t.len()})
}
fn unit_image(c: &Cf) -> Option<(Vec<u8>, Vec<u8>)> {
    let t = IMAGES.lock().unwrap();
    t.iter()
        .find(|x| x.0 == c.ver && x.1 == (c.fmt == Format::Dwarf64) && x.2 == c.dwo && x.3 == c.asz && x.4 == c.le)
        .map(|x| (x.5.clone(), x.6.clone()))
}

/// The list at `off` read through `Dwarf::{raw_ranges,ranges,raw_locations,locations}` and the
/// `UnitRef` methods of a unit with the given base address / address-table base.
fn dwarf_level_list(c: &Cf, info: &[u8], abbrev: &[u8], sec: &[u8], off: usize, ub: u64, addr_sec: &[u8], addr_base: usize) -> Value {
    let e = endian(c.le);
    let empty: &[u8] = &[];
    let mut dwarf = gimli::Dwarf::load(|id| -> Result<R, ()> {
        Ok(EndianSlice::new(
            match id {
                SectionId::DebugInfo => info,
                SectionId::DebugAbbrev => abbrev,
                SectionId::DebugAddr => addr_sec,
                SectionId::DebugRanges | SectionId::DebugRngLists | SectionId::DebugLoc | SectionId::DebugLocLists => sec,
                _ => empty,
            },
            e,
        ))
    })
    .unwrap();
    if c.dwo {
        dwarf.file_type = DwarfFileType::Dwo;
    }
    let header = match dwarf.units().next() {
        Ok(Some(h)) => h,
        _ => return json!({"t":"no-unit"}),
    };
    let mut unit = match gimli::Unit::new(&dwarf, header) {
        Ok(u) => u,
        Err(x) => return json!({"t":"unit-err","err":err_name(&x)}),
    };
    unit.low_pc = ub;
    unit.addr_base = DebugAddrBase(addr_base);
    let cap = sec.len() + 4;
    let u = unit.unit_ref(&dwarf);
    let (raw, res, raw_u, res_u) = if c.loc {
        let o = LocationListsOffset(off);
        (run_raw_loc(dwarf.raw_locations(&unit, o), cap), run_loc(dwarf.locations(&unit, o), cap),
         run_raw_loc(u.raw_locations(o), cap), run_loc(u.locations(o), cap))
    } else {
        let o = RangeListsOffset(off);
        (run_raw_rng(dwarf.raw_ranges(&unit, o), cap), run_rng(dwarf.ranges(&unit, o), cap),
         run_raw_rng(u.raw_ranges(o), cap), run_rng(u.ranges(o), cap))
    };
    let same = raw == raw_u && res == res_u;
    json!({"raw":raw,"res":res,"uref_same":same})
}

// ---------------------------------------------------------------- die mode

fn iter_ranges<'a>(mut it: gimli::RangeIter<R<'a>>, cap: usize) -> Vec<Value> {
    let mut v = vec![];
    for _ in 0..cap {
        match it.next() {
            Ok(Some(x)) => v.push(range_item(x.begin, x.end, &[], cv)),
            Ok(None) => break,
            Err(x) => v.push(err_item(&x)),
        }
    }
    v
}

fn opt_off(r: gimli::Result<Option<usize>>) -> Value {
    match r {
        Ok(Some(v)) => json!({"t":"some","v":cv(v as u64)}),
        Ok(None) => json!({"t":"none"}),
        Err(e) => err_item(&e),
    }
}

/// `split`: (skeleton .debug_info, its .debug_abbrev, the main file's .debug_addr): the unit is
/// then treated as the split unit of that skeleton: `make_dwo(parent)`, `Unit::new`,
/// `copy_relocated_attributes(skeleton unit)` before the queries.
fn die_once(c: &Cf, info: &[u8], abbrev: &[u8], file: &Value, split: Option<(&[u8], &[u8], &[u8])>) -> Value {
    let e = endian(c.le);
    let addr = bytes_of(&file["addr"]);
    let ranges = bytes_of(&file["ranges"]);
    let rnglists = bytes_of(&file["rnglists"]);
    let loc = bytes_of(&file["loc"]);
    let loclists = bytes_of(&file["loclists"]);
    let empty: &[u8] = &[];
    let mut dwarf = gimli::Dwarf::load(|id| -> Result<R, ()> {
        Ok(EndianSlice::new(
            match id {
                SectionId::DebugInfo => info,
                SectionId::DebugAbbrev => abbrev,
                SectionId::DebugAddr => &addr,
                SectionId::DebugRanges => &ranges,
                SectionId::DebugRngLists => &rnglists,
                SectionId::DebugLoc => &loc,
                SectionId::DebugLocLists => &loclists,
                _ => empty,
            },
            e,
        ))
    })
    .unwrap();
    let parent = split.map(|(pinfo, pabbrev, paddr)| {
        gimli::Dwarf::load(|id| -> Result<R, ()> {
            Ok(EndianSlice::new(
                match id {
                    SectionId::DebugInfo => pinfo,
                    SectionId::DebugAbbrev => pabbrev,
                    SectionId::DebugAddr => paddr,
                    SectionId::DebugRanges => &ranges,
                    SectionId::DebugRngLists => &rnglists,
                    SectionId::DebugLoc => &loc,
                    SectionId::DebugLocLists => &loclists,
                    _ => empty,
                },
                e,
            ))
        })
        .unwrap()
    });
    let mut skeleton = None;
    if let Some(p) = &parent {
        let h = match p.units().next() {
            Ok(Some(h)) => h,
            _ => return json!({"unit":{"t":"err","err":"NoSkeletonHeader"}}),
        };
        match gimli::Unit::new(p, h) {
            Ok(u) => skeleton = Some(u),
            Err(x) => return json!({"unit":{"t":"err","err":err_name(&x),"stage":"skeleton"}}),
        }
        dwarf.make_dwo(p);
    } else if c.dwo {
        dwarf.file_type = DwarfFileType::Dwo;
    }
    let header = match dwarf.units().next() {
        Ok(Some(h)) => h,
        Ok(None) => return json!({"unit":{"t":"err","err":"NoUnit"}}),
        Err(x) => return json!({"unit":{"t":"err","err":err_name(&x),"stage":"header"}}),
    };
    let mut unit = match gimli::Unit::new(&dwarf, header) {
        Ok(u) => u,
        Err(x) => return json!({"unit":{"t":"err","err":err_name(&x)}}),
    };
    if let Some(sk) = &skeleton {
        unit.copy_relocated_attributes(sk);
    }
    let unit = unit;
    let cap = 64;
    let mut cursor = unit.entries();
    let root = match cursor.next_dfs() {
        Ok(Some(r)) => r.clone(),
        _ => return json!({"unit":{"t":"err","err":"NoRoot"}}),
    };
    // Dwarf-level API
    let mut attrs: Vec<Value> = vec![];
    let mut api_same = true;
    for a in root.attrs() {
        let ro = dwarf.attr_ranges_offset(&unit, a.value()).map(|o| o.map(|x| x.0));
        let lo = dwarf.attr_locations_offset(&unit, a.value()).map(|o| o.map(|x| x.0));
        let rr = match dwarf.attr_ranges(&unit, a.value()) {
            Ok(Some(it)) => run_rng(Ok(it), cap),
            _ => closed(),
        };
        let lr = match dwarf.attr_locations(&unit, a.value()) {
            Ok(Some(it)) => run_loc(Ok(it), cap),
            _ => closed(),
        };
        // the raw iterators and the offset-taking resolving API at the same offsets
        let (mut rw, mut lw) = (closed(), closed());
        if let Ok(Some(off)) = ro {
            rw = run_raw_rng(dwarf.raw_ranges(&unit, RangeListsOffset(off)), cap);
            api_same &= run_rng(dwarf.ranges(&unit, RangeListsOffset(off)), cap) == rr;
        }
        if let Ok(Some(off)) = lo {
            lw = run_raw_loc(dwarf.raw_locations(&unit, LocationListsOffset(off)), cap);
            api_same &= run_loc(dwarf.locations(&unit, LocationListsOffset(off)), cap) == lr;
        }
        attrs.push(json!({"at":a.name().0,"ro":opt_off(ro),"lo":opt_off(lo),"rr":rr,"lr":lr,"rw":rw,"lw":lw}));
    }
    let die = match dwarf.die_ranges(&unit, &root) {
        Ok(it) => json!({"t":"ok","items":iter_ranges(it, cap)}),
        Err(x) => err_item(&x),
    };
    let ur = match dwarf.unit_ranges(&unit) {
        Ok(it) => json!({"t":"ok","items":iter_ranges(it, cap)}),
        Err(x) => err_item(&x),
    };
    let raw0 = dwarf.ranges_offset_from_raw(&unit, gimli::RawRangeListsOffset(5)).0;
    // the same through UnitRef
    let u = unit.unit_ref(&dwarf);
    let mut attrs_u: Vec<Value> = vec![];
    for a in root.attrs() {
        let ro = u.attr_ranges_offset(a.value()).map(|o| o.map(|x| x.0));
        let lo = u.attr_locations_offset(a.value()).map(|o| o.map(|x| x.0));
        let rr = match u.attr_ranges(a.value()) {
            Ok(Some(it)) => run_rng(Ok(it), cap),
            _ => closed(),
        };
        let lr = match u.attr_locations(a.value()) {
            Ok(Some(it)) => run_loc(Ok(it), cap),
            _ => closed(),
        };
        let (mut rw, mut lw) = (closed(), closed());
        if let Ok(Some(off)) = ro {
            rw = run_raw_rng(u.raw_ranges(RangeListsOffset(off)), cap);
            api_same &= run_rng(u.ranges(RangeListsOffset(off)), cap) == rr;
        }
        if let Ok(Some(off)) = lo {
            lw = run_raw_loc(u.raw_locations(LocationListsOffset(off)), cap);
            api_same &= run_loc(u.locations(LocationListsOffset(off)), cap) == lr;
        }
        attrs_u.push(json!({"at":a.name().0,"ro":opt_off(ro),"lo":opt_off(lo),"rr":rr,"lr":lr,"rw":rw,"lw":lw}));
    }
    let die_u = match u.die_ranges(&root) {
        Ok(it) => json!({"t":"ok","items":iter_ranges(it, cap)}),
        Err(x) => err_item(&x),
    };
    let ur_u = match u.unit_ranges() {
        Ok(it) => json!({"t":"ok","items":iter_ranges(it, cap)}),
        Err(x) => err_item(&x),
    };
    let raw0_u = u.ranges_offset_from_raw(gimli::RawRangeListsOffset(5)).0;
    let uref_same = attrs_u == attrs && die_u == die && ur_u == ur && raw0_u == raw0;
    let mut out = json!({"unit":{"t":"ok","low_pc":cv(unit.low_pc),"addr_base":cv(unit.addr_base.0 as u64),
                   "rnglists_base":cv(unit.rnglists_base.0 as u64),"loclists_base":cv(unit.loclists_base.0 as u64)},
           "attrs":attrs,"die":die,"ur":ur,"raw0":cv(raw0 as u64),"api_same":api_same,"uref_same":uref_same});
    if !uref_same {
        out["uref"] = json!({"attrs":attrs_u,"die":die_u,"ur":ur_u,"raw0":cv(raw0_u as u64)});
    }
    out
}

fn closed() -> Value {
    json!({"open":false,"items":[]})
}
fn run_rng<'a>(r: gimli::Result<gimli::RngListIter<R<'a>>>, cap: usize) -> Value {
    match r {
        Ok(mut it) => {
            let mut v = vec![];
            for _ in 0..cap {
                match it.next() {
                    Ok(Some(x)) => v.push(range_item(x.begin, x.end, &[], cv)),
                    Ok(None) => break,
                    Err(x) => v.push(err_item(&x)),
                }
            }
            json!({"open":true,"items":v})
        }
        Err(_) => closed(),
    }
}
fn run_loc<'a>(r: gimli::Result<gimli::LocListIter<R<'a>>>, cap: usize) -> Value {
    match r {
        Ok(mut it) => {
            let mut v = vec![];
            for _ in 0..cap {
                match it.next() {
                    Ok(Some(x)) => v.push(range_item(x.range.begin, x.range.end, x.data.0.slice(), cv)),
                    Ok(None) => break,
                    Err(x) => v.push(err_item(&x)),
                }
            }
            json!({"open":true,"items":v})
        }
        Err(_) => closed(),
    }
}
fn run_raw_rng<'a>(r: gimli::Result<gimli::RawRngListIter<R<'a>>>, cap: usize) -> Value {
    match r {
        Ok(mut it) => {
            let mut v = vec![];
            for _ in 0..cap {
                match it.next() {
                    Ok(Some(x)) => v.push(raw_rng_item(&x, cv)),
                    Ok(None) => break,
                    Err(x) => v.push(err_item(&x)),
                }
            }
            json!({"open":true,"items":v})
        }
        Err(_) => closed(),
    }
}
fn run_raw_loc<'a>(r: gimli::Result<gimli::RawLocListIter<R<'a>>>, cap: usize) -> Value {
    match r {
        Ok(mut it) => {
            let mut v = vec![];
            for _ in 0..cap {
                match it.next() {
                    Ok(Some(x)) => v.push(raw_loc_item(&x, cv)),
                    Ok(None) => break,
                    Err(x) => v.push(err_item(&x)),
                }
            }
            json!({"open":true,"items":v})
        }
        Err(_) => closed(),
    }
}

/// All version variants of one unit image; the first observation plus the variants that differ.
fn die_variants(c: &Cf, infos: &Value, abbrev: &[u8], file: &Value, split: Option<&Value>) -> Value {
    let mut first: Option<Value> = None;
    let mut diff: Vec<Value> = vec![];
    let mut n = 0;
    for (k, inf) in infos.as_array().cloned().unwrap_or_default().iter().enumerate() {
        let ver = inf["ver"].as_u64().unwrap_or(0) as u16;
        let info = bytes_of(&inf["bytes"]);
        let cc = Cf { ver, ..*c };
        let o = match split {
            Some(sp) => {
                let pinfo = bytes_of(&sp["pinfo"][k]["bytes"]);
                let pabbrev = bytes_of(&sp["pabbrev"]);
                let paddr = bytes_of(&sp["paddr"]);
                guarded(|| die_once(&cc, &info, abbrev, file, Some((&pinfo, &pabbrev, &paddr))))
            }
            None => guarded(|| die_once(&cc, &info, abbrev, file, None)),
        };
        n += 1;
        match &first {
            None => first = Some(o),
            Some(f) => {
                if *f != o {
                    diff.push(json!({"ver":ver,"obs":o}));
                }
            }
        }
    }
    let mut o = first.unwrap_or(json!({}));
    if o.get("outcome").is_some() {
        return o;
    }
    o["variants"] = json!(n);
    o["diff"] = Value::Array(diff);
    o
}

fn replay_die(case: &Value) -> Value {
    let c = cf_of(&case["cf"]);
    let abbrev = bytes_of(&case["abbrev"]);
    let mut o = die_variants(&c, &case["info"], &abbrev, &case["file"], None);
    if o.get("outcome").is_some() {
        return o;
    }
    // the same unit as the split unit of a skeleton in another file
    if let Some(sp) = case["split"].as_array().and_then(|a| a.first()) {
        o["split"] = die_variants(&c, &case["info"], &abbrev, &case["file"], Some(sp));
    }
    o
}

fn replay(case: &Value) -> Value {
    match case["sys"].as_str() {
        Some("unitimages") => store_images(case),
        Some("list") => replay_list(case),
        Some("die") => replay_die(case),
        _ => json!({"outcome":"bad-sys"}),
    }
}

// ------------------------------------------------------------------ record

fn bv8(v: u64) -> Value {
    bv(v, 8)
}

fn mask(asz: u8) -> u64 {
    if asz >= 8 {
        u64::MAX
    } else {
        (1u64 << (8 * asz as u32)) - 1
    }
}

fn put_uleb(out: &mut Vec<u8>, mut v: u64, pad: usize) {
    // canonical, optionally padded with redundant continuation bytes
    let mut n = 0;
    loop {
        let b = (v & 0x7f) as u8;
        v >>= 7;
        n += 1;
        if v == 0 && n > pad {
            out.push(b);
            break;
        }
        out.push(b | 0x80);
    }
}

fn put_fixed(out: &mut Vec<u8>, v: u64, n: usize, le: bool) {
    let b = v.to_le_bytes();
    if le {
        out.extend_from_slice(&b[..n]);
    } else {
        out.extend(b[..n].iter().rev());
    }
}

struct Gen {
    rng: Rng,
}

impl Gen {
    /// An address for a region around `r`: near it, near the tombstones, near
    /// zero, or anything.
    fn addr(&mut self, r: u64, asz: u8) -> u64 {
        let m = mask(asz);
        (match self.rng.below(10) {
            0 => m,
            1 => m - 1,
            2 => m - 2 - self.rng.below(4),
            3 => self.rng.below(3),
            4 => self.rng.boundary64(),
            _ => r.wrapping_add(self.rng.below(0x400)),
        }) & m
    }
    fn small(&mut self, asz: u8) -> u64 {
        match self.rng.below(12) {
            0 => 0,
            1 => self.rng.boundary64(),
            2 => mask(asz) - self.rng.below(3),
            3 => (mask(asz) >> 1) + self.rng.below(3),
            _ => self.rng.below(0x300),
        }
    }
    fn index(&mut self, tab_len: u64) -> u64 {
        match self.rng.below(14) {
            0 => tab_len + self.rng.below(3),
            1 => 1u64 << (20 + self.rng.below(40)),
            _ => self.rng.below(tab_len.max(1)),
        }
    }
    fn data(&mut self, out: &mut Vec<u8>, uleb: bool, le: bool) {
        let n = self.rng.below(5);
        if uleb {
            let pad = if self.rng.chance(1, 10) { 1 } else { 0 };
            put_uleb(out, n, pad);
        } else {
            put_fixed(out, n, 2, le);
        }
        for _ in 0..n {
            out.push(self.rng.next() as u8);
        }
    }
    /// Syntax-directed list bytes (entry kind byte + operands of the right
    /// shape, values biased to boundaries); no meaning is attached here.
    fn list(&mut self, c: &Cf, coded: bool, tab_len: u64, region: u64, n: u64) -> Vec<u8> {
        let mut out = vec![];
        let asz = c.asz as usize;
        for _ in 0..n {
            if !coded {
                if self.rng.chance(1, 6) {
                    put_fixed(&mut out, mask(c.asz), asz, c.le);
                    let a = self.addr(region, c.asz);
                    put_fixed(&mut out, a, asz, c.le);
                } else {
                    let (a, b) = if self.rng.chance(1, 2) {
                        let a = self.small(c.asz);
                        (a, a.wrapping_add(self.rng.below(0x40)))
                    } else {
                        (self.addr(region, c.asz), self.addr(region, c.asz))
                    };
                    put_fixed(&mut out, a, asz, c.le);
                    put_fixed(&mut out, b, asz, c.le);
                    if c.loc && (a & mask(c.asz)) != mask(c.asz) && !(a & mask(c.asz) == 0 && b & mask(c.asz) == 0) {
                        self.data(&mut out, false, c.le);
                    }
                }
                continue;
            }
            let nk = if c.loc { 8 } else { 7 };
            let code = if self.rng.chance(1, 60) { 9 + self.rng.below(3) } else { 1 + self.rng.below(nk) } as u8;
            out.push(code);
            // operand shapes by code: u = ULEB, a = address, w = 4 bytes
            let shape: &str = match (c.loc, code) {
                (_, 1) => "u",
                (_, 2) => "uu",
                (true, 3) if c.ver < 5 => "uw",
                (_, 3) => "uu",
                (_, 4) => "uu",
                (false, 5) => "a",
                (false, 6) => "aa",
                (false, 7) => "au",
                (true, 5) => "",
                (true, 6) => "a",
                (true, 7) => "aa",
                (true, 8) => "au",
                _ => "",
            };
            let is_x = matches!(code, 1 | 2 | 3);
            let mut prev = 0u64;
            for (i, ch) in shape.chars().enumerate() {
                match ch {
                    'u' => {
                        let v = if is_x && (i == 0 || code == 2) {
                            self.index(tab_len)
                        } else if i == 1 && self.rng.chance(1, 2) {
                            prev.wrapping_add(self.rng.below(0x80))
                        } else {
                            self.small(c.asz)
                        };
                        prev = v;
                        let pad = if self.rng.chance(1, 20) { 1 + self.rng.below(2) as usize } else { 0 };
                        put_uleb(&mut out, v, pad);
                    }
                    'a' => {
                        let v = if i == 1 && self.rng.chance(1, 2) {
                            prev.wrapping_add(self.rng.below(0x80))
                        } else {
                            self.addr(region, c.asz)
                        };
                        prev = v;
                        put_fixed(&mut out, v, asz, c.le);
                    }
                    _ => {
                        let v = self.small(4);
                        put_fixed(&mut out, v, 4, c.le);
                    }
                }
            }
            let has_data = c.loc && !matches!((code, c.loc), (1, _) | (6, true)) && code <= 8;
            if has_data {
                self.data(&mut out, c.ver >= 5, c.le);
            }
        }
        out
    }
}

fn coded_format(c: &Cf) -> bool {
    if c.loc {
        c.dwo || c.ver >= 5
    } else {
        c.ver >= 5
    }
}

fn record(out: &str, a: &Args) {
    let mut g = Gen { rng: Rng::new(a.num("--seed", 1)) };
    let n = a.num("--n", 200);
    let maxlen = a.num("--maxlen", 40);
    let mut evs: Vec<Value> = Vec::new();
    for it in 0..n {
        let asz = *g.rng.pick(&[4u8, 8, 8, 4, 2, 1]);
        let c = Cf {
            loc: g.rng.chance(1, 2),
            ver: *g.rng.pick(&[2u16, 3, 4, 4, 5, 5, 5]),
            asz,
            fmt: if g.rng.chance(1, 2) { Format::Dwarf32 } else { Format::Dwarf64 },
            dwo: g.rng.chance(1, 3),
            le: !g.rng.chance(1, 4),
        };
        let region = g.rng.boundary64() & mask(asz);
        // .debug_addr: junk, then a table
        let addr_base = *g.rng.pick(&[0usize, 8, 3]);
        let tab_len = g.rng.range(1, 12);
        let mut addr_sec: Vec<u8> = (0..addr_base).map(|_| g.rng.next() as u8).collect();
        for _ in 0..tab_len {
            let v = g.addr(region, asz);
            put_fixed(&mut addr_sec, v, asz as usize, c.le);
        }
        let off = g.rng.below(4) as usize;
        let mut sec: Vec<u8> = (0..off).map(|_| g.rng.next() as u8).collect();
        let mode = it % 5;
        if mode == 4 {
            // arbitrary bytes, biased to small values so that entry codes are hit
            let len = g.rng.below(80);
            for _ in 0..len {
                let b = match g.rng.below(4) {
                    0 => g.rng.below(10) as u8,
                    1 => 0xff - g.rng.below(3) as u8,
                    _ => g.rng.next() as u8,
                };
                sec.push(b);
            }
        } else {
            let cnt = g.rng.below(maxlen + 1);
            let body = g.list(&c, coded_format(&c), tab_len, region, cnt);
            sec.extend(body);
            match g.rng.below(12) {
                0 => {}
                1 => {
                    let k = g.rng.below(4) as usize;
                    let l = sec.len().saturating_sub(k).max(off);
                    sec.truncate(l);
                }
                _ => {
                    if coded_format(&c) {
                        sec.push(0);
                    } else {
                        sec.extend(std::iter::repeat(0).take(2 * asz as usize));
                    }
                    sec.extend([4u8, 1, 2, 0]);
                }
            }
        }
        let ub = if g.rng.chance(1, 8) { mask(asz) - g.rng.below(3) } else { region };
        evs.push(json!({"ev":"Reset","cf":cf_json(&c),"sec":bytes_json(&sec),"off":off,"ub":bv8(ub),
                        "addr":{"sec":bytes_json(&addr_sec),"base":bv8(addr_base as u64)}}));
        let r = guarded(|| {
            let lr = run_list(&c, &sec, off, ub, &addr_sec, addr_base, bv8);
            json!({"raw_open":lr.raw_open,"raw":lr.raw,"raw_fused":lr.raw_fused,
                   "res_open":lr.res_open,"res":lr.res,"res_fused":lr.res_fused,"manual_same":lr.manual == lr.res})
        });
        if r.get("outcome").is_some() {
            evs.push(json!({"ev":"Panic","r":r}));
            continue;
        }
        evs.push(json!({"ev":"Open","raw":r["raw_open"],"res":r["res_open"],"manual_same":r["manual_same"]}));
        if r["raw_open"].as_bool() == Some(true) {
            for x in r["raw"].as_array().unwrap() {
                evs.push(json!({"ev":"Raw","r":x}));
            }
            evs.push(json!({"ev":"Raw","r":{"t":"none"}}));
            evs.push(json!({"ev":"RawFused","fused":r["raw_fused"]}));
        }
        evs.push(json!({"ev":"Rewind"}));
        if r["res_open"].as_bool() == Some(true) {
            for x in r["res"].as_array().unwrap() {
                evs.push(json!({"ev":"Next","r":x}));
            }
            evs.push(json!({"ev":"Next","r":{"t":"none"}}));
            evs.push(json!({"ev":"NextFused","fused":r["res_fused"]}));
        }
    }
    write_lines(out, &evs);
}

fn main() {
    main_with(replay, record);
}
