// ---------------------------------------------------------------------------
// Dwarf::load, unit iteration, everything reachable from a unit.
// ---------------------------------------------------------------------------
fn strip(name: &'static str) -> &'static str {
    name.strip_prefix('.').unwrap_or(name)
}

fn load_dwarf<S: Src>(src: &S, dwo: bool) -> read::Dwarf<S::R> {
    let r: Result<read::Dwarf<S::R>, gimli::Error> = read::Dwarf::load(|id: SectionId| {
        Ok(if dwo {
            match id.dwo_name() {
                Some(n) => src.get(strip(n)),
                None => src.get(""),
            }
        } else {
            src.get(strip(id.name()))
        })
    });
    let mut d = r.unwrap();
    if dwo {
        d.file_type = DwarfFileType::Dwo;
    }
    d
}

/// Things found while walking entries that are driven afterwards.
struct Found<R: Reader> {
    exprs: Vec<read::Expression<R>>,
    ranges: Vec<RangeListsOffset<usize>>,
    locs: Vec<LocationListsOffset<usize>>,
    macros: Vec<DebugMacroOffset<usize>>,
    macinfo: Vec<DebugMacinfoOffset<usize>>,
    offsets: Vec<UnitOffset<usize>>,
}

impl<R: Reader> Found<R> {
    fn new() -> Self {
        Found { exprs: Vec::new(), ranges: Vec::new(), locs: Vec::new(), macros: Vec::new(), macinfo: Vec::new(), offsets: Vec::new() }
    }
}

const CAP: usize = 48;

fn drive_attr<R: Reader<Offset = usize>>(
    o: &mut Obs,
    dwarf: &read::Dwarf<R>,
    unit: &read::Unit<R>,
    attr: &read::Attribute<R>,
    found: &mut Found<R>,
    lb: (usize, usize),
) {
    let _ = v!(o, "Attribute::raw_value", attr.raw_value());
    let value = v!(o, "Attribute::value", attr.value());
    let _ = v!(o, "Attribute::u8_value", attr.u8_value());
    let _ = v!(o, "Attribute::u16_value", attr.u16_value());
    let _ = v!(o, "Attribute::udata_value", attr.udata_value());
    let _ = v!(o, "Attribute::sdata_value", attr.sdata_value());
    let _ = v!(o, "Attribute::offset_value", attr.offset_value());
    let _ = v!(o, "Attribute::string_value", attr.string_value(&dwarf.debug_str));
    if let Some(e) = v!(o, "Attribute::exprloc_value", attr.exprloc_value()) {
        if found.exprs.len() < CAP {
            found.exprs.push(e);
        }
    }
    if let Some(s) = c!(o, "Dwarf::attr_string", dwarf.attr_string(unit, value.clone())) {
        let _ = v!(o, "Reader::to_string_lossy", s.to_string_lossy().map(|x| x.len()));
    }
    let _ = c!(o, "Dwarf::attr_line_string", dwarf.attr_line_string(value.clone()));
    let _ = c!(o, "Dwarf::attr_address", dwarf.attr_address(unit, value.clone()));
    if let Some(Some(off)) = c!(o, "Dwarf::attr_ranges_offset", dwarf.attr_ranges_offset(unit, value.clone())) {
        if found.ranges.len() < CAP {
            found.ranges.push(off);
            if let Some(Some(mut it)) = c!(o, "Dwarf::attr_ranges", dwarf.attr_ranges(unit, value.clone())) {
                pump!(o, "RngListIter", false, lb.0, it.next(), |_r| {});
            }
        }
    }
    if let Some(Some(off)) = c!(o, "Dwarf::attr_locations_offset", dwarf.attr_locations_offset(unit, value.clone())) {
        if found.locs.len() < CAP {
            found.locs.push(off);
            if let Some(Some(mut it)) = c!(o, "Dwarf::attr_locations", dwarf.attr_locations(unit, value.clone())) {
                pump!(o, "LocListIter", false, lb.1, it.next(), |_r| {});
            }
        }
    }
    match value {
        read::AttributeValue::DebugMacroRef(off) if found.macros.len() < 4 => found.macros.push(off),
        read::AttributeValue::DebugMacinfoRef(off) if found.macinfo.len() < 4 => found.macinfo.push(off),
        read::AttributeValue::UnitRef(off) if found.offsets.len() < CAP => found.offsets.push(off),
        _ => {}
    }
}

fn drive_entry<R: Reader<Offset = usize>>(
    o: &mut Obs,
    dwarf: &read::Dwarf<R>,
    unit: &read::Unit<R>,
    entry: &read::DebuggingInformationEntry<R>,
    found: &mut Found<R>,
    lb: (usize, usize),
) {
    let ranges_bound = lb.0;
    if found.offsets.len() < CAP {
        found.offsets.push(entry.offset());
    }
    for attr in entry.attrs() {
        drive_attr(o, dwarf, unit, attr, found, lb);
    }
    if let Some(mut it) = c!(o, "Dwarf::die_ranges", dwarf.die_ranges(unit, entry)) {
        pump!(o, "RangeIter", false, ranges_bound + 1, it.next(), |_r| {});
    }
}

fn tree_walk<R: Reader<Offset = usize>>(
    o: &mut Obs,
    node: read::EntriesTreeNode<'_, '_, R>,
    depth: usize,
    bound: usize,
    budget: &mut usize,
) {
    let _ = v!(o, "EntriesTreeNode::entry", node.entry().attrs().len());
    let mut children = node.children();
    let mut p = Pump::new("EntriesTreeIter", false, bound);
    o.start("EntriesTreeIter");
    while p.more() {
        let r = children.next();
        p.res(&r);
        if let Ok(Some(child)) = r {
            // The harness itself never recurses deeper than 48 levels.
            if depth < 48 && *budget > 0 {
                *budget -= 1;
                tree_walk(o, child, depth + 1, bound, budget);
                o.start("EntriesTreeIter");
            }
        }
    }
    o.done(p);
}

fn drive_line_program<R: Reader<Offset = usize>>(
    o: &mut Obs,
    dwarf: Option<(&read::Dwarf<R>, &read::Unit<R>)>,
    program: read::IncompleteLineProgram<R>,
    rng: &mut Rng,
) {
    let header = program.header().clone();
    let _ = v!(o, "LineProgramHeader::accessors", (
        header.offset(), header.unit_length(), header.encoding(), header.version(), header.header_length(),
        header.address_size(), header.format(), header.line_encoding(), header.minimum_instruction_length(),
        header.maximum_operations_per_instruction(), header.default_is_stmt(), header.line_base(),
        header.line_range(), header.opcode_base(), header.standard_opcode_lengths().len(),
        header.directory_entry_format().len(), header.file_name_entry_format().len(),
        header.file_has_timestamp(), header.file_has_size(), header.file_has_md5(), header.file_has_source()));
    let nfiles = header.file_names().len() as u64;
    let ndirs = header.include_directories().len() as u64;
    for i in [0, 1, nfiles.saturating_sub(1), nfiles, nfiles + 1, u64::MAX, rng.below(nfiles + 1)] {
        if let Some(f) = v!(o, "LineProgramHeader::file", header.file(i)) {
            let _ = v!(o, "FileEntry::accessors", (f.directory_index(), f.timestamp(), f.size(), f.md5()[0], f.source().is_some()));
            let dir = v!(o, "FileEntry::directory", f.directory(&header));
            if let Some((dw, unit)) = dwarf {
                let _ = c!(o, "Dwarf::attr_string", dw.attr_string(unit, f.path_name()));
                if let Some(d) = dir {
                    let _ = c!(o, "Dwarf::attr_string", dw.attr_string(unit, d));
                }
            }
        }
    }
    for i in [0, 1, ndirs, ndirs + 1, u64::MAX] {
        let _ = v!(o, "LineProgramHeader::directory", header.directory(i));
    }
    let plen = header.raw_program_buf().len();
    {
        let mut ins = header.instructions();
        pump!(o, "LineInstructions", true, plen, ins.next_instruction(&header), |_i| {});
    }
    {
        let mut rows = program.clone().rows();
        let mut p = Pump::new("LineRows", false, plen);
        o.start("LineRows");
        while p.more() {
            let r = rows.next_row();
            p.rec(match &r {
                Ok(Some(_)) => SOME,
                Ok(None) => NONE,
                Err(_) => ERR,
            });
            if let Ok(Some((h, row))) = r {
                let _ = (row.address(), row.op_index(), row.file_index(), row.line(), row.column(), row.is_stmt(),
                    row.basic_block(), row.end_sequence(), row.prologue_end(), row.epilogue_begin(), row.isa(), row.discriminator());
                let _ = row.file(h);
            }
        }
        o.done(p);
    }
    if let Some((complete, seqs)) = c!(o, "IncompleteLineProgram::sequences", program.sequences()) {
        let n = seqs.len();
        for k in 0..n.min(3) {
            let i = if k == 0 { 0 } else { rng.below(n as u64) as usize };
            let mut rows = complete.resume_from(&seqs[i]);
            let mut p = Pump::new("LineRows::resumed", false, plen);
            o.start("LineRows::resumed");
            while p.more() {
                let r = rows.next_row();
                p.rec(match &r {
                    Ok(Some(_)) => SOME,
                    Ok(None) => NONE,
                    Err(_) => ERR,
                });
            }
            o.done(p);
        }
    }
}

fn drive_macros<R: Reader<Offset = usize>>(o: &mut Obs, it: read::MacroIter<R>, bound: usize, unit: Option<read::UnitRef<'_, R>>) {
    let mut it = it;
    pump!(o, "MacroIter", false, bound, it.next(), |e| {
        if let Some(u) = unit {
            match e {
                read::MacroEntry::Define { text, .. } => {
                    let _ = c!(o, "MacroString::string", text.string(u));
                }
                read::MacroEntry::Undef { name, .. } => {
                    let _ = c!(o, "MacroString::string", name.string(u));
                }
                _ => {}
            }
            o.start("MacroIter");
        }
    });
}

fn drive_unit<R: Reader<Offset = usize>>(o: &mut Obs, dwarf: &read::Dwarf<R>, unit: &read::Unit<R>, cfg: &Cfg, rng: &mut Rng, lb: (usize, usize)) {
    let ulen = unit.header.length_including_self();
    let (rbound, lbound) = lb;
    let mut found: Found<R> = Found::new();
    let _ = v!(o, "Unit::accessors", (unit.encoding(), unit.header.offset(), unit.header.type_(), unit.header.version(),
        unit.header.debug_abbrev_offset(), unit.header.header_size(), unit.header.unit_length(), unit.header.size_of_header(),
        unit.header.debug_info_offset(), unit.header.debug_types_offset(), unit.header.root_offset()));
    let _ = c!(o, "Unit::dwo_name", unit.dwo_name());
    let _ = c!(o, "UnitHeader::abbreviations", unit.header.abbreviations(&dwarf.debug_abbrev));
    let _ = c!(o, "Dwarf::abbreviations", dwarf.abbreviations(&unit.header));

    // (a) depth-first cursor with every attribute
    {
        let mut cur = unit.entries();
        let mut n = 0usize;
        let mut p = Pump::new("EntriesCursor::next_dfs", false, ulen);
        o.start("EntriesCursor::next_dfs");
        while p.more() {
            let r = cur.next_dfs();
            p.rec(match &r {
                Ok(Some(_)) => SOME,
                Ok(None) => NONE,
                Err(_) => ERR,
            });
            if let Ok(Some(entry)) = r {
                n += 1;
                if n <= cfg.max_entries {
                    let entry = entry.clone();
                    drive_entry(o, dwarf, unit, &entry, &mut found, lb);
                    o.start("EntriesCursor::next_dfs");
                } else if o.over() {
                    break;
                }
            }
            let _ = (cur.offset(), cur.depth(), cur.next_offset(), cur.next_depth());
        }
        o.done(p);
    }
    // (b) next_entry pumped as an iterator (true = some, false = none)
    {
        let mut cur = unit.entries();
        pump!(o, "EntriesCursor::next_entry", false, ulen, cur.next_entry().map(|b| if b { Some(()) } else { None }), |_x| {});
    }
    // (c) root, first child, then the sibling chain; repeated a few times
    {
        let mut cur = unit.entries();
        for _round in 0..6 {
            let steps = 1 + rng.below(3);
            let mut alive = true;
            for _ in 0..steps {
                match c!(o, "EntriesCursor::next_entry", cur.next_entry()) {
                    Some(true) => {}
                    _ => {
                        alive = false;
                        break;
                    }
                }
            }
            let _ = v!(o, "EntriesCursor::current", cur.current().map(|e| e.tag()));
            let mut p = Pump::new("EntriesCursor::next_sibling", false, ulen);
            o.start("EntriesCursor::next_sibling");
            while p.more() {
                let r = cur.next_sibling();
                p.rec(match &r {
                    Ok(Some(_)) => SOME,
                    Ok(None) => NONE,
                    Err(_) => ERR,
                });
            }
            o.done(p);
            if !alive {
                break;
            }
        }
    }
    // (d) raw entries: read_entry, and read_abbreviation + skip_attributes
    if let Some(mut raw) = c!(o, "Unit::entries_raw", unit.entries_raw(None)) {
        let mut e = read::DebuggingInformationEntry::null();
        pump!(o, "EntriesRaw::read_entry", false, ulen,
            if raw.is_empty() { Ok(None) } else { raw.read_entry(&mut e).map(|_| Some(())) }, |_x| {});
        let _ = (raw.next_offset(), raw.next_depth());
    }
    if let Some(mut raw) = c!(o, "Unit::entries_raw", unit.entries_raw(None)) {
        pump!(o, "EntriesRaw::skip_attributes", false, ulen,
            if raw.is_empty() { Ok(None) } else {
                match raw.read_abbreviation() {
                    Ok(Some(a)) => raw.skip_attributes(a.attributes()).map(|_| Some(())),
                    Ok(None) => Ok(Some(())),
                    Err(e) => Err(e),
                }
            }, |_x| {});
    }
    if let Some(mut raw) = c!(o, "Unit::entries_raw", unit.entries_raw(None)) {
        // attribute by attribute
        let mut n = 0;
        while !raw.is_empty() && n < cfg.max_entries {
            n += 1;
            match c!(o, "EntriesRaw::read_abbreviation", raw.read_abbreviation()) {
                Some(Some(a)) => {
                    let mut bad = false;
                    for spec in a.attributes() {
                        let r = if rng.chance(1, 2) { raw.read_attribute(*spec) } else { raw.read_attribute_inline(*spec) };
                        if c!(o, "EntriesRaw::read_attribute", r).is_none() {
                            bad = true;
                            break;
                        }
                    }
                    if bad {
                        break;
                    }
                }
                Some(None) => {}
                None => break,
            }
        }
    }
    // (e) the tree view
    if let Some(mut tree) = c!(o, "Unit::entries_tree", unit.entries_tree(None)) {
        if let Some(root) = c!(o, "EntriesTree::root", tree.root()) {
            let mut budget = cfg.max_entries;
            tree_walk(o, root, 0, ulen, &mut budget);
        }
        // root() again on the same tree
        let _ = c!(o, "EntriesTree::root", tree.root().map(|n| n.entry().offset()));
    }
    // (f) random access by offset
    let mut offs = probes(rng, ulen, 3);
    for x in found.offsets.iter().take(6) {
        offs.push(x.0);
        offs.push(x.0.wrapping_add(1));
    }
    for off in offs {
        let off = UnitOffset(off);
        let _ = c!(o, "Unit::entry", unit.entry(off).map(|e| e.attrs().len()));
        if let Some(mut cur) = c!(o, "Unit::entries_at_offset", unit.entries_at_offset(off)) {
            let _ = c!(o, "EntriesCursor::next_dfs", cur.next_dfs().map(|_| ()));
            let _ = c!(o, "EntriesCursor::next_sibling", cur.next_sibling().map(|_| ()));
        }
        if let Some(mut tree) = c!(o, "Unit::entries_tree", unit.entries_tree(Some(off))) {
            if let Some(root) = c!(o, "EntriesTree::root", tree.root()) {
                let mut ch = root.children();
                let _ = c!(o, "EntriesTreeIter::next", ch.next().map(|_| ()));
            }
        }
        if let Some(mut raw) = c!(o, "Unit::entries_raw", unit.entries_raw(Some(off))) {
            let mut e = read::DebuggingInformationEntry::null();
            let _ = c!(o, "EntriesRaw::read_entry", raw.read_entry(&mut e));
        }
        let _ = vg!(o, "UnitOffset::conversions", (off.to_debug_info_offset(&unit.header), off.to_unit_section_offset(unit), off.is_in_bounds(&unit.header)));
    }
    // (g) unit ranges, collected range and location lists
    if let Some(mut it) = c!(o, "Dwarf::unit_ranges", dwarf.unit_ranges(unit)) {
        pump!(o, "RangeIter", false, rbound + 1, it.next(), |_r| {});
    }
    let uref = unit.unit_ref(dwarf);
    let mut roffs: Vec<RangeListsOffset<usize>> = found.ranges.clone();
    for x in probes(rng, rbound, 1) {
        roffs.push(RangeListsOffset(x));
    }
    for off in roffs {
        if let Some(mut it) = c!(o, "Dwarf::ranges", dwarf.ranges(unit, off)) {
            pump!(o, "RngListIter", false, rbound, it.next(), |_r| {});
        }
        if let Some(mut it) = c!(o, "Dwarf::raw_ranges", dwarf.raw_ranges(unit, off)) {
            pump!(o, "RawRngListIter", false, rbound, it.next(), |_r| {});
        }
        if let Some(mut it) = c!(o, "UnitRef::ranges", uref.ranges(off)) {
            // next_raw + convert_raw by hand
            let mut p = Pump::new("RngListIter::next_raw", false, rbound);
            o.start("RngListIter::next_raw");
            while p.more() {
                let r = it.next_raw();
                p.res(&r);
                if let Ok(Some(raw)) = r {
                    let _ = c!(o, "RngListIter::convert_raw", it.convert_raw(raw));
                    o.start("RngListIter::next_raw");
                }
            }
            o.done(p);
        }
    }
    let mut loffs: Vec<LocationListsOffset<usize>> = found.locs.clone();
    for x in probes(rng, lbound, 1) {
        loffs.push(LocationListsOffset(x));
    }
    for off in loffs {
        if let Some(mut it) = c!(o, "Dwarf::locations", dwarf.locations(unit, off)) {
            pump!(o, "LocListIter", false, lbound, it.next(), |e| {
                if found.exprs.len() < 2 * CAP {
                    found.exprs.push(e.data);
                }
            });
        }
        if let Some(mut it) = c!(o, "Dwarf::raw_locations", dwarf.raw_locations(unit, off)) {
            pump!(o, "RawLocListIter", false, lbound, it.next(), |_e| {});
        }
        if let Some(mut it) = c!(o, "UnitRef::locations", uref.locations(off)) {
            let mut p = Pump::new("LocListIter::next_raw", false, lbound);
            o.start("LocListIter::next_raw");
            while p.more() {
                let r = it.next_raw();
                p.res(&r);
                if let Ok(Some(raw)) = r {
                    let _ = c!(o, "LocListIter::convert_raw", it.convert_raw(raw));
                    o.start("LocListIter::next_raw");
                }
            }
            o.done(p);
        }
    }
    // (h) index-style helpers with extreme indices
    for i in [0usize, 1, 7, usize::MAX, usize::MAX / 8 + 1, rng.boundary64() as usize] {
        let _ = c!(o, "Dwarf::address", dwarf.address(unit, DebugAddrIndex(i)));
        let _ = c!(o, "Dwarf::string_offset", dwarf.string_offset(unit, DebugStrOffsetsIndex(i)));
        let _ = c!(o, "Dwarf::ranges_offset", dwarf.ranges_offset(unit, DebugRngListsIndex(i)));
        let _ = c!(o, "Dwarf::locations_offset", dwarf.locations_offset(unit, DebugLocListsIndex(i)));
        let _ = c!(o, "Dwarf::ranges_offset_from_raw", v_ok(dwarf.ranges_offset_from_raw(unit, gimli::RawRangeListsOffset(i))));
    }
    // (i) the unit's line program
    if let Some(program) = unit.line_program.clone() {
        drive_line_program(o, Some((dwarf, unit)), program, rng);
    }
    // (j) macros referenced by the unit
    {
        use gimli::Section;
        let mb = dwarf.debug_macro.reader().len();
        for off in found.macros.clone() {
            if let Some(it) = c!(o, "Dwarf::macros", dwarf.macros(off)) {
                drive_macros(o, it, mb, Some(uref));
            }
        }
        let mb = dwarf.debug_macinfo.reader().len();
        for off in found.macinfo.clone() {
            if let Some(it) = c!(o, "Dwarf::macinfo", dwarf.macinfo(off)) {
                drive_macros(o, it, mb, Some(uref));
            }
        }
    }
    // (k) every expression found
    let exprs = std::mem::take(&mut found.exprs);
    for (i, e) in exprs.into_iter().enumerate() {
        if o.over() {
            break;
        }
        drive_expr(o, e, unit.encoding(), rng, i < 24);
    }
}

fn v_ok<T>(t: T) -> Result<T, ()> {
    Ok(t)
}

/// `operations()` iteration and an `Evaluation` driven with arbitrary answers.
fn drive_expr<R: Reader<Offset = usize>>(o: &mut Obs, expr: read::Expression<R>, enc: Encoding, rng: &mut Rng, evaluate: bool) {
    let len = expr.0.len();
    {
        let mut ops = expr.clone().operations(enc);
        pump!(o, "OperationIter", false, len, ops.next(), |_op| {
            let _ = ops.offset_from(&expr);
        });
    }
    // Operation::parse in a plain loop, the way a disassembler would
    {
        let mut r = expr.0.clone();
        let mut n = 0;
        while !r.is_empty() && n <= len {
            n += 1;
            if c!(o, "Operation::parse", read::Operation::parse(&mut r, enc)).is_none() {
                break;
            }
        }
    }
    if !evaluate {
        return;
    }
    let mut ev = expr.clone().evaluation(enc);
    ev.set_max_iterations(*rng.pick(&[0u32, 1, 7, 100, 2000]));
    if rng.chance(1, 2) {
        ev.set_initial_value(rng.boundary64());
    }
    if rng.chance(1, 2) {
        ev.set_object_address(rng.boundary64());
    }
    let mut r = c!(o, "Evaluation::evaluate", ev.evaluate());
    let mut steps = 0;
    while let Some(state) = r {
        steps += 1;
        if steps > 64 {
            break;
        }
        use read::EvaluationResult as E;
        let val = |rng: &mut Rng| -> read::Value {
            match rng.below(11) {
                0 => read::Value::Generic(rng.boundary64()),
                1 => read::Value::I8(rng.next() as i8),
                2 => read::Value::U8(rng.next() as u8),
                3 => read::Value::I16(rng.next() as i16),
                4 => read::Value::U16(rng.next() as u16),
                5 => read::Value::I32(rng.boundary64() as i32),
                6 => read::Value::U32(rng.boundary64() as u32),
                7 => read::Value::I64(rng.boundary64() as i64),
                8 => read::Value::U64(rng.boundary64()),
                9 => read::Value::F32(f32::from_bits(rng.boundary64() as u32)),
                _ => read::Value::F64(f64::from_bits(rng.boundary64())),
            }
        };
        r = match state {
            E::Complete => {
                let _ = v!(o, "Evaluation::value_result", ev.value_result());
                let _ = v!(o, "Evaluation::as_result", ev.as_result().len());
                break;
            }
            E::RequiresMemory { .. } => c!(o, "Evaluation::resume_with_memory", ev.resume_with_memory(val(rng))),
            E::RequiresRegister { .. } => c!(o, "Evaluation::resume_with_register", ev.resume_with_register(val(rng))),
            E::RequiresFrameBase => c!(o, "Evaluation::resume_with_frame_base", ev.resume_with_frame_base(rng.boundary64())),
            E::RequiresTls(_) => c!(o, "Evaluation::resume_with_tls", ev.resume_with_tls(rng.boundary64())),
            E::RequiresCallFrameCfa => c!(o, "Evaluation::resume_with_call_frame_cfa", ev.resume_with_call_frame_cfa(rng.boundary64())),
            E::RequiresAtLocation(_) => {
                // answer with a sub-slice of the expression itself, or nothing
                let mut sub = expr.0.clone();
                let k = rng.below(len as u64 + 1) as usize;
                let _ = sub.skip(k);
                if rng.chance(1, 3) {
                    sub.empty();
                }
                c!(o, "Evaluation::resume_with_at_location", ev.resume_with_at_location(sub))
            }
            E::RequiresEntryValue(_) => c!(o, "Evaluation::resume_with_entry_value", ev.resume_with_entry_value(val(rng))),
            E::RequiresParameterRef(_) => c!(o, "Evaluation::resume_with_parameter_ref", ev.resume_with_parameter_ref(rng.boundary64())),
            E::RequiresRelocatedAddress(_) => c!(o, "Evaluation::resume_with_relocated_address", ev.resume_with_relocated_address(rng.boundary64())),
            E::RequiresIndexedAddress { .. } => c!(o, "Evaluation::resume_with_indexed_address", ev.resume_with_indexed_address(rng.boundary64())),
            E::RequiresBaseType(_) => {
                let t = *rng.pick(&[read::ValueType::Generic, read::ValueType::I8, read::ValueType::U8, read::ValueType::I16,
                    read::ValueType::U16, read::ValueType::I32, read::ValueType::U32, read::ValueType::I64, read::ValueType::U64,
                    read::ValueType::F32, read::ValueType::F64]);
                c!(o, "Evaluation::resume_with_base_type", ev.resume_with_base_type(t))
            }
            E::RequiresWasmLocal { .. } | E::RequiresWasmGlobal { .. } | E::RequiresWasmStack { .. } => {
                c!(o, "Evaluation::resume_with_wasm_value", ev.resume_with_wasm_value(val(rng)))
            }
        };
    }
}

fn pick_units<T: Clone>(all: &[T], max: usize, rng: &mut Rng) -> Vec<T> {
    if all.len() <= max {
        return all.to_vec();
    }
    let mut v = vec![all[0].clone()];
    while v.len() < max {
        v.push(all[rng.below(all.len() as u64) as usize].clone());
    }
    v
}

fn drive_dwarf<R: Reader<Offset = usize>>(o: &mut Obs, dwarf: &read::Dwarf<R>, cfg: &Cfg, rng: &mut Rng, gname: [&'static str; 2], lb: (usize, usize)) {
    use gimli::Section;
    let ilen = dwarf.debug_info.reader().len();
    let tlen = dwarf.debug_types.reader().len();
    let mut headers = Vec::new();
    group(o, cfg, gname[0], |o| {
        let mut it = dwarf.units();
        pump!(o, "DebugInfoUnitHeadersIter", false, ilen, it.next(), |h| {
            if headers.len() < 4096 {
                headers.push(h);
            }
        });
        let mut it = dwarf.type_units();
        pump!(o, "DebugTypesUnitHeadersIter", false, tlen, it.next(), |h| {
            if headers.len() < 4096 {
                headers.push(h);
            }
        });
        for off in probes(rng, ilen, 2) {
            let _ = c!(o, "Dwarf::unit_header", dwarf.unit_header(DebugInfoOffset(off)));
        }
        let _ = v!(o, "Dwarf::lookup_offset_id", dwarf.lookup_offset_id(dwarf.debug_info.reader().offset_id()));
        let _ = v!(o, "Dwarf::format_error", dwarf.format_error(gimli::Error::UnexpectedEof(dwarf.debug_info.reader().offset_id())).len());
    });
    let sample = pick_units(&headers, cfg.max_units, &mut Rng::new(cfg.sample ^ 0x77));
    for h in sample {
        let mut urng = Rng::new(rng.next());
        group(o, cfg, gname[1], |o| {
            if let Some(unit) = c!(o, "Dwarf::unit", dwarf.unit(h.clone())) {
                drive_unit(o, dwarf, &unit, cfg, &mut urng, lb);
            }
        });
    }
}
