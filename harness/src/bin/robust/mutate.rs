// ---------------------------------------------------------------------------
// Base sections and seeded mutations.
// ---------------------------------------------------------------------------
const SELF_SECTIONS: [&str; 11] = [
    "debug_abbrev", "debug_info", "debug_line", "debug_str", "debug_ranges", "debug_loc",
    "debug_aranges", "debug_pubnames", "debug_pubtypes", "eh_frame", "eh_frame_hdr",
];

thread_local! {
    static BASE_CACHE: RefCell<BTreeMap<String, Option<(Secs, [u64; 3])>>> = RefCell::new(BTreeMap::new());
}

fn read_dir_sections(dir: &str, names: Option<&[&str]>) -> Option<(Secs, [u64; 3])> {
    let mut secs = Secs::new();
    let mut addrs = [0u64; 3];
    let rd = std::fs::read_dir(dir).ok()?;
    for e in rd.flatten() {
        let name = e.file_name().to_string_lossy().to_string();
        if name == "bases.txt" {
            if let Ok(t) = std::fs::read_to_string(e.path()) {
                for line in t.lines() {
                    let mut it = line.split_whitespace();
                    if let (Some(s), Some(a)) = (it.next(), it.next()) {
                        let a = u64::from_str_radix(a, 16).unwrap_or(0);
                        match s {
                            ".eh_frame_hdr" => addrs[0] = a,
                            ".eh_frame" => addrs[1] = a,
                            ".text" => addrs[2] = a,
                            _ => {}
                        }
                    }
                }
            }
            continue;
        }
        if let Some(ns) = names {
            if !ns.contains(&name.as_str()) {
                continue;
            }
        }
        if let Ok(b) = std::fs::read(e.path()) {
            secs.insert(name, b);
        }
    }
    Some((secs, addrs))
}

/// `None` if the base does not exist (a missing corpus directory is skipped silently).
fn load_base(case: &J) -> Option<(Secs, [u64; 3])> {
    let base = case["base"].as_str().unwrap_or("raw");
    if base == "raw" {
        let mut secs = Secs::new();
        if let Some(m) = case["sections"].as_object() {
            for (k, v) in m {
                secs.insert(k.clone(), bytes_of(v));
            }
        }
        return Some((secs, [0; 3]));
    }
    if base == "gen" {
        let gseed = case["gseed"].as_u64().unwrap_or_else(|| case["seed"].as_u64().unwrap_or(1));
        let be = case["endian"].as_str() == Some("be");
        let key = format!("gen:{}:{}", gseed, be);
        return BASE_CACHE.with(|c| {
            let mut c = c.borrow_mut();
            if c.len() > 64 {
                c.clear();
            }
            c.entry(key).or_insert_with(|| Some((gen_sections(gseed, be), [0x2000, 0x3000, 0x1000]))).clone()
        });
    }
    let key = base.to_string();
    BASE_CACHE.with(|c| {
        c.borrow_mut()
            .entry(key)
            .or_insert_with(|| {
                if base == "self" {
                    let root = std::env::var("GVH_SELF_DIR").unwrap_or_else(|_| "/repo/fixtures/self".to_string());
                    read_dir_sections(&root, Some(&SELF_SECTIONS))
                } else if let Some(v) = base.strip_prefix("corpus:") {
                    let root = std::env::var("GVH_CORPUS_DIR").unwrap_or_else(|_| "/verif/corpus".to_string());
                    read_dir_sections(&format!("{}/{}", root, v), None)
                } else {
                    None
                }
            })
            .clone()
    })
}

const EXTREMES: [u64; 26] = [
    0, 1, 2, 0x7f, 0x80, 0xff, 0x100, 0xfffe, 0xffff, 0x1_0000, 0x1_0001, 0x7fff_fffe, 0x7fff_ffff,
    0x8000_0000, 0x8000_0001, 0xffff_ffff, 0x1_0000_0000, 0x2000_0000_0000_0000, 0x7fff_ffff_ffff_fffe,
    0x7fff_ffff_ffff_ffff, 0x8000_0000_0000_0000, 0x8000_0000_0000_0001, 0xffff_ffff_ffff_fffe,
    0xffff_ffff_ffff_ffff, 0xffff_fff0, 0xffff_ffef,
];

fn uleb(mut v: u64, pad_to: usize) -> Vec<u8> {
    let mut out = Vec::new();
    loop {
        let b = (v & 0x7f) as u8;
        v >>= 7;
        if v == 0 && out.len() + 1 >= pad_to {
            out.push(b);
            break;
        }
        out.push(b | 0x80);
    }
    out
}

fn sleb(mut v: i64) -> Vec<u8> {
    let mut out = Vec::new();
    loop {
        let b = (v & 0x7f) as u8;
        v >>= 7;
        let done = (v == 0 && b & 0x40 == 0) || (v == -1 && b & 0x40 != 0);
        if done {
            out.push(b);
            break;
        }
        out.push(b | 0x80);
    }
    out
}

fn pick_section(rng: &mut Rng, secs: &Secs, m: &J, key: &str) -> Option<String> {
    if let Some(s) = m[key].as_str() {
        return Some(s.to_string());
    }
    let names: Vec<&String> = secs.iter().filter(|(_, v)| !v.is_empty()).map(|(k, _)| k).collect();
    if names.is_empty() {
        None
    } else {
        Some((*rng.pick(&names)).clone())
    }
}

/// (offset, width, is_single_byte_read) of fields the parsers actually read.
type Fields = BTreeMap<String, Vec<(usize, usize)>>;

fn apply_mutations(case: &J, secs: &mut Secs, rng: &mut Rng, fields: &dyn Fn() -> Rc<Fields>, big_endian: bool) -> Vec<J> {
    let mut applied = Vec::new();
    let empty = Vec::new();
    for m in case["mut"].as_array().unwrap_or(&empty) {
        let k = m["k"].as_str().unwrap_or("");
        match k {
            "trunc" => {
                if let Some(s) = pick_section(rng, secs, m, "sec") {
                    if let Some(v) = secs.get_mut(&s) {
                        let at = m["at"].as_u64().map(|x| x as usize).unwrap_or_else(|| rng.below(v.len() as u64 + 1) as usize);
                        v.truncate(at.min(v.len()));
                        applied.push(json!({"k": k, "sec": s, "at": at}));
                    }
                }
            }
            "flip" => {
                let n = m["n"].as_u64().unwrap_or(1);
                for _ in 0..n {
                    if let Some(s) = pick_section(rng, secs, m, "sec") {
                        if let Some(v) = secs.get_mut(&s) {
                            if v.is_empty() {
                                continue;
                            }
                            let at = m["at"].as_u64().map(|x| x as usize % v.len()).unwrap_or_else(|| rng.below(v.len() as u64) as usize);
                            let val = m["val"].as_u64().map(|x| x as u8).unwrap_or_else(|| match rng.below(4) {
                                0 => v[at] ^ (1 << rng.below(8)),
                                1 => *rng.pick(&[0u8, 1, 0x7f, 0x80, 0xff]),
                                2 => v[at].wrapping_add(1),
                                _ => rng.next() as u8,
                            });
                            v[at] = val;
                            applied.push(json!({"k": k, "sec": s, "at": at, "val": val}));
                        }
                    }
                }
            }
            "splice" => {
                let from = pick_section(rng, secs, m, "from");
                let to = pick_section(rng, secs, m, "to");
                if let (Some(from), Some(to)) = (from, to) {
                    let src = secs.get(&from).cloned().unwrap_or_default();
                    if src.is_empty() {
                        continue;
                    }
                    let a = rng.below(src.len() as u64) as usize;
                    let l = 1 + rng.below((src.len() - a).min(64) as u64) as usize;
                    let piece = src[a..(a + l).min(src.len())].to_vec();
                    if let Some(v) = secs.get_mut(&to) {
                        let at = rng.below(v.len() as u64 + 1) as usize;
                        let insert = rng.chance(1, 2);
                        if insert {
                            let tail = v.split_off(at);
                            v.extend_from_slice(&piece);
                            v.extend_from_slice(&tail);
                        } else {
                            for (i, b) in piece.iter().enumerate() {
                                if at + i < v.len() {
                                    v[at + i] = *b;
                                }
                            }
                        }
                        applied.push(json!({"k": k, "from": from, "a": a, "len": piece.len(), "to": to, "at": at, "insert": insert}));
                    }
                }
            }
            "fill" => {
                if let Some(s) = pick_section(rng, secs, m, "sec") {
                    if let Some(v) = secs.get_mut(&s) {
                        if v.is_empty() {
                            continue;
                        }
                        let val = m["val"].as_u64().unwrap_or_else(|| *rng.pick(&[0u64, 0xff])) as u8;
                        let at = m["at"].as_u64().map(|x| x as usize).unwrap_or_else(|| rng.below(v.len() as u64) as usize).min(v.len());
                        let len = m["len"].as_u64().map(|x| x as usize).unwrap_or_else(|| 1 + rng.below(((v.len() - at) as u64).min(256).max(1)) as usize);
                        let end = (at + len).min(v.len());
                        for b in &mut v[at..end] {
                            *b = val;
                        }
                        applied.push(json!({"k": k, "sec": s, "at": at, "len": end - at, "val": val}));
                    }
                }
            }
            "repeat" => {
                // append (or insert at `at`) `n` copies of `bytes`
                if let Some(s) = m["sec"].as_str() {
                    let pat = bytes_of(&m["bytes"]);
                    let n = m["n"].as_u64().unwrap_or(1) as usize;
                    let v = secs.entry(s.to_string()).or_default();
                    let at = m["at"].as_u64().map(|x| (x as usize).min(v.len())).unwrap_or(v.len());
                    let tail = v.split_off(at);
                    for _ in 0..n {
                        v.extend_from_slice(&pat);
                    }
                    v.extend_from_slice(&tail);
                    applied.push(json!({"k": k, "sec": s, "n": n}));
                }
            }
            "set" => {
                // overwrite bytes at a fixed position (used by minimal reproductions)
                if let Some(s) = m["sec"].as_str() {
                    let pat = bytes_of(&m["bytes"]);
                    let at = m["at"].as_u64().unwrap_or(0) as usize;
                    let v = secs.entry(s.to_string()).or_default();
                    if m["insert"].as_bool() == Some(true) {
                        let at = at.min(v.len());
                        let tail = v.split_off(at);
                        v.extend_from_slice(&pat);
                        v.extend_from_slice(&tail);
                    } else {
                        if v.len() < at + pat.len() {
                            v.resize(at + pat.len(), 0);
                        }
                        v[at..at + pat.len()].copy_from_slice(&pat);
                    }
                    applied.push(json!({"k": k, "sec": s, "at": at, "bytes": pat}));
                }
            }
            "extreme" => {
                // Overwrite a field the parsers really read (from a traced clean run) -
                // or a random position - with an extreme value of the same width.
                let fm = fields();
                let cands: Vec<&String> = fm.iter().filter(|(s, f)| !f.is_empty() && secs.get(*s).map(|v| !v.is_empty()).unwrap_or(false)).map(|(s, _)| s).collect();
                let (s, at, width) = if let Some(sname) = m["sec"].as_str().map(|x| x.to_string()).or_else(|| if cands.is_empty() || rng.chance(1, 8) { None } else { Some((*rng.pick(&cands)).clone()) }) {
                    match fm.get(&sname).filter(|f| !f.is_empty()) {
                        Some(f) if m["at"].is_null() => {
                            let (off, w) = *rng.pick(f);
                            (sname, off, w)
                        }
                        _ => {
                            let len = secs.get(&sname).map(|v| v.len()).unwrap_or(0);
                            if len == 0 {
                                continue;
                            }
                            let at = m["at"].as_u64().map(|x| x as usize).unwrap_or_else(|| rng.below(len as u64) as usize);
                            (sname, at, m["width"].as_u64().unwrap_or_else(|| *rng.pick(&[1u64, 1, 2, 4, 8])) as usize)
                        }
                    }
                } else {
                    match pick_section(rng, secs, m, "sec") {
                        Some(sname) => {
                            let len = secs[&sname].len();
                            (sname, rng.below(len as u64) as usize, *rng.pick(&[1usize, 1, 2, 4, 8]))
                        }
                        None => continue,
                    }
                };
                let v = match secs.get_mut(&s) {
                    Some(v) if at < v.len() => v,
                    _ => continue,
                };
                let rem = (v.len() - at) as u64;
                let mut val = match m["val"].as_u64() {
                    Some(i) => EXTREMES[i as usize % EXTREMES.len()],
                    None => match rng.below(8) {
                        0 => rem,
                        1 => rem.wrapping_add(1),
                        2 => rem.wrapping_sub(1 + rng.below(12)),
                        3 => (v.len() as u64).wrapping_add(rng.below(3)).wrapping_sub(1),
                        _ => *rng.pick(&EXTREMES),
                    },
                };
                let as_leb = m["leb"].as_bool().unwrap_or_else(|| width == 1 && rng.chance(2, 3));
                if as_leb {
                    // replace the LEB128 run starting at `at`
                    let mut l = 0;
                    while at + l < v.len() && v[at + l] & 0x80 != 0 && l < 10 {
                        l += 1;
                    }
                    l += 1;
                    let enc = if rng.chance(1, 4) { sleb(val as i64) } else { uleb(val, if rng.chance(1, 2) { l } else { 0 }) };
                    let end = (at + l).min(v.len());
                    let tail = v.split_off(end);
                    v.truncate(at);
                    v.extend_from_slice(&enc);
                    v.extend_from_slice(&tail);
                    applied.push(json!({"k": k, "sec": s, "at": at, "leb": enc, "replaced": l}));
                } else {
                    let w = width.min(8).max(1).min(v.len() - at);
                    if w < 8 {
                        // keep the interesting high bits too: all-ones / sign patterns at this width
                        if val > (1u64 << (8 * w)) - 1 && rng.chance(1, 2) {
                            val = match rng.below(3) {
                                0 => (1u64 << (8 * w)) - 1,
                                1 => 1u64 << (8 * w - 1),
                                _ => (1u64 << (8 * w - 1)) - 1,
                            };
                        }
                    }
                    let le = val.to_le_bytes();
                    for i in 0..w {
                        v[at + i] = if big_endian { le[w - 1 - i] } else { le[i] };
                    }
                    applied.push(json!({"k": k, "sec": s, "at": at, "width": w, "val": bv(val, 8)}));
                }
            }
            _ => {}
        }
    }
    applied
}
