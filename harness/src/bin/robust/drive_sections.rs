// ---------------------------------------------------------------------------
// Section-level readers and lookups that do not need a unit.
// ---------------------------------------------------------------------------
fn drive_name_index<R: Reader<Offset = usize>>(o: &mut Obs, names: &read::NameIndex<R>, debug_str: &read::DebugStr<R>, seclen: usize, rng: &mut Rng) {
    let ncu = v!(o, "NameIndex::compile_unit_count", names.compile_unit_count());
    let nl = v!(o, "NameIndex::local_type_unit_count", names.local_type_unit_count());
    let nf = v!(o, "NameIndex::foreign_type_unit_count", names.foreign_type_unit_count());
    let nt = v!(o, "NameIndex::type_unit_count", names.type_unit_count());
    let nb = v!(o, "NameIndex::bucket_count", names.bucket_count());
    let nn = v!(o, "NameIndex::name_count", names.name_count());
    let _ = v!(o, "NameIndex::has_hash_table", names.has_hash_table());
    let idx = |n: u32, rng: &mut Rng| -> Vec<u32> {
        vec![0, 1, n.saturating_sub(1), n, n.wrapping_add(1), u32::MAX, u32::MAX / 2 + 1, rng.below(n as u64 + 1) as u32]
    };
    for i in idx(ncu, rng) {
        let _ = c!(o, "NameIndex::compile_unit", names.compile_unit(i));
    }
    let _ = c!(o, "NameIndex::default_compile_unit", names.default_compile_unit());
    for i in idx(nl, rng) {
        let _ = c!(o, "NameIndex::local_type_unit", names.local_type_unit(i));
    }
    for i in idx(nf, rng) {
        let _ = c!(o, "NameIndex::foreign_type_unit", names.foreign_type_unit(i));
    }
    for i in idx(nt, rng) {
        let _ = c!(o, "NameIndex::type_unit", names.type_unit(i));
    }
    let _ = v!(o, "NameIndex::abbreviations", names.abbreviations().abbreviations().iter().map(|a| (a.code(), a.tag(), a.attributes().len())).count());
    for code in [0u64, 1, 2, u64::MAX] {
        let _ = v!(o, "NameAbbreviations::get", names.abbreviations().get(code).is_some());
    }
    // names(): a plain Iterator; some = an index, none = end
    let mut hashes: Vec<u32> = vec![0, 1, u32::MAX, rng.next() as u32];
    let mut entry_offsets: Vec<usize> = Vec::new();
    {
        let mut it = names.names();
        let mut p = Pump::new("NameTableIter", false, seclen);
        o.start("NameTableIter");
        let mut k = 0usize;
        while p.more() {
            let r = it.next();
            p.rec(if r.is_some() { SOME } else { NONE });
            if let Some(i) = r {
                k += 1;
                if k > 64 && k % 17 != 0 {
                    continue;
                }
                let _ = c!(o, "NameIndex::name_string_offset", names.name_string_offset(i));
                let _ = c!(o, "NameIndex::name_string", names.name_string(i, debug_str));
                if let Some(mut es) = c!(o, "NameIndex::name_entries", names.name_entries(i)) {
                    pump!(o, "NameEntryIter", false, seclen, es.next(), |e| {
                        if entry_offsets.len() < 16 {
                            entry_offsets.push(e.offset.0);
                        }
                        let _ = c!(o, "NameEntry::compile_unit", e.compile_unit(names));
                        let _ = c!(o, "NameEntry::type_unit", e.type_unit(names));
                        let _ = c!(o, "NameEntry::die_offset", e.die_offset());
                        let _ = c!(o, "NameEntry::parent", e.parent());
                        let _ = c!(o, "NameEntry::type_hash", e.type_hash());
                        for a in e.attrs.iter() {
                            let _ = v!(o, "NameAttribute::accessors", (a.name(), a.form()));
                            let _ = c!(o, "NameAttribute::compile_unit", a.compile_unit(names));
                            let _ = c!(o, "NameAttribute::type_unit", a.type_unit(names));
                            let _ = c!(o, "NameAttribute::die_offset", a.die_offset());
                            let _ = c!(o, "NameAttribute::parent", a.parent());
                            let _ = c!(o, "NameAttribute::type_hash", a.type_hash());
                        }
                        o.start("NameEntryIter");
                    });
                }
                o.start("NameTableIter");
            }
        }
        o.done(p);
    }
    for i in [nn, nn.wrapping_add(1), u32::MAX, u32::MAX / 4 + 1] {
        let i = read::NameTableIndex(i);
        let _ = c!(o, "NameIndex::name_string_offset", names.name_string_offset(i));
        let _ = c!(o, "NameIndex::name_string", names.name_string(i, debug_str));
        let _ = c!(o, "NameIndex::name_entries", names.name_entries(i).map(|_| ()));
    }
    for b in idx(nb, rng).into_iter().chain(0..nb.min(8)) {
        if let Some(Some(mut it)) = c!(o, "NameIndex::find_by_bucket", names.find_by_bucket(b)) {
            pump!(o, "NameBucketIter", false, seclen, it.next(), |x| {
                if hashes.len() < 24 {
                    hashes.push(x.1);
                }
            });
        }
    }
    for h in hashes {
        if let Some(mut it) = c!(o, "NameIndex::find_by_hash", names.find_by_hash(h)) {
            pump!(o, "NameHashIter", false, seclen, it.next(), |_x| {});
        }
    }
    let mut offs = probes(rng, seclen, 2);
    offs.extend(entry_offsets.iter().cloned());
    for off in offs {
        let _ = c!(o, "NameIndex::name_entry", names.name_entry(read::NameEntryOffset(off)));
    }
}

fn drive_unit_index<R: Reader<Offset = usize>>(o: &mut Obs, r: gimli::Result<read::UnitIndex<R>>, rng: &mut Rng) {
    if let Some(ix) = c!(o, "UnitIndex::parse", r) {
        let _ = v!(o, "UnitIndex::accessors", (ix.version(), ix.section_count(), ix.slot_count()));
        let n = v!(o, "UnitIndex::unit_count", ix.unit_count());
        for id in [0u64, 1, u64::MAX, u64::MAX / 2 + 1, rng.next(), rng.boundary64(), rng.below(64)] {
            let _ = v!(o, "UnitIndex::find", ix.find(id));
        }
        for row in [0u32, 1, 2, n, n.wrapping_add(1), u32::MAX, u32::MAX / 2 + 1, rng.below(n as u64 + 2) as u32] {
            if let Some(mut it) = c!(o, "UnitIndex::sections", ix.sections(row)) {
                let mut p = Pump::new("UnitIndexSectionIterator", false, 16);
                o.start("UnitIndexSectionIterator");
                while p.more() {
                    let r = it.next();
                    p.rec(if r.is_some() { SOME } else { NONE });
                    if let Some(s) = r {
                        let _ = (s.section.section_id(), s.section.dwo_name(), s.offset, s.size);
                    }
                }
                o.done(p);
            }
        }
    }
}

fn drive_sections<S: Src>(o: &mut Obs, src: &S, dwarf: &read::Dwarf<S::R>, cfg: &Cfg, rng: &mut Rng) {
    let encs = encodings();
    group(o, cfg, "abbrev", |o| {
        let len = dwarf.debug_abbrev.reader().len();
        for off in probes(rng, len, 3) {
            if let Some(a) = c!(o, "DebugAbbrev::abbreviations", dwarf.debug_abbrev.abbreviations(DebugAbbrevOffset(off))) {
                for code in [0u64, 1, 2, 3, u64::MAX, rng.below(300)] {
                    if let Some(ab) = v!(o, "Abbreviations::get", a.get(code)) {
                        let _ = (ab.code(), ab.tag(), ab.has_children());
                        for s in ab.attributes() {
                            let _ = (s.name(), s.form(), s.implicit_const_value());
                        }
                    }
                }
            }
        }
    });
    group(o, cfg, "aranges", |o| {
        let len = dwarf.debug_aranges.reader().len();
        let mut hs = dwarf.debug_aranges.headers();
        let mut n = 0;
        pump!(o, "ArangeHeaderIter", false, len, hs.next(), |h| {
            n += 1;
            let _ = v!(o, "ArangeHeader::accessors", (h.offset(), h.length(), h.encoding(), h.debug_info_offset()));
            if n <= 64 {
                let mut es = h.entries();
                pump!(o, "ArangeEntryIter", true, len, es.next(), |e| {
                    let _ = (e.address(), e.length(), e.range());
                });
                let mut es = h.entries();
                let mut p = Pump::new("ArangeEntryIter::next_raw", false, len);
                o.start("ArangeEntryIter::next_raw");
                while p.more() {
                    let r = es.next_raw();
                    p.res(&r);
                    if let Ok(Some(raw)) = r {
                        let _ = c!(o, "ArangeEntryIter::convert_raw", es.convert_raw(raw));
                        o.start("ArangeEntryIter::next_raw");
                    }
                }
                o.done(p);
            }
            o.start("ArangeHeaderIter");
        });
        for off in probes(rng, len, 2) {
            let _ = c!(o, "DebugAranges::header", dwarf.debug_aranges.header(gimli::DebugArangesOffset(off)));
        }
    });
    group(o, cfg, "pubnames", |o| {
        let r = src.get("debug_pubnames");
        let len = r.len();
        let s = read::DebugPubNames::from(r);
        let mut it = s.items();
        pump!(o, "PubNamesEntryIter", true, len, it.next(), |e| {
            let _ = (e.name().len(), e.unit_header_offset(), e.die_offset());
        });
        let r = src.get("debug_pubtypes");
        let len = r.len();
        let s = read::DebugPubTypes::from(r);
        let mut it = s.items();
        pump!(o, "PubTypesEntryIter", true, len, it.next(), |e| {
            let _ = (e.name().len(), e.unit_header_offset(), e.die_offset());
        });
    });
    group(o, cfg, "names", |o| {
        let len = dwarf.debug_names.reader().len();
        let mut hs = dwarf.debug_names.headers();
        let mut n = 0;
        pump!(o, "NameIndexHeaderIter", false, len, hs.next(), |h| {
            n += 1;
            let _ = v!(o, "NameIndexHeader::accessors", (h.offset(), h.length(), h.format(), h.version(), h.compile_unit_count(),
                h.local_type_unit_count(), h.foreign_type_unit_count(), h.bucket_count(), h.name_count(), h.abbrev_table_size(),
                h.augmentation_string().map(|s| s.len())));
            if n <= 4 {
                if let Some(ix) = c!(o, "NameIndexHeader::index", h.index()) {
                    drive_name_index(o, &ix, &dwarf.debug_str, len, rng);
                }
            }
            o.start("NameIndexHeaderIter");
        });
    });
    group(o, cfg, "strings", |o| {
        let sl = dwarf.debug_str.reader().len();
        for off in probes(rng, sl, 3) {
            let _ = c!(o, "DebugStr::get_str", dwarf.debug_str.get_str(DebugStrOffset(off)));
            let _ = c!(o, "Dwarf::string", dwarf.string(DebugStrOffset(off)));
            let _ = c!(o, "Dwarf::sup_string", dwarf.sup_string(DebugStrOffset(off)));
        }
        let ll = dwarf.debug_line_str.reader().len();
        for off in probes(rng, ll, 3) {
            let _ = c!(o, "DebugLineStr::get_str", dwarf.debug_line_str.get_str(DebugLineStrOffset(off)));
            let _ = c!(o, "Dwarf::line_string", dwarf.line_string(DebugLineStrOffset(off)));
        }
        let ol = dwarf.debug_str_offsets.reader().len();
        let al = dwarf.debug_addr.reader().len();
        for k in 0..10 {
            let fmt = if k % 2 == 0 { Format::Dwarf32 } else { Format::Dwarf64 };
            let rnd_base = rng.below(ol as u64 + 1) as usize;
            let base = *rng.pick(&[0usize, 8, 16, ol, usize::MAX, rnd_base]);
            let rnd_idx = rng.boundary64() as usize;
            let idx = *rng.pick(&[0usize, 1, 2, ol / 4, usize::MAX, usize::MAX / 4 + 1, usize::MAX / 8 + 1, rnd_idx]);
            let _ = c!(o, "DebugStrOffsets::get_str_offset", dwarf.debug_str_offsets.get_str_offset(fmt, DebugStrOffsetsBase(base), DebugStrOffsetsIndex(idx)));
            let asz = *rng.pick(&[1u8, 2, 4, 8]);
            let rnd_base = rng.below(al as u64 + 1) as usize;
            let base = *rng.pick(&[0usize, 8, al, usize::MAX, rnd_base]);
            let _ = c!(o, "DebugAddr::get_address", dwarf.debug_addr.get_address(asz, DebugAddrBase(base), DebugAddrIndex(idx)));
        }
        let _ = v!(o, "DebugStrOffsetsBase::default_for_encoding_and_file", encs.iter().map(|e| DebugStrOffsetsBase::<usize>::default_for_encoding_and_file(*e, DwarfFileType::Dwo)).count());
        let mut hs = dwarf.debug_addr.headers();
        let mut n = 0;
        pump!(o, "AddrHeaderIter", false, al, hs.next(), |h| {
            n += 1;
            let _ = v!(o, "AddrHeader::accessors", (h.offset(), h.length(), h.encoding()));
            if n <= 16 {
                let mut es = h.entries();
                pump!(o, "AddrEntryIter", true, al, es.next(), |_a| {});
            }
            o.start("AddrHeaderIter");
        });
    });
    group(o, cfg, "lists", |o| {
        let rl = src.get("debug_ranges").len().max(src.get("debug_rnglists").len());
        let ll = src.get("debug_loc").len().max(src.get("debug_loclists").len());
        for k in 0..6 {
            let enc = encs[(k + rng.below(encs.len() as u64) as usize) % encs.len()];
            let base = rng.boundary64();
            let ab = DebugAddrBase(*rng.pick(&[0usize, 8, usize::MAX]));
            for off in [0usize, rng.below(rl as u64 + 1) as usize, rl, usize::MAX] {
                let off = RangeListsOffset(off);
                if let Some(mut it) = c!(o, "RangeLists::raw_ranges", dwarf.ranges.raw_ranges(off, enc)) {
                    pump!(o, "RawRngListIter", false, rl, it.next(), |_r| {});
                }
                if let Some(mut it) = c!(o, "RangeLists::ranges", dwarf.ranges.ranges(off, enc, base, &dwarf.debug_addr, ab)) {
                    pump!(o, "RngListIter", false, rl, it.next(), |_r| {});
                }
            }
            for off in [0usize, rng.below(ll as u64 + 1) as usize, ll, usize::MAX] {
                let off = LocationListsOffset(off);
                if let Some(mut it) = c!(o, "LocationLists::raw_locations", dwarf.locations.raw_locations(off, enc)) {
                    pump!(o, "RawLocListIter", false, ll, it.next(), |_r| {});
                }
                if let Some(mut it) = c!(o, "LocationLists::raw_locations_dwo", dwarf.locations.raw_locations_dwo(off, enc)) {
                    pump!(o, "RawLocListIter", false, ll, it.next(), |_r| {});
                }
                if let Some(mut it) = c!(o, "LocationLists::locations", dwarf.locations.locations(off, enc, base, &dwarf.debug_addr, ab)) {
                    pump!(o, "LocListIter", false, ll, it.next(), |_r| {});
                }
                if let Some(mut it) = c!(o, "LocationLists::locations_dwo", dwarf.locations.locations_dwo(off, enc, base, &dwarf.debug_addr, ab)) {
                    pump!(o, "LocListIter", false, ll, it.next(), |_r| {});
                }
            }
            let rnd_b = rng.below(rl as u64 + 1) as usize;
            let b = *rng.pick(&[0usize, 12, rl, usize::MAX, rnd_b]);
            let rnd_i = rng.boundary64() as usize;
            let i = *rng.pick(&[0usize, 1, usize::MAX, usize::MAX / 4 + 1, usize::MAX / 8 + 1, rnd_i]);
            let _ = c!(o, "RangeLists::get_offset", dwarf.ranges.get_offset(enc, DebugRngListsBase(b), DebugRngListsIndex(i)));
            let _ = c!(o, "LocationLists::get_offset", dwarf.locations.get_offset(enc, DebugLocListsBase(b), DebugLocListsIndex(i)));
            let _ = v!(o, "ListsBase::default_for_encoding_and_file", (DebugRngListsBase::<usize>::default_for_encoding_and_file(enc, DwarfFileType::Dwo),
                DebugLocListsBase::<usize>::default_for_encoding_and_file(enc, DwarfFileType::Dwo)));
        }
    });
    group(o, cfg, "lines", |o| {
        let len = dwarf.debug_line.reader().len();
        let mut off = 0usize;
        let mut n = 0;
        // consecutive programs from offset 0, then random offsets
        while off < len && n < 3 && !o.over() {
            n += 1;
            let asz = *rng.pick(&[8u8, 4, 8, 1, 2]);
            match c!(o, "DebugLine::program", dwarf.debug_line.program(DebugLineOffset(off), asz, None, None)) {
                Some(p) => {
                    let h = p.header();
                    let adv = h.unit_length() + if h.format() == Format::Dwarf64 { 12 } else { 4 };
                    drive_line_program::<S::R>(o, None, p, rng);
                    off = off.saturating_add(adv.max(1));
                }
                None => break,
            }
        }
        for off in probes(rng, len, 2) {
            if o.over() {
                break;
            }
            let name = src.get("debug_str");
            if let Some(p) = c!(o, "DebugLine::program", dwarf.debug_line.program(DebugLineOffset(off), *rng.pick(&[8u8, 4, 2, 1]), Some(name.clone()), Some(name))) {
                drive_line_program::<S::R>(o, None, p, rng);
            }
        }
    });
    group(o, cfg, "macros", |o| {
        let ml = dwarf.debug_macro.reader().len();
        for off in probes(rng, ml, 2) {
            if let Some(it) = c!(o, "DebugMacro::get_macros", dwarf.debug_macro.get_macros(DebugMacroOffset(off))) {
                drive_macros(o, it, ml, None);
            }
        }
        let il = dwarf.debug_macinfo.reader().len();
        for off in probes(rng, il, 2) {
            if let Some(it) = c!(o, "DebugMacinfo::get_macinfo", dwarf.debug_macinfo.get_macinfo(DebugMacinfoOffset(off))) {
                drive_macros(o, it, il, None);
            }
        }
    });
    group(o, cfg, "index", |o| {
        drive_unit_index(o, read::DebugCuIndex::from(src.get("debug_cu_index")).index(), rng);
        drive_unit_index(o, read::DebugTuIndex::from(src.get("debug_tu_index")).index(), rng);
    });
    // split DWARF: the .dwo sections as a Dwarf of their own, and the package
    let has_dwo = src.has("debug_info.dwo") || src.has("debug_abbrev.dwo");
    if has_dwo {
        let dwo = load_dwarf(src, true);
        let lb = (
            src.get("debug_rnglists.dwo").len(),
            src.get("debug_loc.dwo").len().max(src.get("debug_loclists.dwo").len()),
        );
        let mut dwo2 = load_dwarf(src, true);
        group(o, cfg, "dwo", |o| {
            let _ = v!(o, "Dwarf::make_dwo", dwo2.make_dwo(dwarf));
            let _ = v!(o, "Dwarf::populate_abbreviations_cache", dwo2.populate_abbreviations_cache(read::AbbreviationsCacheStrategy::All));
        });
        drive_dwarf(o, &dwo, cfg, rng, ["dwo_units", "dwo_unit"], lb);
        drive_dwarf(o, &dwo2, cfg, rng, ["dwo_units", "dwo_unit"], lb);
    }
    if has_dwo || src.has("debug_cu_index") || src.has("debug_tu_index") {
        let mut found: Vec<read::Dwarf<S::R>> = Vec::new();
        group(o, cfg, "dwp", |o| {
            let r: Result<read::DwarfPackage<S::R>, gimli::Error> = read::DwarfPackage::load(
                |id: SectionId| Ok(match id.dwo_name() {
                    Some(n) => src.get(strip(n)),
                    None => src.get(strip(id.name())),
                }),
                src.get(""),
            );
            if let Some(dwp) = c!(o, "DwarfPackage::load", r) {
                let mut ids: Vec<u64> = vec![0, 1, u64::MAX, rng.next()];
                // ids of the units in the package's .debug_info.dwo
                let mut it = dwp.debug_info.units();
                let il = dwp.debug_info.reader().len();
                pump!(o, "DebugInfoUnitHeadersIter", false, il, it.next(), |h| {
                    match h.type_() {
                        read::UnitType::Skeleton(id) | read::UnitType::SplitCompilation(id) => ids.push(id.0),
                        read::UnitType::Type { type_signature, .. } | read::UnitType::SplitType { type_signature, .. } => ids.push(type_signature.0),
                        _ => {}
                    }
                });
                let mut it = dwp.debug_types.units();
                let tl = dwp.debug_types.reader().len();
                pump!(o, "DebugTypesUnitHeadersIter", false, tl, it.next(), |h| {
                    if let read::UnitType::Type { type_signature, .. } = h.type_() {
                        ids.push(type_signature.0);
                    }
                });
                ids.truncate(24);
                for id in ids {
                    if let Some(Some(d)) = c!(o, "DwarfPackage::find_cu", dwp.find_cu(DwoId(id), dwarf)) {
                        if found.len() < 3 {
                            found.push(d);
                        }
                    }
                    if let Some(Some(d)) = c!(o, "DwarfPackage::find_tu", dwp.find_tu(DebugTypeSignature(id), dwarf)) {
                        if found.len() < 3 {
                            found.push(d);
                        }
                    }
                }
                let n = dwp.cu_index.unit_count().max(dwp.tu_index.unit_count());
                for i in [0u32, 1, 2, n, n.wrapping_add(1), u32::MAX] {
                    if let Some(d) = c!(o, "DwarfPackage::cu_sections", dwp.cu_sections(i, dwarf)) {
                        if found.len() < 5 {
                            found.push(d);
                        }
                    }
                    let _ = c!(o, "DwarfPackage::tu_sections", dwp.tu_sections(i, dwarf).map(|_| ()));
                }
            }
        });
        let lb = (
            src.get("debug_rnglists.dwo").len(),
            src.get("debug_loc.dwo").len().max(src.get("debug_loclists.dwo").len()),
        );
        for d in found {
            drive_dwarf(o, &d, cfg, rng, ["dwp_units", "dwp_unit"], lb);
        }
    }
    // instruction / operation / LEB decoders on sections named "expr" and "leb"
    group(o, cfg, "decoders", |o| {
        if src.has("expr") {
            for enc in encs.iter().take(4) {
                drive_expr(o, read::Expression(src.get("expr")), *enc, rng, true);
            }
        }
        if src.has("leb") || cfg.only.is_some() {
            let r0 = src.get("leb");
            let mut r = r0.clone();
            let _ = c!(o, "Reader::read_uleb128", r.read_uleb128());
            let mut r = r0.clone();
            let _ = c!(o, "Reader::read_sleb128", r.read_sleb128());
            let mut r = r0.clone();
            let _ = c!(o, "Reader::read_uleb128_u16", r.read_uleb128_u16());
            let mut r = r0.clone();
            let _ = c!(o, "Reader::read_uleb128_u32", r.read_uleb128_u32());
            let mut r = r0.clone();
            let _ = c!(o, "Reader::skip_leb128", r.skip_leb128());
            let mut r = r0.clone();
            let _ = c!(o, "Reader::read_initial_length", r.read_initial_length());
            let mut r = r0.clone();
            let _ = c!(o, "Reader::read_null_terminated_slice", r.read_null_terminated_slice());
            let mut r = r0.clone();
            let _ = c!(o, "Reader::read_address_size", r.read_address_size());
            for sz in [0u8, 1, 2, 3, 4, 8, 9, 255] {
                let mut r = r0.clone();
                let _ = c!(o, "Reader::read_address", r.read_address(sz));
                let mut r = r0.clone();
                let _ = c!(o, "Reader::read_sized_offset", r.read_sized_offset(sz));
            }
        }
    });
}
