// ---------------------------------------------------------------------------
// "gen" base: structurally valid sections produced by gimli's own WRITER from
// seeded random content.  The writer is only a generator here, never an oracle.
// ---------------------------------------------------------------------------
fn gen_expr(rng: &mut Rng, depth: u32) -> write::Expression {
    let mut e = write::Expression::new();
    let n = 1 + rng.below(5);
    for _ in 0..n {
        match rng.below(16) {
            0 => e.op_addr(write::Address::Constant(rng.boundary64() & 0x7fff)),
            1 => e.op_constu(rng.boundary64()),
            2 => e.op_consts(rng.boundary64() as i64),
            3 => e.op_fbreg(rng.boundary64() as i64 >> 40),
            4 => e.op_breg(gimli::Register(rng.below(40) as u16), rng.boundary64() as i64 >> 33),
            5 => e.op_pick(rng.below(4) as u8),
            6 => e.op_deref(),
            7 => e.op_deref_size(*rng.pick(&[1u8, 2, 4, 8])),
            8 => e.op_plus_uconst(rng.boundary64()),
            9 => e.op_reg(gimli::Register(rng.below(70) as u16)),
            10 => e.op_piece(rng.below(16)),
            11 => e.op_bit_piece(rng.below(64), rng.below(64)),
            12 => e.op_implicit_value(vec![rng.next() as u8; rng.below(9) as usize].into_boxed_slice()),
            13 if depth < 2 => e.op_entry_value(gen_expr(rng, depth + 1)),
            14 => e.op(*rng.pick(&[gimli::DW_OP_plus, gimli::DW_OP_minus, gimli::DW_OP_mul, gimli::DW_OP_div, gimli::DW_OP_shl,
                gimli::DW_OP_dup, gimli::DW_OP_drop, gimli::DW_OP_swap, gimli::DW_OP_stack_value, gimli::DW_OP_call_frame_cfa,
                gimli::DW_OP_push_object_address, gimli::DW_OP_form_tls_address, gimli::DW_OP_neg, gimli::DW_OP_eq, gimli::DW_OP_nop])),
            _ => {
                let b = e.op_bra();
                e.op_constu(1);
                let t = e.next_index();
                e.set_target(b, t);
            }
        }
    }
    e
}

fn gen_dwarf(rng: &mut Rng, sections: &mut write::Sections<write::EndianVec<RunTimeEndian>>) -> Result<(), String> {
    let mut dwarf = write::Dwarf::new();
    let nunits = 1 + rng.below(3);
    for u in 0..nunits {
        let version = *rng.pick(&[2u16, 3, 4, 5, 5, 4]);
        let format = if rng.chance(1, 4) { Format::Dwarf64 } else { Format::Dwarf32 };
        let address_size = *rng.pick(&[8u8, 8, 4, 4, 2]);
        let enc = Encoding { version, format, address_size };
        // line program
        let line_program = if rng.chance(4, 5) {
            let le = gimli::LineEncoding {
                minimum_instruction_length: *rng.pick(&[1u8, 2, 4]),
                maximum_operations_per_instruction: 1,
                default_is_stmt: rng.chance(1, 2),
                line_base: *rng.pick(&[-5i8, -3, 0]),
                line_range: *rng.pick(&[14u8, 12, 10]),
            };
            let strform = rng.chance(1, 2) && version >= 5;
            let mk = |d: &mut write::Dwarf, s: &str| -> write::LineString {
                if strform {
                    write::LineString::LineStringRef(d.line_strings.add(s.as_bytes().to_vec()))
                } else {
                    write::LineString::String(s.as_bytes().to_vec())
                }
            };
            let wd = mk(&mut dwarf, "/work/dir");
            let sf = mk(&mut dwarf, "main.c");
            let mut p = write::LineProgram::new(enc, le, wd, None, sf, None);
            let d2 = mk(&mut dwarf, "include");
            let dir = p.add_directory(d2);
            let mut files = Vec::new();
            for i in 0..1 + rng.below(3) {
                let f = mk(&mut dwarf, &format!("file{}.h", i));
                files.push(p.add_file(f, if rng.chance(1, 2) { dir } else { p.default_directory() }, None));
            }
            let mil = le.minimum_instruction_length as u64;
            for _s in 0..1 + rng.below(3) {
                let base = (0x1000 + rng.below(0x4000)) & !3;
                p.begin_sequence(Some(write::Address::Constant(base)));
                let mut off = 0u64;
                let mut line = 1 + rng.below(50);
                for _r in 0..rng.below(12) {
                    let span = *rng.pick(&[4u64, 40, 300]);
                    off += mil * rng.below(span);
                    line = (line as i64 + rng.below(21) as i64 - 8).max(1) as u64;
                    let row = p.row();
                    row.address_offset = off;
                    row.file = *rng.pick(&files);
                    row.line = line;
                    row.column = rng.below(80);
                    row.is_statement = rng.chance(1, 2);
                    row.basic_block = rng.chance(1, 8);
                    row.prologue_end = rng.chance(1, 8);
                    row.epilogue_begin = rng.chance(1, 8);
                    row.discriminator = if version >= 4 { rng.below(3) } else { 0 };
                    row.isa = rng.below(2);
                    p.generate_row();
                }
                off += mil * (1 + rng.below(8));
                p.end_sequence(off);
            }
            p
        } else {
            write::LineProgram::none()
        };
        let has_lines = !line_program.is_none();
        let uid = dwarf.units.add(write::Unit::new(enc, line_program));
        let name_id = dwarf.strings.add(format!("unit{}", u).into_bytes());
        let unit = dwarf.units.get_mut(uid);
        let root = unit.root();
        unit.get_mut(root).set(gimli::DW_AT_name, write::AttributeValue::StringRef(name_id));
        unit.get_mut(root).set(gimli::DW_AT_producer, write::AttributeValue::String(b"gvh".to_vec()));
        unit.get_mut(root).set(gimli::DW_AT_language, write::AttributeValue::Language(gimli::DW_LANG_C99));
        let with_base = rng.chance(1, 2);
        if with_base {
            unit.get_mut(root).set(gimli::DW_AT_low_pc, write::AttributeValue::Address(write::Address::Constant(0x1000)));
        }
        if has_lines {
            unit.get_mut(root).set(gimli::DW_AT_stmt_list, write::AttributeValue::LineProgramRef);
        }
        // entries
        let mut ids = vec![root];
        let mut types = Vec::new();
        let n = 2 + rng.below(14);
        for i in 0..n {
            let parent = if rng.chance(1, 2) { root } else { *rng.pick(&ids) };
            let tag = *rng.pick(&[gimli::DW_TAG_subprogram, gimli::DW_TAG_variable, gimli::DW_TAG_base_type, gimli::DW_TAG_lexical_block,
                gimli::DW_TAG_formal_parameter, gimli::DW_TAG_structure_type, gimli::DW_TAG_member, gimli::DW_TAG_inlined_subroutine,
                gimli::DW_TAG_pointer_type, gimli::DW_TAG_namespace]);
            let id = unit.add(parent, tag);
            ids.push(id);
            if tag == gimli::DW_TAG_base_type || tag == gimli::DW_TAG_structure_type || tag == gimli::DW_TAG_pointer_type {
                types.push(id);
            }
            let e = unit.get_mut(id);
            if rng.chance(1, 3) {
                e.set_sibling(true);
            }
            e.set(gimli::DW_AT_name, write::AttributeValue::String(format!("e{}", i).into_bytes()));
        }
        // attributes of many kinds
        for k in 1..ids.len() {
            let id = ids[k];
            for _ in 0..rng.below(6) {
                let (name, value) = match rng.below(22) {
                    0 => (gimli::DW_AT_low_pc, write::AttributeValue::Address(write::Address::Constant(0x1000 + rng.below(0x1000)))),
                    1 => (gimli::DW_AT_high_pc, write::AttributeValue::Udata(rng.below(0x400))),
                    2 => (gimli::DW_AT_byte_size, write::AttributeValue::Data1(rng.next() as u8)),
                    3 => (gimli::DW_AT_decl_line, write::AttributeValue::Data2(rng.next() as u16)),
                    4 => (gimli::DW_AT_decl_column, write::AttributeValue::Data4(rng.boundary64() as u32)),
                    5 => (gimli::DW_AT_const_value, write::AttributeValue::Data8(rng.boundary64())),
                    6 => (gimli::DW_AT_const_value, write::AttributeValue::Sdata(rng.boundary64() as i64)),
                    7 => (gimli::DW_AT_upper_bound, write::AttributeValue::Udata(rng.boundary64())),
                    8 => (gimli::DW_AT_const_value, write::AttributeValue::Block(vec![rng.next() as u8; rng.below(300) as usize])),
                    9 => (gimli::DW_AT_external, write::AttributeValue::Flag(rng.chance(1, 2))),
                    10 if enc.version >= 4 => (gimli::DW_AT_declaration, write::AttributeValue::FlagPresent),
                    11 => (gimli::DW_AT_location, write::AttributeValue::Exprloc(gen_expr(rng, 0))),
                    12 => (gimli::DW_AT_frame_base, write::AttributeValue::Exprloc(gen_expr(rng, 0))),
                    13 if !types.is_empty() => (gimli::DW_AT_type, write::AttributeValue::UnitRef(*rng.pick(&types))),
                    14 => (gimli::DW_AT_encoding, write::AttributeValue::Encoding(gimli::DW_ATE_signed)),
                    15 => (gimli::DW_AT_linkage_name, write::AttributeValue::StringRef(dwarf.strings.add(format!("_Z{}", rng.below(1000)).into_bytes()))),
                    16 => {
                        let mut rs = Vec::new();
                        if with_base && rng.chance(1, 2) {
                            rs.push(write::Range::BaseAddress { address: write::Address::Constant(0x1000 + rng.below(0x100)) });
                        }
                        for _ in 0..1 + rng.below(4) {
                            let b = rng.below(0x800);
                            rs.push(match if with_base { 0 } else { 1 + rng.below(2) } {
                                0 => write::Range::OffsetPair { begin: b, end: b + 1 + rng.below(64) },
                                1 => write::Range::StartEnd { begin: write::Address::Constant(0x1000 + b), end: write::Address::Constant(0x1001 + b + rng.below(64)) },
                                _ => write::Range::StartLength { begin: write::Address::Constant(0x1000 + b), length: 1 + rng.below(64) },
                            });
                        }
                        (gimli::DW_AT_ranges, write::AttributeValue::RangeListRef(unit.ranges.add(write::RangeList(rs))))
                    }
                    17 => {
                        let mut ls = Vec::new();
                        if with_base && rng.chance(1, 2) {
                            ls.push(write::Location::BaseAddress { address: write::Address::Constant(0x1000) });
                        }
                        for _ in 0..1 + rng.below(3) {
                            let b = rng.below(0x800);
                            let data = gen_expr(rng, 0);
                            ls.push(match if with_base { 0 } else { 1 + rng.below(3) } {
                                0 => write::Location::OffsetPair { begin: b, end: b + 1 + rng.below(64), data },
                                1 => write::Location::StartEnd { begin: write::Address::Constant(0x1000 + b), end: write::Address::Constant(0x1001 + b + rng.below(64)), data },
                                2 if enc.version >= 5 => write::Location::DefaultLocation { data },
                                _ => write::Location::StartLength { begin: write::Address::Constant(0x1000 + b), length: 1 + rng.below(64), data },
                            });
                        }
                        (gimli::DW_AT_location, write::AttributeValue::LocationListRef(unit.locations.add(write::LocationList(ls))))
                    }
                    18 if enc.version >= 4 => (gimli::DW_AT_signature, write::AttributeValue::DebugTypesRef(DebugTypeSignature(rng.next()))),
                    19 if enc.version >= 5 => (gimli::DW_AT_const_value, write::AttributeValue::Data16(((rng.next() as u128) << 64) | rng.next() as u128)),
                    20 => (gimli::DW_AT_inline, write::AttributeValue::Inline(gimli::DW_INL_inlined)),
                    _ => (gimli::DW_AT_accessibility, write::AttributeValue::Accessibility(gimli::DW_ACCESS_public)),
                };
                unit.get_mut(id).set(name, value);
            }
        }
    }
    dwarf.write(sections).map_err(|e| format!("{:?}", e))
}

fn gen_cfi_instruction(rng: &mut Rng) -> write::CallFrameInstruction {
    use write::CallFrameInstruction as I;
    let nreg = *rng.pick(&[17u64, 40, 300]);
    let reg = gimli::Register(rng.below(nreg) as u16);
    match rng.below(15) {
        0 => I::Cfa(reg, (rng.below(256) as i32) * 8),
        1 => I::CfaRegister(reg),
        2 => I::CfaOffset((rng.below(64) as i32) * 8),
        3 => I::CfaExpression(gen_expr(rng, 1)),
        4 => I::Restore(reg),
        5 => I::Undefined(reg),
        6 => I::SameValue(reg),
        7 => I::Offset(reg, -8 * (rng.below(32) as i32)),
        8 => I::ValOffset(reg, 8 * (rng.below(32) as i32) - 64),
        9 => I::Register(reg, gimli::Register(rng.below(17) as u16)),
        10 => I::Expression(reg, gen_expr(rng, 1)),
        11 => I::ValExpression(reg, gen_expr(rng, 1)),
        12 => I::RememberState,
        13 => I::ArgsSize(rng.below(4096) as u32),
        _ => I::Offset(reg, -8),
    }
}

fn gen_frames(rng: &mut Rng, sections: &mut write::Sections<write::EndianVec<RunTimeEndian>>) -> Result<(), String> {
    for which in 0..2 {
        let mut table = write::FrameTable::default();
        for _c in 0..1 + rng.below(2) {
            let enc = Encoding {
                version: if which == 1 { 1 } else { *rng.pick(&[1u16, 3, 4]) },
                format: if rng.chance(1, 5) && which == 0 { Format::Dwarf64 } else { Format::Dwarf32 },
                address_size: if which == 1 { 8 } else { *rng.pick(&[8u8, 4]) },
            };
            let caf8 = *rng.pick(&[1u8, 2, 4]);
            let mut cie = write::CommonInformationEntry::new(enc, caf8, *rng.pick(&[-8i8, -4, 1]), gimli::Register(16));
            if which == 1 {
                if rng.chance(1, 2) {
                    cie.fde_address_encoding = gimli::DW_EH_PE_absptr;
                    cie.lsda_encoding = if rng.chance(1, 2) { Some(gimli::DW_EH_PE_absptr) } else { None };
                }
                if rng.chance(1, 3) {
                    cie.personality = Some((gimli::DW_EH_PE_absptr, write::Address::Constant(0x4000)));
                }
                cie.signal_trampoline = rng.chance(1, 6);
            }
            cie.add_instruction(write::CallFrameInstruction::Cfa(gimli::Register(7), 8));
            for _ in 0..rng.below(3) {
                cie.add_instruction(gen_cfi_instruction(rng));
            }
            let has_lsda = cie.lsda_encoding.is_some();
            let caf = caf8 as u32;
            let cid = table.add_cie(cie);
            for f in 0..1 + rng.below(3) {
                let mut fde = write::FrameDescriptionEntry::new(write::Address::Constant(0x1000 + 0x400 * f + rng.below(16)), 0x100 + rng.below(0x200) as u32);
                if has_lsda {
                    fde.lsda = Some(write::Address::Constant(0x5000 + rng.below(64)));
                }
                let mut off = 0u32;
                let mut depth = 0;
                for _ in 0..rng.below(10) {
                    let span = *rng.pick(&[4u64, 70, 300, 70000]);
                    off += caf * rng.below(span) as u32;
                    let mut ins = gen_cfi_instruction(rng);
                    if let write::CallFrameInstruction::RememberState = ins {
                        depth += 1;
                    }
                    if depth > 0 && rng.chance(1, 3) {
                        ins = write::CallFrameInstruction::RestoreState;
                        depth -= 1;
                    }
                    fde.add_instruction(off, ins);
                }
                table.add_fde(cid, fde);
            }
        }
        if which == 0 {
            table.write_debug_frame(&mut sections.debug_frame).map_err(|e| format!("{:?}", e))?;
        } else {
            table.write_eh_frame(&mut sections.eh_frame).map_err(|e| format!("{:?}", e))?;
        }
    }
    Ok(())
}

fn gen_sections(gseed: u64, be: bool) -> Secs {
    let endian = if be { RunTimeEndian::Big } else { RunTimeEndian::Little };
    let mut secs = Secs::new();
    // Try a few derived seeds: the writer refuses some random combinations.
    for attempt in 0..8u64 {
        let mut out = Secs::new();
        let r = guarded(|| {
            let mut rng = Rng::new(gseed.wrapping_mul(0x9e37_79b9).wrapping_add(attempt));
            let mut sections = write::Sections::new(write::EndianVec::new(endian));
            let a = gen_dwarf(&mut rng, &mut sections);
            let b = gen_frames(&mut rng, &mut sections);
            let _ = sections.for_each(|id, w: &write::EndianVec<RunTimeEndian>| -> Result<(), ()> {
                if !w.slice().is_empty() {
                    out.insert(strip(id.name()).to_string(), w.slice().to_vec());
                }
                Ok(())
            });
            json!({"dwarf": a.is_ok(), "frames": b.is_ok(), "e": format!("{:?} {:?}", a, b)})
        });
        if std::env::var("GVH_DEBUG").is_ok() {
            eprintln!("gen {} attempt {}: {}", gseed, attempt, r);
        }
        if r.get("outcome").is_none() && r["dwarf"] == true && r["frames"] == true {
            secs = out;
            break;
        }
    }
    secs
}
