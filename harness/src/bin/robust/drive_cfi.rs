// ---------------------------------------------------------------------------
// .debug_frame / .eh_frame / .eh_frame_hdr
// ---------------------------------------------------------------------------
fn drive_cfi_instructions<R, S>(o: &mut Obs, mut it: read::CallFrameInstructionIter<'_, R>, sec: &S, bound: usize, enc: Encoding, rng: &mut Rng, exprs_left: &mut usize)
where
    R: Reader<Offset = usize>,
    S: UnwindSection<R>,
{
    pump!(o, "CallFrameInstructionIter", false, bound, it.next(), |ins| {
        let e = match ins {
            read::CallFrameInstruction::DefCfaExpression { expression } => Some(expression),
            read::CallFrameInstruction::Expression { expression, .. } => Some(expression),
            read::CallFrameInstruction::ValExpression { expression, .. } => Some(expression),
            _ => None,
        };
        if let Some(e) = e {
            if *exprs_left > 0 {
                *exprs_left -= 1;
                if let Some(expr) = c!(o, "UnwindExpression::get", e.get(sec)) {
                    drive_expr(o, expr, enc, rng, true);
                }
                o.start("CallFrameInstructionIter");
            }
        }
    });
}

fn drive_rows<R, S>(o: &mut Obs, sec: &S, bases: &BaseAddresses, ctx: &mut read::UnwindContext<usize>, fde: &read::FrameDescriptionEntry<R>, bound: usize, api: &'static str, pname: &'static str, exprs_left: &mut usize, rng: &mut Rng)
where
    R: Reader<Offset = usize>,
    S: UnwindSection<R>,
{
    if let Some(mut table) = c!(o, api, read::UnwindTable::new(sec, bases, ctx, fde)) {
        let mut p = Pump::new(pname, false, bound + 1);
        o.start(pname);
        while p.more() {
            let r = table.next_row();
            p.rec(match &r {
                Ok(Some(_)) => SOME,
                Ok(None) => NONE,
                Err(_) => ERR,
            });
            if let Ok(Some(row)) = r {
                let _ = (row.start_address(), row.end_address(), row.contains(rng.boundary64()), row.saved_args_size());
                let cfa = row.cfa().clone();
                for (reg, rule) in row.registers() {
                    let _ = row.register(*reg);
                    let e = match rule {
                        read::RegisterRule::Expression(e) | read::RegisterRule::ValExpression(e) => Some(e.clone()),
                        _ => None,
                    };
                    if let Some(e) = e {
                        if *exprs_left > 0 {
                            *exprs_left -= 1;
                            let _ = c!(o, "UnwindExpression::get", e.get(sec).map(|x| x.0.len()));
                            o.start(pname);
                        }
                    }
                }
                if let read::CfaRule::Expression(e) = cfa {
                    let _ = c!(o, "UnwindExpression::get", e.get(sec).map(|x| x.0.len()));
                    o.start(pname);
                }
            }
        }
        o.done(p);
        let _ = v!(o, "UnwindTable::into_current_row", table.into_current_row().is_some());
    }
}

fn drive_cfi<R, S>(o: &mut Obs, sec: &S, bases: &BaseAddresses, len: usize, rng: &mut Rng, pfx: &'static str)
where
    R: Reader<Offset = usize>,
    S: UnwindSection<R>,
    S::Offset: read::UnwindOffset<usize>,
{
    o.pfx = pfx;
    let mut fdes: Vec<read::FrameDescriptionEntry<R>> = Vec::new();
    let mut offsets: Vec<usize> = Vec::new();
    let mut addrs: Vec<u64> = vec![0, 1, u64::MAX, u64::MAX / 2 + 1, rng.boundary64()];
    let mut exprs_left = 16usize;
    let mut n = 0usize;
    let mut it = sec.entries(bases);
    // "iteration will abort" after an error (doc comment of CfiEntriesIter)
    pump!(o, "CfiEntriesIter", true, len, it.next(), |entry| {
        n += 1;
        let deep = n <= 48 || n % 37 == 0;
        match entry {
            read::CieOrFde::Cie(cie) => {
                if offsets.len() < 32 {
                    offsets.push(cie.offset());
                }
                let _ = v!(o, "Cie::accessors", (cie.encoding(), cie.address_size(), cie.entry_len(), cie.version(), cie.augmentation().is_some(),
                    cie.has_lsda(), cie.lsda_encoding(), cie.personality_with_encoding(), cie.personality(), cie.fde_address_encoding(),
                    cie.is_signal_trampoline(), cie.code_alignment_factor(), cie.data_alignment_factor(), cie.return_address_register()));
                if deep {
                    drive_cfi_instructions(o, cie.instructions(sec, bases), sec, len, cie.encoding(), rng, &mut exprs_left);
                }
            }
            read::CieOrFde::Fde(partial) => {
                if offsets.len() < 32 {
                    offsets.push(partial.offset());
                }
                let _ = v!(o, "PartialFde::accessors", (partial.entry_len(), partial.cie_offset()));
                if deep && !o.over() {
                    if let Some(fde) = c!(o, "PartialFde::parse", partial.parse(S::cie_from_offset)) {
                        let _ = v!(o, "Fde::accessors", (fde.offset(), fde.entry_len(), fde.initial_address(), fde.end_address(), fde.len(),
                            fde.contains(rng.boundary64()), fde.lsda(), fde.is_signal_trampoline(), fde.personality(), fde.cie().version()));
                        if addrs.len() < 24 {
                            addrs.push(fde.initial_address());
                            addrs.push(fde.initial_address().wrapping_add(fde.len() / 2));
                            addrs.push(fde.end_address());
                        }
                        drive_cfi_instructions(o, fde.instructions(sec, bases), sec, len, fde.cie().encoding(), rng, &mut exprs_left);
                        let mut ctx = read::UnwindContext::new();
                        drive_rows(o, sec, bases, &mut ctx, &fde, len, "UnwindTable::new", "UnwindTable::next_row", &mut exprs_left, rng);
                        let a = fde.initial_address().wrapping_add(rng.below(fde.len().max(1)));
                        let _ = c!(o, "Fde::unwind_info_for_address", fde.unwind_info_for_address(sec, bases, &mut ctx, a).map(|r| r.start_address()));
                        let _ = c!(o, "Fde::rows", fde.rows(sec, bases, &mut ctx).map(|_| ()));
                        if fdes.len() < 8 {
                            fdes.push(fde);
                        }
                    }
                }
            }
        }
        o.start("CfiEntriesIter");
    });
    // one context reused across FDEs, in random order
    let mut ctx = read::UnwindContext::new();
    for _ in 0..fdes.len().min(6) {
        let fde = &fdes[rng.below(fdes.len() as u64) as usize];
        drive_rows(o, sec, bases, &mut ctx, fde, len, "UnwindTable::new(reused)", "UnwindTable::next_row(reused)", &mut exprs_left, rng);
    }
    // parse at given offsets
    let mut offs = probes(rng, len, 3);
    offs.extend(offsets.iter().flat_map(|x| [*x, x.wrapping_add(1), x.wrapping_add(4)]));
    for off in offs {
        if o.over() {
            break;
        }
        let _ = c!(o, "UnwindSection::cie_from_offset", sec.cie_from_offset(bases, S::Offset::from(off)).map(|_| ()));
        if let Some(p) = c!(o, "UnwindSection::partial_fde_from_offset", sec.partial_fde_from_offset(bases, S::Offset::from(off))) {
            let _ = c!(o, "PartialFde::parse", p.parse(S::cie_from_offset).map(|_| ()));
        }
        let _ = c!(o, "UnwindSection::fde_from_offset", sec.fde_from_offset(bases, S::Offset::from(off), S::cie_from_offset).map(|_| ()));
    }
    // lookups by address
    for a in addrs {
        if o.over() {
            break;
        }
        let _ = c!(o, "UnwindSection::fde_for_address", sec.fde_for_address(bases, a, S::cie_from_offset).map(|_| ()));
        let _ = c!(o, "UnwindSection::unwind_info_for_address", sec.unwind_info_for_address(bases, &mut ctx, a, S::cie_from_offset).map(|r| r.start_address()));
    }
    o.pfx = "";
}

fn drive_frames<S: Src>(o: &mut Obs, src: &S, cfg: &Cfg, rng: &mut Rng) {
    let bases = cfg.bases();
    group(o, cfg, "debug_frame", |o| {
        let r = src.get("debug_frame");
        let len = r.len();
        let mut sec = read::DebugFrame::from(r);
        drive_cfi(o, &sec, &bases, len, rng, "debug_frame");
        if len > 0 {
            sec.set_address_size(*rng.pick(&[1u8, 2, 4, 8]));
            sec.set_vendor(*rng.pick(&[gimli::Vendor::Default, gimli::Vendor::AArch64]));
            drive_cfi(o, &sec, &BaseAddresses::default(), len, rng, "debug_frame");
        }
    });
    group(o, cfg, "eh_frame", |o| {
        let r = src.get("eh_frame");
        let len = r.len();
        let mut sec = read::EhFrame::from(r);
        drive_cfi(o, &sec, &bases, len, rng, "eh_frame");
        if len > 0 {
            sec.set_address_size(*rng.pick(&[1u8, 2, 4, 8]));
            sec.set_vendor(gimli::Vendor::AArch64);
            drive_cfi(o, &sec, &BaseAddresses::default(), len, rng, "eh_frame");
        }
    });
    group(o, cfg, "eh_frame_hdr", |o| {
        let r = src.get("eh_frame_hdr");
        let len = r.len();
        if len == 0 && cfg.only.is_none() {
            return;
        }
        let hdr = read::EhFrameHdr::from(r);
        let eh = read::EhFrame::from(src.get("eh_frame"));
        for (k, asz) in [8u8, 4, 8, 2, 1].iter().enumerate() {
            let b = if k == 2 { BaseAddresses::default() } else { cfg.bases() };
            if let Some(parsed) = c!(o, "EhFrameHdr::parse", hdr.parse(&b, *asz)) {
                let _ = v!(o, "ParsedEhFrameHdr::eh_frame_ptr", parsed.eh_frame_ptr());
                if let Some(table) = v!(o, "ParsedEhFrameHdr::table", parsed.table()) {
                    let mut ptrs: Vec<gimli::Pointer> = vec![gimli::Pointer::Direct(0), gimli::Pointer::Direct(u64::MAX), gimli::Pointer::Indirect(8), parsed.eh_frame_ptr()];
                    let mut addrs: Vec<u64> = vec![0, 1, u64::MAX, u64::MAX / 2 + 1, cfg.addrs[2], rng.boundary64()];
                    {
                        let mut it = table.iter(&b);
                        pump!(o, "EhHdrTableIter", false, len, it.next(), |e| {
                            if ptrs.len() < 12 {
                                ptrs.push(e.1);
                                if let gimli::Pointer::Direct(a) = e.0 {
                                    addrs.push(a);
                                    addrs.push(a.wrapping_add(1));
                                }
                            }
                        });
                    }
                    for n in [0usize, 1, 2, usize::MAX, usize::MAX / 2, usize::MAX / 16 + 1, rng.below(64) as usize] {
                        let mut it = table.iter(&b);
                        let _ = c!(o, "EhHdrTableIter::nth", it.nth(n));
                        let _ = c!(o, "EhHdrTableIter::next", it.next());
                        let mut it = table.iter(&b);
                        let _ = v!(o, "EhHdrTableIter::size_hint", Iterator::size_hint(&it));
                        let _ = v!(o, "EhHdrTableIter::Iterator::nth", Iterator::nth(&mut it, n).is_some());
                    }
                    let mut ctx = read::UnwindContext::new();
                    for a in addrs {
                        if let Some(p) = c!(o, "EhHdrTable::lookup", table.lookup(a, &b)) {
                            ptrs.push(p);
                        }
                        let _ = c!(o, "EhHdrTable::fde_for_address", table.fde_for_address(&eh, &b, a, read::EhFrame::cie_from_offset).map(|_| ()));
                        let _ = c!(o, "EhHdrTable::unwind_info_for_address", table.unwind_info_for_address(&eh, &b, &mut ctx, a, read::EhFrame::cie_from_offset).map(|r| r.start_address()));
                    }
                    for p in ptrs {
                        let _ = c!(o, "EhHdrTable::pointer_to_offset", table.pointer_to_offset(p));
                    }
                }
            }
            if o.over() {
                break;
            }
        }
    });
}
