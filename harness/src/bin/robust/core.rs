// ---------------------------------------------------------------------------
// Sections, reader sources, observation bookkeeping, iterator pumps.
// ---------------------------------------------------------------------------
type Secs = BTreeMap<String, Vec<u8>>;

static EMPTY: [u8; 0] = [];

/// A source of readers over the (mutated) sections.
trait Src {
    type R: Reader<Offset = usize>;
    fn get(&self, name: &str) -> Self::R;
    fn has(&self, name: &str) -> bool;
    fn endian(&self) -> RunTimeEndian;
}

struct SliceSrc<'a> {
    secs: &'a Secs,
    endian: RunTimeEndian,
}

impl<'a> Src for SliceSrc<'a> {
    type R = EndianSlice<'a, RunTimeEndian>;
    fn get(&self, name: &str) -> Self::R {
        match self.secs.get(name) {
            Some(v) => EndianSlice::new(v, self.endian),
            None => EndianSlice::new(&EMPTY, self.endian),
        }
    }
    fn has(&self, name: &str) -> bool {
        self.secs.get(name).map(|v| !v.is_empty()).unwrap_or(false)
    }
    fn endian(&self) -> RunTimeEndian {
        self.endian
    }
}

/// Readers that log / count every primitive operation.  With `shared` all
/// sections count into one log (fault injection at the k-th operation of the
/// whole run); otherwise each section has its own log (field discovery).
struct TraceSrc<'a> {
    secs: &'a Secs,
    endian: RunTimeEndian,
    shared: Option<Rc<RefCell<Log>>>,
    per: RefCell<BTreeMap<String, Rc<RefCell<Log>>>>,
}

impl<'a> Src for TraceSrc<'a> {
    type R = TracingReader<'a>;
    fn get(&self, name: &str) -> Self::R {
        let data: &'a [u8] = match self.secs.get(name) {
            Some(v) => v,
            None => &EMPTY,
        };
        let log = match &self.shared {
            Some(l) => l.clone(),
            None => self
                .per
                .borrow_mut()
                .entry(name.to_string())
                .or_insert_with(|| {
                    Rc::new(RefCell::new(Log { events: Vec::new(), ops: 0, fail_at: None, keep: true }))
                })
                .clone(),
        };
        TracingReader { base: data.as_ptr(), r: EndianSlice::new(data, self.endian), log }
    }
    fn has(&self, name: &str) -> bool {
        self.secs.get(name).map(|v| !v.is_empty()).unwrap_or(false)
    }
    fn endian(&self) -> RunTimeEndian {
        self.endian
    }
}

const NONE: u8 = 0;
const SOME: u8 = 1;
const ERR: u8 = 2;

/// Result sequence of pumping one iterator instance, run-length encoded.
struct Pump {
    it: &'static str,
    fused: bool,
    bound: u64,
    runs: Vec<(u8, u64)>,
    calls: u64,
    since_none: u8,
}

impl Pump {
    fn new(it: &'static str, fused: bool, bound: usize) -> Pump {
        Pump { it, fused, bound: bound as u64, runs: Vec::new(), calls: 0, since_none: 0 }
    }
    /// Budget: bound + 8 calls; after the first None two more calls are made.
    fn more(&self) -> bool {
        self.calls < self.bound + 8 && self.since_none < 3
    }
    fn rec(&mut self, k: u8) {
        self.calls += 1;
        if k == NONE || self.since_none > 0 {
            self.since_none += 1;
        }
        match self.runs.last_mut() {
            Some((kk, n)) if *kk == k => *n += 1,
            _ => self.runs.push((k, 1)),
        }
    }
    fn res<T>(&mut self, r: &gimli::Result<Option<T>>) {
        self.rec(match r {
            Ok(Some(_)) => SOME,
            Ok(None) => NONE,
            Err(_) => ERR,
        })
    }
}

#[derive(Default)]
struct Obs {
    calls: BTreeMap<(&'static str, &'static str), [u64; 2]>,
    iters: BTreeMap<String, u64>,
    abnormal: Vec<J>,
    pfx: &'static str,
    cur: &'static str,
    group: &'static str,
    slack: u64,
    work: u64,
    total: u64,
    budget: u64,
    variant: J,
}

impl Obs {
    fn enter(&mut self, api: &'static str) {
        self.cur = api;
        self.work += 1;
    }
    fn tally<T, E>(&mut self, api: &'static str, r: Result<T, E>) -> Option<T> {
        let e = self.calls.entry((self.pfx, api)).or_insert([0, 0]);
        match r {
            Ok(v) => {
                e[0] += 1;
                Some(v)
            }
            Err(_) => {
                e[1] += 1;
                None
            }
        }
    }
    /// An infallible call that returned.
    fn ret(&mut self, api: &'static str) {
        self.calls.entry((self.pfx, api)).or_insert([0, 0])[0] += 1;
    }
    fn over(&self) -> bool {
        self.work > self.budget
    }
    fn panicked(&mut self, r: &J) {
        // one record per (entry point, location) and recipe
        for a in self.abnormal.iter_mut() {
            if a["api"] == self.cur && a["loc"] == r["loc"] {
                a["n"] = json!(a["n"].as_u64().unwrap_or(1) + 1);
                return;
            }
        }
        self.abnormal.push(json!({"api": self.cur, "group": self.group, "outcome": "panic",
            "loc": r["loc"], "msg": r["msg"], "variant": self.variant, "n": 1}));
    }
    fn start(&mut self, it: &'static str) {
        self.cur = it;
    }
    fn done(&mut self, p: Pump) {
        self.work += p.calls;
        let runs: Vec<J> = p
            .runs
            .iter()
            .map(|(k, n)| json!([match *k { NONE => "none", SOME => "some", _ => "err" }, n]))
            .collect();
        let key = json!({"it": p.it, "fused": p.fused, "bound": p.bound, "slack": self.slack, "runs": runs}).to_string();
        *self.iters.entry(key).or_insert(0) += 1;
    }
    fn to_json(&self) -> J {
        let mut calls = Map::new();
        for ((p, a), v) in &self.calls {
            let k = if p.is_empty() { a.to_string() } else { format!("{}.{}", p, a) };
            calls.insert(k, json!([v[0], v[1]]));
        }
        let iters: Vec<J> = self
            .iters
            .iter()
            .map(|(k, n)| {
                let mut v: J = serde_json::from_str(k).unwrap();
                v["n"] = json!(n);
                v
            })
            .collect();
        json!({"calls": calls, "iters": iters, "abnormal": self.abnormal, "work": self.total + self.work})
    }
}

/// Evaluate `$e` under `catch_unwind`; a panic is recorded as an abnormal
/// outcome of the entry point that was running and yields `None`.
macro_rules! guard_eval {
    ($o:expr, $e:expr) => {{
        let mut slot = None;
        let r = guarded(|| {
            slot = Some($e);
            J::Null
        });
        if r.get("outcome").is_some() {
            $o.panicked(&r);
            None
        } else {
            slot
        }
    }};
}

/// `c!(o, "Api::name", expr)`: note the entry point (for panic attribution),
/// evaluate under `catch_unwind`, count Ok / Err, give back `Option<T>`.
macro_rules! c {
    ($o:expr, $api:expr, $e:expr) => {{
        $o.enter($api);
        match guard_eval!($o, $e) {
            Some(r) => $o.tally($api, r),
            None => None,
        }
    }};
}

/// Like `v!` but under `catch_unwind`: `Option<T>`.
macro_rules! vg {
    ($o:expr, $api:expr, $e:expr) => {{
        $o.enter($api);
        let r = guard_eval!($o, $e);
        if r.is_some() {
            $o.ret($api);
        }
        r
    }};
}

/// An infallible entry point: evaluate and count that it returned.
macro_rules! v {
    ($o:expr, $api:expr, $e:expr) => {{
        $o.enter($api);
        let r = $e;
        $o.ret($api);
        r
    }};
}

/// Pump a `Result<Option<T>>` iterator to the end of its budget, handing each
/// item to `$body`.
macro_rules! pump {
    ($o:expr, $name:expr, $fused:expr, $bound:expr, $next:expr, |$item:ident| $body:block) => {{
        let mut p = Pump::new($name, $fused, $bound);
        $o.start($name);
        let mut broke = false;
        while p.more() {
            let r = match guard_eval!($o, $next) {
                Some(r) => r,
                None => {
                    broke = true;
                    break;
                }
            };
            p.res(&r);
            if let Ok(Some($item)) = r {
                $body
            }
        }
        if !broke {
            $o.done(p);
        }
    }};
}

struct Cfg {
    seed: u64,
    /// seed of the unit sample on large inputs (few values, shared with field discovery)
    sample: u64,
    only: Option<Vec<String>>,
    max_units: usize,
    max_entries: usize,
    addrs: [u64; 3], // eh_frame_hdr, eh_frame, text
}

impl Cfg {
    fn bases(&self) -> BaseAddresses {
        BaseAddresses::default()
            .set_eh_frame_hdr(self.addrs[0])
            .set_eh_frame(self.addrs[1])
            .set_text(self.addrs[2])
            .set_got(0)
    }
}

/// Run one top-level call group under `catch_unwind`; a panic becomes an
/// `abnormal` record attributed to the entry point that was running.
fn group<F: FnOnce(&mut Obs)>(o: &mut Obs, cfg: &Cfg, name: &'static str, f: F) {
    if let Some(only) = &cfg.only {
        if !only.iter().any(|g| g == name) {
            return;
        }
    }
    o.group = name;
    o.total += o.work;
    o.work = 0;
    o.pfx = "";
    o.cur = name;
    let r = guarded(|| {
        f(o);
        J::Null
    });
    if r.get("outcome").is_some() {
        o.panicked(&r);
    }
    o.pfx = "";
}

/// Offsets / indices worth trying against a section of `len` bytes.
fn probes(rng: &mut Rng, len: usize, n: usize) -> Vec<usize> {
    let mut v = vec![0usize, 1, len / 2, len.saturating_sub(1), len, len + 1, usize::MAX, usize::MAX / 2 + 1, 0xffff_ffff, 0x7fff_ffff];
    for _ in 0..n {
        v.push(rng.below(len as u64 + 2) as usize);
    }
    v
}

fn encodings() -> Vec<Encoding> {
    let mut v = Vec::new();
    for &(version, address_size, format) in &[
        (4u16, 8u8, Format::Dwarf32),
        (5, 8, Format::Dwarf32),
        (2, 4, Format::Dwarf32),
        (5, 4, Format::Dwarf64),
        (3, 2, Format::Dwarf32),
        (5, 1, Format::Dwarf32),
        (4, 8, Format::Dwarf64),
    ] {
        v.push(Encoding { version, address_size, format });
    }
    v
}
