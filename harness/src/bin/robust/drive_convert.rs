// ---------------------------------------------------------------------------
// read -> write converters, followed by writing the result.
// ---------------------------------------------------------------------------
use gimli::write;

fn conv_addr(a: u64) -> Option<write::Address> {
    Some(write::Address::Constant(a))
}

fn drive_convert<S: Src>(o: &mut Obs, src: &S, dwarf: &read::Dwarf<S::R>, cfg: &Cfg, rng: &mut Rng) {
    let endian = src.endian();
    let ilen = dwarf.debug_info.reader().len();
    // Whole-file conversion is skipped for very large inputs (sampled instead via
    // the stepwise API below) to keep a recipe fast.
    group(o, cfg, "convert", |o| {
        if ilen == 0 {
            return;
        }
        if ilen <= 40_000 {
            if let Some(mut w) = c!(o, "write::Dwarf::from", write::Dwarf::from(dwarf, &conv_addr)) {
                let mut sections = write::Sections::new(write::EndianVec::new(endian));
                let _ = c!(o, "write::Dwarf::write", w.write(&mut sections));
            }
        }
    });
    group(o, cfg, "convert_steps", |o| {
        if ilen == 0 {
            return;
        }
        let mut out = write::Dwarf::new();
        let mut sections = write::Sections::new(write::EndianVec::new(endian));
        let mut done_units = 0usize;
        {
            let mut convert = match c!(o, "write::Dwarf::convert", out.convert(dwarf)) {
                Some(x) => x,
                None => return,
            };
            let mut p = Pump::new("ConvertUnitSection::read_unit", false, ilen);
            o.start("ConvertUnitSection::read_unit");
            while p.more() {
                let r = convert.read_unit();
                p.rec(match &r {
                    Ok(Some(_)) => SOME,
                    Ok(None) => NONE,
                    Err(_) => ERR,
                });
                if let Ok(Some((mut unit, root_entry))) = r {
                    done_units += 1;
                    if done_units > cfg.max_units || o.over() {
                        continue;
                    }
                    if rng.chance(1, 2) {
                        let _ = c!(o, "ConvertUnit::convert", unit.convert(root_entry, &conv_addr));
                    } else {
                        let root_id = unit.unit.root();
                        let mut bad = false;
                        for attr in &root_entry.attrs {
                            match c!(o, "ConvertUnit::convert_attribute_value", unit.convert_attribute_value(root_entry.read_unit, attr, &conv_addr)) {
                                Some(v) => unit.unit.get_mut(root_id).set(attr.name(), v),
                                None => bad = true,
                            }
                        }
                        let mut entry = root_entry;
                        let mut n = 0usize;
                        while !bad && n < cfg.max_entries {
                            n += 1;
                            let id = match c!(o, "ConvertUnit::read_entry", unit.read_entry(&mut entry)) {
                                Some(Some(id)) => id,
                                _ => break,
                            };
                            if id.is_none() {
                                continue;
                            }
                            let id = unit.add_entry(id, &entry);
                            for attr in &entry.attrs {
                                if let Some(v) = c!(o, "ConvertUnit::convert_attribute_value", unit.convert_attribute_value(entry.read_unit, attr, &conv_addr)) {
                                    unit.unit.get_mut(id).set(attr.name(), v);
                                }
                            }
                        }
                        if rng.chance(1, 2) {
                            let _ = c!(o, "ConvertUnit::write", unit.write(&mut sections));
                        }
                    }
                    o.start("ConvertUnitSection::read_unit");
                }
            }
            o.done(p);
        }
        let _ = c!(o, "write::Dwarf::write", out.write(&mut sections));
    });
    group(o, cfg, "convert_frames", |o| {
        let r = src.get("debug_frame");
        if r.len() > 0 && r.len() <= 60_000 {
            let sec = read::DebugFrame::from(r);
            if let Some(t) = c!(o, "write::FrameTable::from(debug_frame)", write::FrameTable::from(&sec, &conv_addr)) {
                let _ = v!(o, "write::FrameTable::counts", (t.cie_count(), t.fde_count()));
                let mut w = write::DebugFrame::from(write::EndianVec::new(endian));
                let _ = c!(o, "write::FrameTable::write_debug_frame", t.write_debug_frame(&mut w));
                let mut w = write::EhFrame::from(write::EndianVec::new(endian));
                let _ = c!(o, "write::FrameTable::write_eh_frame", t.write_eh_frame(&mut w));
            }
        }
        let r = src.get("eh_frame");
        if r.len() > 0 && r.len() <= 60_000 {
            let sec = read::EhFrame::from(r);
            if let Some(t) = c!(o, "write::FrameTable::from(eh_frame)", write::FrameTable::from(&sec, &conv_addr)) {
                let mut w = write::EhFrame::from(write::EndianVec::new(endian));
                let _ = c!(o, "write::FrameTable::write_eh_frame", t.write_eh_frame(&mut w));
                let mut w = write::DebugFrame::from(write::EndianVec::new(endian));
                let _ = c!(o, "write::FrameTable::write_debug_frame", t.write_debug_frame(&mut w));
            }
        }
    });
    // a line program converted on its own
    group(o, cfg, "convert_line", |o| {
        let len = dwarf.debug_line.reader().len();
        if len == 0 {
            return;
        }
        if let Some(program) = c!(o, "DebugLine::program", dwarf.debug_line.program(DebugLineOffset(0), 8, None, None)) {
            let mut out = write::Dwarf::new();
            if let Some(mut conv) = c!(o, "write::Dwarf::read_line_program", out.read_line_program(dwarf, program, None, None)) {
                let mut p = Pump::new("ConvertLineProgram::read_row", false, len);
                o.start("ConvertLineProgram::read_row");
                while p.more() {
                    let r = conv.read_row();
                    p.rec(match &r {
                        Ok(Some(_)) => SOME,
                        Ok(None) => NONE,
                        Err(_) => ERR,
                    });
                }
                o.done(p);
            }
        }
        // the whole program in one call (reads the rows and generates the new program)
        if let Some(program) = c!(o, "DebugLine::program", dwarf.debug_line.program(DebugLineOffset(0), 8, None, None)) {
            let mut out = write::Dwarf::new();
            if let Some(conv) = c!(o, "write::Dwarf::read_line_program", out.read_line_program(dwarf, program, None, None)) {
                if let Some((prog, files)) = c!(o, "ConvertLineProgram::convert", conv.convert(&conv_addr)) {
                    let _ = v!(o, "write::LineProgram::accessors", (prog.is_empty(), prog.files().count(), files.len()));
                }
            }
        }
        if let Some(program) = c!(o, "DebugLine::program", dwarf.debug_line.program(DebugLineOffset(0), 8, None, None)) {
            let mut out = write::Dwarf::new();
            if let Some(mut conv) = c!(o, "write::Dwarf::read_line_program", out.read_line_program(dwarf, program, None, None)) {
                let mut p = Pump::new("ConvertLineProgram::read_sequence", false, len);
                o.start("ConvertLineProgram::read_sequence");
                while p.more() {
                    let r = conv.read_sequence();
                    p.rec(match &r {
                        Ok(Some(_)) => SOME,
                        Ok(None) => NONE,
                        Err(_) => ERR,
                    });
                }
                o.done(p);
            }
        }
    });
}
