// ---------------------------------------------------------------------------
// Recipe interpretation.
// ---------------------------------------------------------------------------
fn drive_all<S: Src>(o: &mut Obs, src: &S, cfg: &Cfg) {
    let mut rng = Rng::new(cfg.seed ^ 0xd1ce);
    let mut dwarf = load_dwarf(src, false);
    // a supplementary file (the same sections) and a populated abbreviations cache
    dwarf.set_sup(load_dwarf(src, false));
    group(o, cfg, "units", |o| {
        let strategy = if cfg.seed % 2 == 0 { read::AbbreviationsCacheStrategy::All } else { read::AbbreviationsCacheStrategy::Duplicates };
        if cfg.seed % 3 != 0 {
            let _ = vg!(o, "Dwarf::populate_abbreviations_cache", dwarf.populate_abbreviations_cache(strategy));
        }
    });
    let dwarf = dwarf;
    let lb = (
        src.get("debug_ranges").len().max(src.get("debug_rnglists").len()),
        src.get("debug_loc").len().max(src.get("debug_loclists").len()),
    );
    drive_dwarf(o, &dwarf, cfg, &mut rng, ["units", "unit"], lb);
    drive_sections(o, src, &dwarf, cfg, &mut rng);
    drive_frames(o, src, cfg, &mut rng);
    drive_convert(o, src, &dwarf, cfg, &mut rng);
}

thread_local! {
    static FIELD_CACHE: RefCell<BTreeMap<String, Rc<Fields>>> = RefCell::new(BTreeMap::new());
    static OPS_CACHE: RefCell<(String, u64)> = RefCell::new((String::new(), 0));
}

fn cfg_of(case: &J, addrs: [u64; 3], nbytes: usize) -> Cfg {
    let big = nbytes > 60_000;
    let mut addrs = addrs;
    if let Some(a) = case["addrs"].as_array() {
        for i in 0..3 {
            if let Some(x) = a.get(i).and_then(|x| x.as_u64()) {
                addrs[i] = x;
            }
        }
    }
    Cfg {
        seed: case["seed"].as_u64().unwrap_or(1),
        sample: case["seed"].as_u64().unwrap_or(1) % (if big { 2 } else { 4 }),
        only: case["only"].as_array().map(|a| a.iter().filter_map(|x| x.as_str().map(|s| s.to_string())).collect()),
        max_units: case["max_units"].as_u64().map(|x| x as usize).unwrap_or(if big { 2 } else { 6 }),
        max_entries: case["max_entries"].as_u64().map(|x| x as usize).unwrap_or(if big { 60 } else { 400 }),
        addrs,
    }
}

fn new_obs(case: &J, slack: u64, nbytes: usize) -> Obs {
    let mut o = Obs::default();
    o.budget = case["budget"].as_u64().unwrap_or(if nbytes > 60_000 { 8_000 } else { 30_000 });
    o.slack = slack;
    o
}

/// Fields (offset, width) read by the parsers in a clean traced run.
fn discover_fields(secs: &Secs, endian: RunTimeEndian, cfg: &Cfg, case: &J) -> Fields {
    let src = TraceSrc { secs, endian, shared: None, per: RefCell::new(BTreeMap::new()) };
    let mut o = new_obs(case, 0, secs.values().map(|v| v.len()).sum());
    drive_all(&mut o, &src, cfg);
    let mut f = Fields::new();
    for (name, log) in src.per.borrow().iter() {
        let mut v: Vec<(usize, usize)> = Vec::new();
        for e in &log.borrow().events {
            match e.prim {
                "read" | "read_address" | "read_offset" | "read_sized_offset" if e.n >= 1 && e.n <= 8 => v.push((e.off, e.n)),
                _ => {}
            }
        }
        v.sort();
        v.dedup();
        f.insert(name.clone(), v);
    }
    f
}

fn replay(case: &J) -> J {
    let started = std::time::Instant::now();
    let (mut secs, addrs) = match load_base(case) {
        Some(x) => x,
        None => return json!({"skipped": true}),
    };
    let be = case["endian"].as_str() == Some("be");
    let endian = if be { RunTimeEndian::Big } else { RunTimeEndian::Little };
    let nbytes: usize = secs.values().map(|v| v.len()).sum();
    let cfg = cfg_of(case, addrs, nbytes);
    let mut mrng = Rng::new(cfg.seed);
    let fvar = cfg.sample;
    let base_key = format!("{}|{}|{}|{}|{}", case["base"], case["gseed"], case["sections"], be, fvar);
    let applied = {
        let clean = secs.clone();
        let fields = || -> Rc<Fields> {
            FIELD_CACHE.with(|c| {
                let mut c = c.borrow_mut();
                if c.len() > 48 {
                    c.clear();
                }
                c.entry(base_key.clone())
                    .or_insert_with(|| {
                        let mut fcfg = cfg_of(case, addrs, nbytes);
                        fcfg.seed = fvar;
                        fcfg.sample = fvar;
                        Rc::new(discover_fields(&clean, endian, &fcfg, case))
                    })
                    .clone()
            })
        };
        apply_mutations(case, &mut secs, &mut mrng, &fields, be)
    };
    let lens: Map<String, J> = secs.iter().map(|(k, v)| (k.clone(), json!(v.len()))).collect();
    // variants: the section `sec` extended by each tail in turn (exhaustive short inputs)
    let tails: Vec<Vec<u8>> = match case["tails"]["tails"].as_array() {
        Some(a) => a.iter().map(bytes_of).collect(),
        None => vec![Vec::new()],
    };
    let tsec = case["tails"]["sec"].as_str().unwrap_or("").to_string();
    let faulty = case["reader"].as_str() == Some("faulty");
    let mut o = new_obs(case, if faulty && !case["fail_at"].is_null() { 1 } else { 0 }, nbytes);
    let mut ops = J::Null;
    let mut k_eff = J::Null;
    let mut variants = 0u64;
    for tail in &tails {
        let mut vsecs;
        let use_secs: &Secs = if tsec.is_empty() {
            &secs
        } else {
            vsecs = secs.clone();
            let v = vsecs.entry(tsec.clone()).or_default();
            match case["tails"]["at"].as_u64() {
                // sweep: the variant bytes overwrite the section at a fixed position
                Some(at) => {
                    for (i, b) in tail.iter().enumerate() {
                        if at as usize + i < v.len() {
                            v[at as usize + i] = *b;
                        }
                    }
                }
                None => v.extend_from_slice(tail),
            }
            // length fields of the enclosing container: value = add + len(tail)
            if let Some(ps) = case["tails"]["patch"].as_array() {
                for p in ps {
                    let at = p["at"].as_u64().unwrap_or(0) as usize;
                    let w = p["width"].as_u64().unwrap_or(4) as usize;
                    let val = p["add"].as_u64().unwrap_or(0) + tail.len() as u64;
                    let le = val.to_le_bytes();
                    for i in 0..w {
                        if at + i < v.len() {
                            v[at + i] = if be { le[w - 1 - i] } else { le[i] };
                        }
                    }
                }
            }
            o.variant = bytes_json(tail);
            &vsecs
        };
        variants += 1;
        if !faulty {
            let src = SliceSrc { secs: use_secs, endian };
            drive_all(&mut o, &src, &cfg);
        } else {
            // count the operations of a clean run (cached for consecutive recipes on the same input)
            let key = format!("{}|{}|{}|{}|{}", case["base"], case["gseed"], case["sections"], case["mut"], json!([be, cfg.seed, tail]));
            let cached = OPS_CACHE.with(|c| {
                let c = c.borrow();
                if c.0 == key { Some(c.1) } else { None }
            });
            let fail_at = case["fail_at"].as_u64();
            let n = match (cached, fail_at) {
                (Some(n), Some(_)) => n,
                _ => {
                    let log = Rc::new(RefCell::new(Log { events: Vec::new(), ops: 0, fail_at: None, keep: false }));
                    let src = TraceSrc { secs: use_secs, endian, shared: Some(log.clone()), per: RefCell::new(BTreeMap::new()) };
                    let mut oc = new_obs(case, 0, nbytes);
                    oc.variant = o.variant.clone();
                    drive_all(if fail_at.is_none() { &mut o } else { &mut oc }, &src, &cfg);
                    o.abnormal.extend(oc.abnormal.into_iter());
                    let n = log.borrow().ops as u64;
                    OPS_CACHE.with(|c| *c.borrow_mut() = (key, n));
                    n
                }
            };
            ops = json!(n);
            if let Some(k) = fail_at {
                let k = if n == 0 { 0 } else { k % n };
                k_eff = json!(k);
                let log = Rc::new(RefCell::new(Log { events: Vec::new(), ops: 0, fail_at: Some(k as usize), keep: false }));
                let src = TraceSrc { secs: use_secs, endian, shared: Some(log), per: RefCell::new(BTreeMap::new()) };
                drive_all(&mut o, &src, &cfg);
            }
        }
    }
    let mut out = o.to_json();
    out["lens"] = J::Object(lens);
    out["applied"] = J::Array(applied);
    out["ops"] = ops;
    out["k"] = k_eff;
    out["variants"] = json!(variants);
    out["us"] = json!(started.elapsed().as_micros() as u64);
    out
}

fn record(_out: &str, _a: &Args) {
    eprintln!("gvh-robust has no record mode: observations come from `replay` of recipes");
    std::process::exit(2);
}

fn main() {
    main_with(replay, record);
}
