//! C16 driver: range / location lists through the writer and back.
//!
//! `replay`: builds a `write::Unit` whose child DIEs reference the given lists
//! through DW_AT_ranges / DW_AT_location, writes it with `write::Dwarf` into
//! `Sections<EndianVec>`, reads the sections back with `read::Dwarf` and reports,
//! per list, the id class, the offset found in the attribute and the resolved
//! ranges / (range, expression bytes) pairs, plus the emitted list sections.
//! `record`: the same on seeded random tables, one event per unit for
//! spec/ListWriterTrace.tla.  No expectations live here.
use gimli::write::{
    Address, AttributeValue, Dwarf, EndianVec, Expression, LineProgram, Location, LocationList,
    Range, RangeList, Sections, Unit,
};
use gimli::{Encoding, EndianSlice, Format, RunTimeEndian, SectionId};
use gvh::*;
use serde_json::{json, Value};

fn cv(v: u64) -> Value {
    if v < (1u64 << 31) {
        json!(v)
    } else {
        bv(v, 8)
    }
}
fn uncv(v: &Value) -> u64 {
    if v.is_array() {
        unbv(v)
    } else {
        v.as_u64().unwrap_or(0)
    }
}

#[derive(Clone)]
struct Ent {
    k: String,
    a: u64,
    b: u64,
    d: Vec<u8>,
    /// the expression ends with a reference to a DIE: (op, target: 0 root, i the i-th child)
    r: Option<(String, usize)>,
}
#[derive(Clone)]
struct LSpec {
    loc: bool,
    ents: Vec<Ent>,
}

fn lists_of(v: &Value) -> Vec<LSpec> {
    v.as_array()
        .map(|a| {
            a.iter()
                .map(|l| LSpec {
                    loc: l["fam"].as_str() == Some("loc"),
                    ents: l["L"]
                        .as_array()
                        .map(|es| {
                            es.iter()
                                .map(|e| Ent {
                                    k: e["k"].as_str().unwrap_or("").to_string(),
                                    a: uncv(&e["a"]),
                                    b: uncv(&e["b"]),
                                    d: bytes_of(&e["d"]),
                                    r: e.get("r").filter(|r| r.is_object()).map(|r| {
                                        (r["op"].as_str().unwrap_or("").to_string(), r["tgt"].as_u64().unwrap_or(0) as usize)
                                    }),
                                })
                                .collect()
                        })
                        .unwrap_or_default(),
                })
                .collect()
        })
        .unwrap_or_default()
}

fn mk_range(e: &Ent) -> Option<Range> {
    Some(match e.k.as_str() {
        "base" => Range::BaseAddress {
            address: Address::Constant(e.a),
        },
        "opair" => Range::OffsetPair { begin: e.a, end: e.b },
        "se" => Range::StartEnd {
            begin: Address::Constant(e.a),
            end: Address::Constant(e.b),
        },
        "slen" => Range::StartLength {
            begin: Address::Constant(e.a),
            length: e.b,
        },
        _ => return None,
    })
}
fn mk_loc(e: &Ent, uid: gimli::write::UnitId, dies: &[gimli::write::UnitEntryId]) -> Option<Location> {
    let mut data = Expression::raw(e.d.clone());
    if let Some((op, tgt)) = &e.r {
        let id = *dies.get(*tgt)?;
        match op.as_str() {
            "call4" => data.op_call(id),
            "call_ref" => data.op_call_ref(gimli::write::DebugInfoRef::Entry(uid, id)),
            _ => return None,
        }
    }
    Some(match e.k.as_str() {
        "base" => Location::BaseAddress {
            address: Address::Constant(e.a),
        },
        "opair" => Location::OffsetPair {
            begin: e.a,
            end: e.b,
            data,
        },
        "se" => Location::StartEnd {
            begin: Address::Constant(e.a),
            end: Address::Constant(e.b),
            data,
        },
        "slen" => Location::StartLength {
            begin: Address::Constant(e.a),
            length: e.b,
            data,
        },
        "defloc" => Location::DefaultLocation { data },
        _ => return None,
    })
}

fn f(v: u64, wide: bool) -> Value {
    if wide {
        bv(v, 8)
    } else {
        cv(v)
    }
}

/// Build, write, read back.  `wide`: values as 8-byte tuples (trace events).
fn run_unit(ver: u16, fmt: Format, asz: u8, le: bool, lp: Option<u64>, lists: &[LSpec], wide: bool) -> Value {
    let endian = if le { RunTimeEndian::Little } else { RunTimeEndian::Big };
    let encoding = Encoding {
        format: fmt,
        version: ver,
        address_size: asz,
    };
    let mut dwarf = Dwarf::new();
    let uid = dwarf.units.add(Unit::new(encoding, LineProgram::none()));
    let unit = dwarf.units.get_mut(uid);
    let root = unit.root();
    if let Some(v) = lp {
        unit.get_mut(root)
            .set(gimli::DW_AT_low_pc, AttributeValue::Address(Address::Constant(v)));
    }
    // ids: the position of the first list (of the same table) that got an equal id
    let mut rids: Vec<gimli::write::RangeListId> = vec![];
    let mut lids: Vec<gimli::write::LocationListId> = vec![];
    let mut classes: Vec<Value> = vec![];
    let mut kinds: Vec<bool> = vec![];
    // all DIEs first, so that expressions can refer to any of them (also forward)
    let mut dies = vec![root];
    for _ in lists {
        dies.push(unit.add(root, gimli::DW_TAG_subprogram));
    }
    for (li, l) in lists.iter().enumerate() {
        let child = dies[li + 1];
        if l.loc {
            let v: Option<Vec<Location>> = l.ents.iter().map(|e| mk_loc(e, uid, &dies)).collect();
            let Some(v) = v else { return json!({"t":"bad-entry"}) };
            let id = unit.locations.add(LocationList(v));
            let first = lids.iter().position(|x| *x == id).unwrap_or(lids.len());
            lids.push(id);
            classes.push(json!(first + 1));
            unit.get_mut(child)
                .set(gimli::DW_AT_location, AttributeValue::LocationListRef(id));
        } else {
            let v: Option<Vec<Range>> = l.ents.iter().map(mk_range).collect();
            let Some(v) = v else { return json!({"t":"bad-entry"}) };
            let id = unit.ranges.add(RangeList(v));
            let first = rids.iter().position(|x| *x == id).unwrap_or(rids.len());
            rids.push(id);
            classes.push(json!(first + 1));
            unit.get_mut(child)
                .set(gimli::DW_AT_ranges, AttributeValue::RangeListRef(id));
        }
        kinds.push(l.loc);
    }
    let mut sections = Sections::new(EndianVec::new(endian));
    if let Err(e) = dwarf.write(&mut sections) {
        return json!({"t":"err","err":format!("{:?}", e).split('(').next().unwrap_or("").to_string(),"classes":classes});
    }
    let sec = |id: SectionId| -> Vec<u8> { sections.get(id).map(|w| w.slice().to_vec()).unwrap_or_default() };
    let store: Vec<(SectionId, Vec<u8>)> = [
        SectionId::DebugAbbrev,
        SectionId::DebugInfo,
        SectionId::DebugRanges,
        SectionId::DebugRngLists,
        SectionId::DebugLoc,
        SectionId::DebugLocLists,
        SectionId::DebugStr,
        SectionId::DebugLineStr,
        SectionId::DebugLine,
    ]
    .iter()
    .map(|id| (*id, sec(*id)))
    .collect();
    let empty: Vec<u8> = vec![];
    let rd = gimli::Dwarf::load(|id| -> Result<EndianSlice<RunTimeEndian>, ()> {
        let b = store.iter().find(|(i, _)| *i == id).map(|(_, b)| b).unwrap_or(&empty);
        Ok(EndianSlice::new(b, endian))
    })
    .unwrap();
    let header = match rd.units().next() {
        Ok(Some(h)) => h,
        _ => return json!({"t":"read-err","stage":"header"}),
    };
    let runit = match rd.unit(header) {
        Ok(u) => u,
        Err(e) => return json!({"t":"read-err","stage":"unit","err":err_name(&e)}),
    };
    let mut out: Vec<Value> = vec![];
    let mut dieoffs: Vec<u64> = vec![];
    let mut cursor = runit.entries();
    let mut first = true;
    let cap = 64;
    loop {
        let e = match cursor.next_dfs() {
            Ok(Some(e)) => e.clone(),
            Ok(None) => break,
            Err(x) => return json!({"t":"read-err","stage":"entries","err":err_name(&x)}),
        };
        dieoffs.push(e.offset().0 as u64);
        if first {
            first = false;
            continue;
        }
        let mut item = json!({"t":"no-attr"});
        for a in e.attrs() {
            if a.name() == gimli::DW_AT_ranges {
                let off = rd.attr_ranges_offset(&runit, a.value()).ok().flatten().map(|o| o.0 as u64);
                let mut items = vec![];
                match rd.attr_ranges(&runit, a.value()) {
                    Ok(Some(mut it)) => {
                        for _ in 0..cap {
                            match it.next() {
                                Ok(Some(r)) => items.push(json!({"t":"some","begin":f(r.begin,wide),"end":f(r.end,wide),"d":[]})),
                                Ok(None) => break,
                                Err(x) => items.push(json!({"t":"err","err":err_name(&x)})),
                            }
                        }
                    }
                    Ok(None) => items.push(json!({"t":"err","err":"NotAList"})),
                    Err(x) => items.push(json!({"t":"err","err":err_name(&x)})),
                }
                item = json!({"t":"rng","off":off,"items":items});
            } else if a.name() == gimli::DW_AT_location {
                let off = rd.attr_locations_offset(&runit, a.value()).ok().flatten().map(|o| o.0 as u64);
                let mut items = vec![];
                match rd.attr_locations(&runit, a.value()) {
                    Ok(Some(mut it)) => {
                        for _ in 0..cap {
                            match it.next() {
                                Ok(Some(r)) => items.push(json!({"t":"some","begin":f(r.range.begin,wide),"end":f(r.range.end,wide),
                                                                  "d":bytes_json(r.data.0.slice())})),
                                Ok(None) => break,
                                Err(x) => items.push(json!({"t":"err","err":err_name(&x)})),
                            }
                        }
                    }
                    Ok(None) => items.push(json!({"t":"err","err":"NotAList"})),
                    Err(x) => items.push(json!({"t":"err","err":err_name(&x)})),
                }
                item = json!({"t":"loc","off":off,"items":items});
            }
        }
        out.push(item);
    }
    let (rs, ls) = if ver <= 4 {
        (sec(SectionId::DebugRanges), sec(SectionId::DebugLoc))
    } else {
        (sec(SectionId::DebugRngLists), sec(SectionId::DebugLocLists))
    };
    // the section of the other version must stay empty
    let other = if ver <= 4 {
        sec(SectionId::DebugRngLists).len() + sec(SectionId::DebugLocLists).len()
    } else {
        sec(SectionId::DebugRanges).len() + sec(SectionId::DebugLoc).len()
    };
    json!({"t":"ok","classes":classes,"lists":out,"rsec":bytes_json(&rs),"lsec":bytes_json(&ls),"other":other,"dieoffs":dieoffs,
           "low_pc":f(runit.low_pc,wide)})
}

fn replay(case: &Value) -> Value {
    let asz = case["asz"].as_u64().unwrap_or(8) as u8;
    let lp = case["lp"].as_array().and_then(|a| a.first()).map(uncv);
    let lists = lists_of(&case["lists"]);
    let mut runs: Vec<Value> = vec![];
    for ver in case["vers"].as_array().cloned().unwrap_or_default() {
        let ver = ver.as_u64().unwrap_or(0) as u16;
        for (fmt, fv) in [(Format::Dwarf32, 32), (Format::Dwarf64, 64)] {
            let o = guarded(|| run_unit(ver, fmt, asz, true, lp, &lists, false));
            runs.push(json!({"ver":ver,"fmt":fv,"obs":o}));
        }
    }
    json!({"runs":runs})
}

fn record(out: &str, a: &Args) {
    let mut rng = Rng::new(a.num("--seed", 1));
    let n = a.num("--n", 200);
    let mut evs: Vec<Value> = vec![];
    while (evs.len() as u64) < n {
        let asz = *rng.pick(&[4u8, 8]);
        let m: u64 = if asz == 8 { u64::MAX } else { 0xffff_ffff };
        let ver = *rng.pick(&[2u16, 3, 4, 5, 5]);
        let fmt = if rng.chance(1, 3) { Format::Dwarf64 } else { Format::Dwarf32 };
        let le = !rng.chance(1, 4);
        let lp = match rng.below(4) {
            0 => None,
            1 => Some(0),
            _ => Some(rng.below(0x10_0000) & m),
        };
        let region = rng.boundary64() & m;
        let nl = rng.range(1, 5);
        let mut lists: Vec<LSpec> = vec![];
        // mostly lists that suit the unit (offsets with a base, addresses without), sometimes anything
        let wild = rng.chance(1, 4);
        for _ in 0..nl {
            if !lists.is_empty() && rng.chance(1, 4) {
                let c = lists[rng.below(lists.len() as u64) as usize].clone();
                lists.push(c);
                continue;
            }
            let loc = rng.chance(1, 2);
            let ne = rng.below(9);
            let mut have_base = lp.map(|v| v != 0).unwrap_or(false);
            let mut ents = vec![];
            for _ in 0..ne {
                let addr = |rng: &mut Rng| (if rng.chance(1, 12) { rng.boundary64() } else { region.wrapping_add(rng.below(0x1000)) }) & m;
                let d: Vec<u8> = if loc { (0..rng.below(4)).map(|_| rng.next() as u8).collect() } else { vec![] };
                let r: Option<(String, usize)> = if loc && rng.chance(1, 4) {
                    Some(((if rng.chance(1, 2) { "call4" } else { "call_ref" }).to_string(), rng.below(nl + 1) as usize))
                } else {
                    None
                };
                let k = if wild {
                    rng.below(5)
                } else if ver >= 5 {
                    rng.below(5)
                } else if have_base {
                    *rng.pick(&[0u64, 1, 1, 1])
                } else {
                    *rng.pick(&[0u64, 2, 2, 3, 3])
                };
                let e = match k {
                    0 => {
                        have_base = true;
                        Ent { k: "base".into(), a: addr(&mut rng), b: 0, d: vec![], r: None }
                    }
                    1 => {
                        let b = rng.below(0x800);
                        let len = if wild && rng.chance(1, 6) { 0 } else { 1 + rng.below(0x100) };
                        Ent { k: "opair".into(), a: b, b: b + len, d, r }
                    }
                    2 => {
                        let b = addr(&mut rng);
                        let len = if wild && rng.chance(1, 6) { 0 } else { 1 + rng.below(0x100) };
                        Ent { k: "se".into(), a: b, b: b.wrapping_add(len) & m, d, r }
                    }
                    3 => {
                        // sometimes right below the top of the address space, so that begin + length
                        // just fits, leaves the address space, or leaves u64
                        let b = if rng.chance(1, 8) { m - rng.below(0x100) } else { addr(&mut rng) };
                        let len = if wild && rng.chance(1, 6) { 0 } else { 1 + rng.below(0x100) };
                        Ent { k: "slen".into(), a: b, b: len, d, r }
                    }
                    _ => {
                        if loc {
                            Ent { k: "defloc".into(), a: 0, b: 0, d, r }
                        } else {
                            let b = rng.below(0x800);
                            Ent { k: "opair".into(), a: b, b: b + 1 + rng.below(0x40), d, r: None }
                        }
                    }
                };
                ents.push(e);
            }
            lists.push(LSpec { loc, ents });
        }
        let o = guarded(|| run_unit(ver, fmt, asz, le, lp, &lists, true));
        let lj: Vec<Value> = lists
            .iter()
            .map(|l| {
                json!({"fam": if l.loc {"loc"} else {"rng"},
                       "L": l.ents.iter().map(|e| match &e.r {
                           Some((op, tgt)) => json!({"k":e.k,"a":bv(e.a,8),"b":bv(e.b,8),"d":bytes_json(&e.d),"r":{"op":op,"tgt":tgt}}),
                           None => json!({"k":e.k,"a":bv(e.a,8),"b":bv(e.b,8),"d":bytes_json(&e.d)}),
                       }).collect::<Vec<_>>()})
            })
            .collect();
        evs.push(json!({"ev":"Unit","enc":{"ver":ver,"asz":asz,"fmt": if fmt == Format::Dwarf64 {64} else {32},"le":le},
                        "lp": match lp { Some(v) => json!({"some":true,"v":bv(v,8)}), None => json!({"some":false,"v":bv(0,8)}) },
                        "lists":lj,"obs":o}));
    }
    write_lines(out, &evs);
}

fn main() {
    main_with(replay, record);
}
