//! C15 driver: gimli::write::Expression.
//!
//! A case is a list of abstract builder calls plus an encoding and a context
//! ("attr": DW_AT_location exprloc of an entry, "loclist": a location list entry,
//! "cfi": a DW_CFA_def_cfa_expression).  The harness performs the calls, writes the
//! DWARF with gimli's writer, reads it back with gimli's reader and reports the
//! emitted expression bytes, the decoded operations with entry references resolved
//! to the identity names of the entries they point to, the order of entries read
//! back (a wrong size prediction garbles what follows) and, for reference-free
//! programs, the result of evaluating the emitted bytes.
use gimli::write::{self, Address, AttributeValue, EndianVec, Expression, LineProgram, Sections, UnitEntryId};
use gimli::{constants as c, Encoding, EndianSlice, Format, Reader, Register, RunTimeEndian};
use gvh::opjson::op_json;
use gvh::*;
use serde_json::{json, Value as J};
use std::collections::BTreeMap;

struct Ents {
    b1: UnitEntryId,
    t1: UnitEntryId,
    t2: UnitEntryId,
    unit: write::UnitId,
    x1: (write::UnitId, UnitEntryId),
    x2: (write::UnitId, UnitEntryId),
}

fn ent(e: &Ents, name: &str) -> Option<UnitEntryId> {
    match name {
        "B1" => Some(e.b1),
        "T1" => Some(e.t1),
        "T2" => Some(e.t2),
        _ => None,
    }
}
fn info_ref(e: &Ents, name: &str) -> write::DebugInfoRef {
    match name {
        "X1" => write::DebugInfoRef::Entry(e.x1.0, e.x1.1),
        "X2" => write::DebugInfoRef::Entry(e.x2.0, e.x2.1),
        n => write::DebugInfoRef::Entry(e.unit, ent(e, n).unwrap_or(e.t1)),
    }
}

fn build(calls: &[J], e: &Ents) -> Expression {
    let mut x = Expression::new();
    let mut branches: Vec<(usize, usize)> = Vec::new();
    for k in calls {
        let s = |f: &str| k[f].as_str().unwrap_or("");
        let u = |f: &str| unbv(&k[f]);
        let n = |f: &str| k[f].as_u64().unwrap_or(0);
        match s("c") {
            "op" => x.op(c::DwOp(n("code") as u8)),
            "addr" => x.op_addr(Address::Constant(u("v"))),
            "constu" => x.op_constu(u("v")),
            "consts" => x.op_consts(u("v") as i64),
            "const_type" => x.op_const_type(ent(e, s("base")).unwrap(), bytes_of(&k["data"]).into_boxed_slice()),
            "fbreg" => x.op_fbreg(u("off") as i64),
            "breg" => x.op_breg(Register(n("reg") as u16), u("off") as i64),
            "regval_type" => x.op_regval_type(Register(n("reg") as u16), ent(e, s("base")).unwrap()),
            "pick" => x.op_pick(n("index") as u8),
            "deref" => {
                if k["space"].as_bool().unwrap_or(false) {
                    x.op_xderef()
                } else {
                    x.op_deref()
                }
            }
            "deref_size" => {
                if k["space"].as_bool().unwrap_or(false) {
                    x.op_xderef_size(n("size") as u8)
                } else {
                    x.op_deref_size(n("size") as u8)
                }
            }
            "deref_type" => {
                if k["space"].as_bool().unwrap_or(false) {
                    x.op_xderef_type(n("size") as u8, ent(e, s("base")).unwrap())
                } else {
                    x.op_deref_type(n("size") as u8, ent(e, s("base")).unwrap())
                }
            }
            "plus_uconst" => x.op_plus_uconst(u("v")),
            "skip" => {
                let i = x.op_skip();
                branches.push((i, n("target") as usize));
            }
            "bra" => {
                let i = x.op_bra();
                branches.push((i, n("target") as usize));
            }
            "call" => x.op_call(ent(e, s("ent")).unwrap()),
            "call_ref" => x.op_call_ref(info_ref(e, s("ent"))),
            "variable_value" => x.op_variable_value(info_ref(e, s("ent"))),
            "convert" => x.op_convert(ent(e, s("base"))),
            "reinterpret" => x.op_reinterpret(ent(e, s("base"))),
            "entry_value" => {
                let sub = build(k["sub"].as_array().map(|a| &a[..]).unwrap_or(&[]), e);
                x.op_entry_value(sub)
            }
            "reg" => x.op_reg(Register(n("reg") as u16)),
            "implicit_value" => x.op_implicit_value(bytes_of(&k["data"]).into_boxed_slice()),
            "implicit_pointer" => x.op_implicit_pointer(info_ref(e, s("ent")), u("off") as i64),
            "piece" => x.op_piece(u("n")),
            "bit_piece" => x.op_bit_piece(u("bits"), u("bitoff")),
            "parameter_ref" => x.op_gnu_parameter_ref(ent(e, s("ent")).unwrap()),
            "wasm" => {
                let i = unbv(&k["index"]) as u32;
                match s("which") {
                    "local" => x.op_wasm_local(i),
                    "global" => x.op_wasm_global(i),
                    _ => x.op_wasm_stack(i),
                }
            }
            _ => {}
        }
    }
    for (i, t) in branches {
        x.set_target(i, t);
    }
    x
}

fn named(unit: &mut write::Unit, parent: UnitEntryId, tag: c::DwTag, name: &str) -> UnitEntryId {
    let id = unit.add(parent, tag);
    unit.get_mut(id)
        .set(c::DW_AT_name, AttributeValue::String(name.as_bytes().to_vec()));
    id
}

type Rd<'a> = EndianSlice<'a, RunTimeEndian>;

/// name -> (unit offset, debug_info offset) for every named entry; and entry order per unit
fn index_names<'a>(dwarf: &gimli::Dwarf<Rd<'a>>) -> gimli::Result<(BTreeMap<String, (u64, u64)>, Vec<Vec<String>>)> {
    let mut m = BTreeMap::new();
    let mut order = Vec::new();
    let mut units = dwarf.units();
    while let Some(h) = units.next()? {
        let unit = dwarf.unit(h)?;
        let base = match h.offset() {
            gimli::UnitSectionOffset(o) => o as u64,
        };
        let mut names = Vec::new();
        let mut cur = unit.entries();
        while let Some(e) = cur.next_dfs()? {
            if let Some(a) = e.attr_value(c::DW_AT_name) {
                if let Ok(s) = dwarf.attr_string(&unit, a) {
                    let n = String::from_utf8_lossy(s.slice()).to_string();
                    m.insert(n.clone(), (e.offset().0 as u64, base + e.offset().0 as u64));
                    names.push(n);
                }
            }
        }
        order.push(names);
    }
    Ok((m, order))
}

fn resolve(op: &mut J, names: &BTreeMap<String, (u64, u64)>) {
    let find = |off: u64, info: bool| -> J {
        for (n, (u, i)) in names {
            if (info && *i == off) || (!info && *u == off) {
                return json!(n);
            }
        }
        json!(format!("?@{}", off))
    };
    let k = op["k"].as_str().unwrap_or("").to_string();
    match k.as_str() {
        "typed_literal" | "convert" | "reinterpret" | "deref" | "breg" => {
            let b = unbv(&op["base"]);
            if b != 0 {
                op["base"] = find(b, false);
            }
        }
        "call" => {
            let info = op["ref"] == "info";
            op["off"] = find(unbv(&op["off"]), info);
        }
        "param_ref" => op["off"] = find(unbv(&op["off"]), false),
        "implicit_pointer" => op["value"] = find(unbv(&op["value"]), true),
        "variable_value" => op["off"] = find(unbv(&op["off"]), true),
        _ => {}
    }
}

fn decode_ops(bytes: &[u8], enc: Encoding, names: &BTreeMap<String, (u64, u64)>) -> J {
    let expr = gimli::Expression(EndianSlice::new(bytes, RunTimeEndian::Little));
    let mut it = expr.clone().operations(enc);
    let mut out = Vec::new();
    let mut offs = Vec::new();
    loop {
        let off = it.offset_from(&expr);
        match it.next() {
            Ok(Some(op)) => {
                let mut j = op_json(&op);
                if let gimli::Operation::EntryValue { expression } = &op {
                    j["sub"] = decode_ops(expression.slice(), enc, names);
                    j.as_object_mut().unwrap().remove("data");
                }
                resolve(&mut j, names);
                offs.push((off as i64, 0i64));
                out.push(j);
            }
            Ok(None) => break,
            Err(e) => {
                out.push(json!({"err": err_name(&e)}));
                break;
            }
        }
        let n = offs.len();
        offs[n - 1].1 = it.offset_from(&expr) as i64;
    }
    // branch displacement -> operation index
    let total = bytes.len() as i64;
    for i in 0..out.len() {
        let k = out[i]["k"].as_str().unwrap_or("").to_string();
        if k == "skip" || k == "bra" {
            let t = offs[i].1 + out[i]["target"].as_i64().unwrap_or(0);
            let idx = if t == total {
                out.len() as i64
            } else {
                offs.iter().position(|o| o.0 == t).map(|p| p as i64).unwrap_or(-1)
            };
            out[i]["target"] = json!(idx);
        }
    }
    J::Array(out)
}

fn evaluate(bytes: &[u8], enc: Encoding) -> J {
    let mut ev = gimli::Evaluation::new(EndianSlice::new(bytes, RunTimeEndian::Little), enc);
    ev.set_max_iterations(20);
    match ev.evaluate() {
        Ok(gimli::EvaluationResult::Complete) => {
            let v = ev.value_result();
            let pieces = ev.as_result().len();
            match v {
                Some(gimli::Value::Generic(x)) => {
                    let w = enc.address_size as usize;
                    json!({"o":"complete","pieces":pieces,"value":bv(x, w)})
                }
                _ => json!({"o":"complete","pieces":pieces,"value":[]}),
            }
        }
        Ok(_) => json!({"o":"requires"}),
        Err(e) => json!({"o":"error","kind":err_name(&e)}),
    }
}

fn run(case: &J) -> J {
    let enc = Encoding {
        address_size: case["asz"].as_u64().unwrap_or(8) as u8,
        format: if case["fmt"].as_u64() == Some(8) { Format::Dwarf64 } else { Format::Dwarf32 },
        version: case["ver"].as_u64().unwrap_or(5) as u16,
    };
    let ctx = case["ctx"].as_str().unwrap_or("attr");
    // .debug_frame has CIE versions 1, 3 and 4 only
    let enc = if ctx == "cfi" {
        Encoding { version: match enc.version { 2 => 1, 5 => 4, v => v }, ..enc }
    } else {
        enc
    };
    let calls: Vec<J> = case["calls"].as_array().cloned().unwrap_or_default();

    let mut dwarf = write::Dwarf::new();
    // unit 0 is written before, unit 2 after the unit holding the expression
    let u0 = dwarf.units.add(write::Unit::new(enc, LineProgram::none()));
    let u1 = dwarf.units.add(write::Unit::new(enc, LineProgram::none()));
    let u2 = dwarf.units.add(write::Unit::new(enc, LineProgram::none()));
    let x1 = {
        let u = dwarf.units.get_mut(u0);
        let r = u.root();
        named(u, r, c::DW_TAG_variable, "X1")
    };
    let x2 = {
        let u = dwarf.units.get_mut(u2);
        let r = u.root();
        named(u, r, c::DW_TAG_variable, "X2")
    };
    let (t1, rr, t2, b1) = {
        let u = dwarf.units.get_mut(u1);
        let r = u.root();
        let t1 = named(u, r, c::DW_TAG_variable, "T1");
        let rr = named(u, r, c::DW_TAG_variable, "R");
        let t2 = named(u, r, c::DW_TAG_variable, "T2");
        // created last, but base types among the root's children are emitted first
        let b1 = named(u, r, c::DW_TAG_base_type, "B1");
        u.get_mut(b1).set(c::DW_AT_byte_size, AttributeValue::Udata(4));
        u.get_mut(b1).set(c::DW_AT_encoding, AttributeValue::Encoding(c::DW_ATE_unsigned));
        (t1, rr, t2, b1)
    };
    let ents = Ents { b1, t1, t2, unit: u1, x1: (u0, x1), x2: (u2, x2) };
    let expr = build(&calls, &ents);

    let mut frame_bytes: Option<Vec<u8>> = None;
    match ctx {
        "attr" => {
            let u = dwarf.units.get_mut(u1);
            u.get_mut(rr).set(c::DW_AT_location, AttributeValue::Exprloc(expr));
            // something after the expression in the same entry: a wrong size shows up here
            u.get_mut(rr).set(c::DW_AT_decl_line, AttributeValue::Udata(77));
        }
        "loclist" => {
            let u = dwarf.units.get_mut(u1);
            let list = write::LocationList(vec![write::Location::StartEnd {
                begin: Address::Constant(0x100),
                end: Address::Constant(0x200),
                data: expr,
            }]);
            let id = u.locations.add(list);
            u.get_mut(rr).set(c::DW_AT_location, AttributeValue::LocationListRef(id));
        }
        _ => {
            let mut ft = write::FrameTable::default();
            let mut cie = write::CommonInformationEntry::new(enc, 1, -8, Register(16));
            cie.add_instruction(write::CallFrameInstruction::Cfa(Register(7), 8));
            let cid = ft.add_cie(cie);
            let mut fde = write::FrameDescriptionEntry::new(Address::Constant(0x1000), 0x100);
            fde.add_instruction(4, write::CallFrameInstruction::CfaExpression(expr));
            fde.add_instruction(8, write::CallFrameInstruction::CfaOffset(24));
            ft.add_fde(cid, fde);
            let mut w = write::DebugFrame::from(EndianVec::new(RunTimeEndian::Little));
            if let Err(e) = ft.write_debug_frame(&mut w) {
                return json!({"ok": false, "err": format!("{:?}", e)});
            }
            frame_bytes = Some(w.0.into_vec());
        }
    }

    if let Some(fb) = frame_bytes {
        // read back the CFA expression and the instruction after it
        let df = gimli::DebugFrame::new(&fb, RunTimeEndian::Little);
        let mut df = df;
        df.set_address_size(enc.address_size);
        let bases = gimli::BaseAddresses::default();
        use gimli::UnwindSection;
        let mut entries = df.entries(&bases);
        let mut bytes: Option<Vec<u8>> = None;
        let mut after = Vec::new();
        loop {
            match entries.next() {
                Ok(Some(gimli::CieOrFde::Fde(p))) => {
                    let fde = match p.parse(gimli::DebugFrame::cie_from_offset) {
                        Ok(f) => f,
                        Err(e) => return json!({"ok":true,"readback":"err","err":err_name(&e)}),
                    };
                    let mut ins = fde.instructions(&df, &bases);
                    loop {
                        match ins.next() {
                            Ok(Some(gimli::CallFrameInstruction::DefCfaExpression { expression })) => {
                                match expression.get(&df) {
                                    Ok(x) => bytes = Some(x.0.slice().to_vec()),
                                    Err(e) => return json!({"ok":true,"readback":"err","err":err_name(&e)}),
                                }
                            }
                            Ok(Some(i)) => after.push(format!("{:?}", i).split(' ').next().unwrap_or("").to_string()),
                            Ok(None) => break,
                            Err(e) => {
                                after.push(format!("err:{}", err_name(&e)));
                                break;
                            }
                        }
                    }
                }
                Ok(Some(_)) => {}
                Ok(None) => break,
                Err(e) => return json!({"ok":true,"readback":"err","err":err_name(&e)}),
            }
        }
        let names = BTreeMap::new();
        return match bytes {
            Some(b) => json!({"ok":true,"bytes":bytes_json(&b),"ops":decode_ops(&b, enc, &names),"after":after,
                              "eval": evaluate(&b, enc)}),
            None => json!({"ok":true,"readback":"missing","after":after}),
        };
    }

    let mut sections = Sections::new(EndianVec::new(RunTimeEndian::Little));
    if let Err(e) = dwarf.write(&mut sections) {
        return json!({"ok": false, "err": format!("{:?}", e)});
    }
    let load = |id: gimli::SectionId| -> Result<Rd, gimli::Error> {
        Ok(EndianSlice::new(
            sections.get(id).map(|s| s.slice()).unwrap_or(&[]),
            RunTimeEndian::Little,
        ))
    };
    let rd = match gimli::Dwarf::load(load) {
        Ok(d) => d,
        Err(e) => return json!({"ok":true,"readback":"err","err":err_name(&e)}),
    };
    let (names, order) = match index_names(&rd) {
        Ok(x) => x,
        Err(e) => return json!({"ok":true,"readback":"err","err":err_name(&e)}),
    };
    // find R and its location
    let mut units = rd.units();
    let mut found: Option<Vec<u8>> = None;
    let mut decl_line: Option<u64> = None;
    while let Ok(Some(h)) = units.next() {
        let unit = match rd.unit(h) {
            Ok(u) => u,
            Err(_) => continue,
        };
        let mut cur = unit.entries();
        while let Ok(Some(e)) = cur.next_dfs() {
            let is_r = e
                .attr_value(c::DW_AT_name)
                .and_then(|a| rd.attr_string(&unit, a).ok())
                .map(|s| s.slice() == b"R")
                .unwrap_or(false);
            if !is_r {
                continue;
            }
            decl_line = e.attr_value(c::DW_AT_decl_line).and_then(|v| v.udata_value());
            match e.attr_value(c::DW_AT_location) {
                Some(gimli::AttributeValue::Exprloc(x)) => found = Some(x.0.slice().to_vec()),
                Some(v) => {
                    if let Ok(Some(mut it)) = rd.attr_locations(&unit, v) {
                        if let Ok(Some(l)) = it.next() {
                            found = Some(l.data.0.slice().to_vec());
                        }
                    }
                }
                None => {}
            }
        }
    }
    match found {
        Some(b) => json!({"ok":true,"bytes":bytes_json(&b),"ops":decode_ops(&b, enc, &names),"order":order,
                          "decl_line":decl_line,"eval": evaluate(&b, enc),
                          "hints": names.iter().map(|(k,v)| (k.clone(), json!({"unit":bv(v.0,8),"info":bv(v.1,8)}))).collect::<serde_json::Map<String,J>>()}),
        None => json!({"ok":true,"readback":"missing","order":order}),
    }
}

fn replay(case: &J) -> J {
    run(case)
}

/// record: random longer call sequences (5-60 calls); one event per expression with
/// the calls, the encoding, the offsets of the named entries (hints) and the bytes.
fn record(out: &str, a: &Args) {
    let mut rng = Rng::new(a.num("--seed", 1));
    let n = a.num("--n", 200);
    let mut evs = Vec::new();
    for _ in 0..n {
        let len = rng.range(3, 40) as usize;
        let mut calls: Vec<J> = Vec::new();
        for i in 0..len {
            let r = &mut rng;
            let v64 = |r: &mut Rng| bv(r.boundary64(), 8);
            let k = match r.below(34) {
                0 => json!({"c":"op","code": *r.pick(&[0x22u8,0x1c,0x1e,0x12,0x13,0x96,0x9f,0x06,0x19])}),
                1 => json!({"c":"addr","v":v64(r)}),
                2 | 3 => json!({"c":"constu","v":v64(r)}),
                4 | 5 => json!({"c":"consts","v":v64(r)}),
                6 => json!({"c":"const_type","base":"B1","data":(0..*r.pick(&[1u64,2,4,8,16])).map(|_| r.below(256)).collect::<Vec<u64>>()}),
                7 => json!({"c":"fbreg","off":v64(r)}),
                8 | 9 => json!({"c":"breg","reg":*r.pick(&[0u64,1,31,32,127,128,255,256,260,287,288,512,4097,65535]),"off":v64(r)}),
                10 => json!({"c":"regval_type","reg":*r.pick(&[0u64,31,32,256,300]),"base":"B1"}),
                11 => json!({"c":"pick","index":*r.pick(&[0u64,1,2,3,255])}),
                12 => json!({"c":"deref","space":r.chance(1,3)}),
                13 => json!({"c":"deref_size","space":r.chance(1,3),"size":r.below(9)}),
                14 => json!({"c":"deref_type","space":r.chance(1,3),"size":r.below(9),"base":"B1"}),
                15 => json!({"c":"plus_uconst","v":v64(r)}),
                16 | 17 => { let t = r.below(len as u64 + 1); let t = if t as usize == i { (t + 1) % (len as u64 + 1) } else { t }; json!({"c":"skip","target":t}) }
                18 | 19 => { let t = r.below(len as u64 + 1); let t = if t as usize == i { (t + 1) % (len as u64 + 1) } else { t }; json!({"c":"bra","target":t}) }
                20 => json!({"c":"call","ent":"T1"}),
                21 => json!({"c":"call_ref","ent":*r.pick(&["T1","T2","X1","X2"])}),
                22 => json!({"c":"convert","base":*r.pick(&["B1","none"])}),
                23 => json!({"c":"reinterpret","base":*r.pick(&["B1","none"])}),
                24 => json!({"c":"entry_value","sub":[{"c":"reg","reg":*r.pick(&[0u64,5,31,32,39,256,270,4096])},{"c":"constu","v":v64(r)}]}),
                25 | 26 => json!({"c":"reg","reg":*r.pick(&[0u64,31,32,255,256,271,287,288,544,1000,4100,65535])}),
                27 => json!({"c":"implicit_value","data":(0..*r.pick(&[0u64,1,3,130,130,20000,40000])).map(|_| r.below(256)).collect::<Vec<u64>>()}),
                28 => json!({"c":"implicit_pointer","ent":*r.pick(&["T1","X1","X2"]),"off":v64(r)}),
                29 => json!({"c":"piece","n":bv(r.boundary64() >> 4, 8)}),
                30 => json!({"c":"bit_piece","bits":v64(r),"bitoff":v64(r)}),
                31 => json!({"c":"parameter_ref","ent":"T1"}),
                32 => json!({"c":"variable_value","ent":*r.pick(&["T1","X1"])}),
                _ => json!({"c":"wasm","which":*r.pick(&["local","global","stack"]),"index":bv(r.boundary64() & 0xffff_ffff, 4)}),
            };
            calls.push(k);
        }
        let case = json!({"ctx":"attr","asz":*rng.pick(&[4u64,8]),"fmt":*rng.pick(&[4u64,8]),"ver":rng.range(2,5),"calls":calls});
        let o = guarded(|| run(&case));
        let mut ev = case.clone();
        ev["ev"] = json!("Written");
        ev["ok"] = o.get("ok").cloned().unwrap_or(json!(false));
        ev["bytes"] = o.get("bytes").cloned().unwrap_or(json!([]));
        ev["hints"] = o.get("hints").cloned().unwrap_or(json!({}));
        ev["abnormal"] = json!(o.get("outcome").is_some() || o.get("readback").is_some());
        ev["err"] = o.get("err").cloned().unwrap_or(json!(""));
        evs.push(ev);
    }
    write_lines(out, &evs);
}

fn main() {
    main_with(replay, record);
}
