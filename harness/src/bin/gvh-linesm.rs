//! C04 driver: line-number programs through gimli::read.
//!
//! replay: a `.debug_line` section built by the TLA+ encoder is parsed with
//!   `DebugLine::program`; the observation is what gimli reports: header fields,
//!   directory/file tables, every row of `rows()`, the sequences of
//!   `sequences()` and the rows of `resume_from()` for each.
//! record: random / arbitrary-byte / fixture programs are single-stepped through the
//!   public API (`header.instructions()`, `LineRow::execute`, `LineRow::reset`)
//!   over a `TracingReader`, logging one event per instruction (raw bytes, the
//!   instruction as gimli decoded it, registers after, row flag), followed by
//!   what `rows()` / `sequences()` / `resume_from()` report for the same bytes.
//! No line-number semantics live here: values are projected to JSON only.
use gimli::{
    AttributeValue, DebugLine, DebugLineOffset, EndianSlice, LineInstruction, LineProgramHeader,
    LineRow, Reader, RunTimeEndian,
};
use gvh::interpose::TracingReader;
use gvh::*;
use serde_json::{json, Value};

fn endian(le: bool) -> RunTimeEndian {
    if le {
        RunTimeEndian::Little
    } else {
        RunTimeEndian::Big
    }
}

/// little-endian bytes of `v` without trailing zero bytes (0 = [])
fn tb(v: u64) -> Value {
    let b = v.to_le_bytes();
    let mut n = 8;
    while n > 0 && b[n - 1] == 0 {
        n -= 1;
    }
    bytes_json(&b[..n])
}

fn rbytes<R: Reader>(r: &R) -> Value {
    match r.to_slice() {
        Ok(s) => bytes_json(&s),
        Err(_) => json!("unreadable"),
    }
}

fn attr<R: Reader>(a: &AttributeValue<R>) -> Value {
    match a {
        AttributeValue::String(s) => json!(["string", rbytes(s)]),
        AttributeValue::DebugLineStrRef(o) => json!(["line_strp", tb(o.0.into_u64())]),
        AttributeValue::DebugStrRef(o) => json!(["strp", tb(o.0.into_u64())]),
        AttributeValue::DebugStrRefSup(o) => json!(["strp_sup", tb(o.0.into_u64())]),
        AttributeValue::SecOffset(o) => json!(["sec_offset", tb(o.into_u64())]),
        AttributeValue::DebugStrOffsetsIndex(i) => json!(["strx", tb(i.0.into_u64())]),
        AttributeValue::Udata(v) => json!(["udata", tb(*v)]),
        AttributeValue::Sdata(v) => json!(["sdata", tb(*v as u64)]),
        AttributeValue::Data1(v) => json!(["data1", tb(*v as u64)]),
        AttributeValue::Data2(v) => json!(["data2", tb(*v as u64)]),
        AttributeValue::Data4(v) => json!(["data4", tb(*v as u64)]),
        AttributeValue::Data8(v) => json!(["data8", tb(*v)]),
        AttributeValue::Flag(f) => json!(["flag", if *f { json!([1]) } else { json!([]) }]),
        AttributeValue::Block(b) => json!(["block", rbytes(b)]),
        other => json!(["other", format!("{:?}", other)]),
    }
}

use gimli::ReaderOffset;

fn header_json<R: Reader>(h: &LineProgramHeader<R>) -> Value {
    json!({
        "ok": true,
        "ver": h.version(),
        "fmt": if h.format() == gimli::Format::Dwarf64 { 64 } else { 32 },
        "asz": h.address_size(),
        "mil": h.minimum_instruction_length(),
        "maxops": h.maximum_operations_per_instruction(),
        "dis": h.default_is_stmt(),
        "lbase": h.line_base(),
        "lrange": h.line_range(),
        "obase": h.opcode_base(),
        "oplens": rbytes(h.standard_opcode_lengths()),
    })
}

fn dirs_json<R: Reader>(h: &LineProgramHeader<R>) -> Value {
    Value::Array(h.include_directories().iter().map(attr).collect())
}

fn files_json<R: Reader>(h: &LineProgramHeader<R>) -> Value {
    Value::Array(
        h.file_names()
            .iter()
            .map(|f| {
                json!([
                    attr(&f.path_name()),
                    tb(f.directory_index()),
                    tb(f.timestamp()),
                    tb(f.size()),
                    bytes_json(f.md5()),
                    match f.source() {
                        Some(s) => attr(&s),
                        None => json!([]),
                    }
                ])
            })
            .collect(),
    )
}

fn flags(row: &LineRow) -> u64 {
    (row.is_stmt() as u64)
        | (row.basic_block() as u64) << 1
        | (row.end_sequence() as u64) << 2
        | (row.prologue_end() as u64) << 3
        | (row.epilogue_begin() as u64) << 4
}

fn row_json(row: &LineRow) -> Value {
    let line = row.line().map(|l| l.get()).unwrap_or(0);
    let col = match row.column() {
        gimli::ColumnType::LeftEdge => 0,
        gimli::ColumnType::Column(c) => c.get(),
    };
    json!([
        tb(row.address()),
        tb(row.op_index()),
        tb(row.file_index()),
        tb(line),
        tb(col),
        flags(row),
        tb(row.isa()),
        tb(row.discriminator())
    ])
}

/// Everything the row-level API reports for the unit at `offset` of `sect`.
fn observe<R: Reader>(dl: &DebugLine<R>, offset: usize, asz: u8) -> Value
where
    R::Offset: ReaderOffset,
{
    let off = DebugLineOffset(R::Offset::from_u64(offset as u64).unwrap());
    let prog = match dl.program(off, asz, None, None) {
        Ok(p) => p,
        Err(e) => return json!({"hdr": {"ok": false, "err": err_name(&e)}}),
    };
    let hdr = header_json(prog.header());
    let dirs = dirs_json(prog.header());
    let files0 = files_json(prog.header());
    // straight run
    let mut rows = prog.clone().rows();
    let mut out = Vec::new();
    let mut end = json!("done");
    let mut err = Value::Null;
    loop {
        match rows.next_row() {
            Ok(Some((_, row))) => out.push(row_json(row)),
            Ok(None) => break,
            Err(e) => {
                end = json!("err");
                err = json!(err_name(&e));
                break;
            }
        }
    }
    let files = files_json(rows.header());
    // sequences + resume
    let seqs = match prog.sequences() {
        Err(e) => json!({"ok": false, "err": err_name(&e)}),
        Ok((complete, seqs)) => {
            let mut list = Vec::new();
            for s in &seqs {
                let mut rr = complete.resume_from(s);
                let mut srows = Vec::new();
                let mut send = "done".to_string();
                loop {
                    match rr.next_row() {
                        Ok(Some((_, row))) => srows.push(row_json(row)),
                        Ok(None) => break,
                        Err(e) => {
                            send = err_name(&e);
                            break;
                        }
                    }
                }
                list.push(json!({"start": tb(s.start), "end": tb(s.end), "rows": srows, "rend": send}));
            }
            json!({"ok": true, "list": list, "files": files_json(complete.header())})
        }
    };
    json!({"hdr": hdr, "dirs": dirs, "files0": files0, "rows": out, "end": end, "err": err,
           "files": files, "seqs": seqs})
}

fn replay(case: &Value) -> Value {
    let sect = bytes_of(&case["sect"]);
    let le = case["le"].as_bool().unwrap_or(true);
    let asz = case["asz"].as_u64().unwrap_or(8) as u8;
    let dl = DebugLine::new(&sect, endian(le));
    observe(&dl, 0, asz)
}

// ---------------------------------------------------------------- record

fn ins_json<R: Reader>(i: &LineInstruction<R>) -> Value {
    let z = json!([0, 0, 0, 0, 0, 0, 0, 0]);
    let mk = |op: &str, opc: u64, v: Value, raw: Value, x: Value| json!({"op": op, "opc": opc, "v": v, "raw": raw, "x": x});
    let e = json!([]);
    match i {
        LineInstruction::Special(o) => mk("special", *o as u64, z, e.clone(), e),
        LineInstruction::Copy => mk("copy", 0, z, e.clone(), e),
        LineInstruction::AdvancePc(v) => mk("advance_pc", 0, bv(*v, 8), e.clone(), e),
        LineInstruction::AdvanceLine(v) => mk("advance_line", 0, bv(*v as u64, 8), e.clone(), e),
        LineInstruction::SetFile(v) => mk("set_file", 0, bv(*v, 8), e.clone(), e),
        LineInstruction::SetColumn(v) => mk("set_column", 0, bv(*v, 8), e.clone(), e),
        LineInstruction::NegateStatement => mk("negate_stmt", 0, z, e.clone(), e),
        LineInstruction::SetBasicBlock => mk("set_basic_block", 0, z, e.clone(), e),
        LineInstruction::ConstAddPc => mk("const_add_pc", 0, z, e.clone(), e),
        LineInstruction::FixedAddPc(v) => mk("fixed_advance_pc", 0, bv(*v as u64, 8), e.clone(), e),
        LineInstruction::SetPrologueEnd => mk("set_prologue_end", 0, z, e.clone(), e),
        LineInstruction::SetEpilogueBegin => mk("set_epilogue_begin", 0, z, e.clone(), e),
        LineInstruction::SetIsa(v) => mk("set_isa", 0, bv(*v, 8), e.clone(), e),
        LineInstruction::UnknownStandard0(o) => mk("unknown_std0", o.0 as u64, z, e.clone(), e),
        LineInstruction::UnknownStandard1(o, v) => mk("unknown_std1", o.0 as u64, bv(*v, 8), e.clone(), e),
        LineInstruction::UnknownStandardN(o, r) => mk("unknown_stdn", o.0 as u64, z, rbytes(r), e),
        LineInstruction::EndSequence => mk("end_sequence", 0, z, e.clone(), e),
        LineInstruction::SetAddress(v) => mk("set_address", 0, bv(*v, 8), e.clone(), e),
        LineInstruction::DefineFile(f) => {
            let name = match f.path_name() {
                AttributeValue::String(s) => rbytes(&s),
                _ => json!("not-a-string"),
            };
            mk(
                "define_file",
                0,
                z,
                name,
                json!([bv(f.directory_index(), 8), bv(f.timestamp(), 8), bv(f.size(), 8)]),
            )
        }
        LineInstruction::SetDiscriminator(v) => mk("set_discriminator", 0, bv(*v, 8), e.clone(), e),
        LineInstruction::UnknownExtended(o, r) => mk("unknown_ext", o.0 as u64, z, rbytes(r), e),
    }
}

fn regs_json(row: &LineRow) -> Value {
    let line = row.line().map(|l| l.get()).unwrap_or(0);
    let col = match row.column() {
        gimli::ColumnType::LeftEdge => 0,
        gimli::ColumnType::Column(c) => c.get(),
    };
    json!({"addr": bv(row.address(), 8), "opi": bv(row.op_index(), 8), "file": bv(row.file_index(), 8),
           "line": bv(line, 8), "col": bv(col, 8), "stmt": row.is_stmt(), "bb": row.basic_block(),
           "es": row.end_sequence(), "pe": row.prologue_end(), "eb": row.epilogue_begin(),
           "isa": bv(row.isa(), 8), "disc": bv(row.discriminator(), 8)})
}

/// Single-step one unit; push events.
fn trace_unit(sect: &[u8], offset: usize, asz: u8, le: bool, evs: &mut Vec<Value>, tag: &str, maxprog: usize) -> Option<usize> {
    let tr = TracingReader::new(sect, endian(le), None, true);
    let log = tr.log.clone();
    let dl = DebugLine::from(tr);
    let prog = match dl.program(DebugLineOffset(offset), asz, None, None) {
        Ok(p) => p,
        Err(e) => {
            evs.push(json!({"ev": "BadHeader", "tag": tag, "err": err_name(&e)}));
            return None;
        }
    };
    let header = prog.header().clone();
    let unit_len = header.unit_length();
    let next = offset + unit_len + if header.format() == gimli::Format::Dwarf64 { 12 } else { 4 };
    let pbuf = header.raw_program_buf();
    let pstart = next - pbuf.len();
    if pbuf.len() > maxprog {
        return Some(next);
    }
    // what the row-level API reports, over a plain slice of the same bytes
    let plain = DebugLine::new(sect, endian(le));
    let api = observe(&plain, offset, asz);
    let mut h = header_json(&header);
    h["ev"] = json!("Header");
    h["tag"] = json!(tag);
    h["le"] = json!(le);
    h["raw"] = bytes_json(&sect[offset..pstart]);
    h["dirs"] = dirs_json(&header);
    h["files"] = files_json(&header);
    h["dfmt"] = Value::Array(
        header.directory_entry_format().iter().map(|f| json!([bv(f.content_type.0 as u64, 8), f.form.0])).collect(),
    );
    h["ffmt"] = Value::Array(
        header.file_name_entry_format().iter().map(|f| json!([bv(f.content_type.0 as u64, 8), f.form.0])).collect(),
    );
    evs.push(h);
    let mut instrs = header.instructions();
    let mut row = LineRow::new(&header);
    let mut prog2 = prog.clone();
    loop {
        log.borrow_mut().events.clear();
        let r = instrs.next_instruction(&header);
        // the first primitive of the call reads the opcode byte: its offset is where the instruction starts
        let start = log.borrow().events.first().map(|e| e.off);
        match r {
            Ok(None) => break,
            Err(e) => {
                let st = start.unwrap_or(next);
                evs.push(json!({"ev": "InsErr", "bytes": bytes_json(&sect[st..next]), "err": err_name(&e)}));
                break;
            }
            Ok(Some(ins)) => {
                let st = start.unwrap();
                // the end of this instruction = start of the next one: peek without disturbing `instrs`
                let mut peek = instrs.clone();
                log.borrow_mut().events.clear();
                let _ = peek.next_instruction(&header);
                let en = log.borrow().events.first().map(|e| e.off).unwrap_or(next);
                let ij = ins_json(&ins);
                match row.execute(ins, &mut prog2) {
                    Ok(emit) => {
                        evs.push(json!({"ev": "Ins", "bytes": bytes_json(&sect[st..en]), "ins": ij,
                                        "regs": regs_json(&row), "emit": emit}));
                        if emit {
                            row.reset(&header);
                        }
                    }
                    Err(e) => {
                        evs.push(json!({"ev": "ExecErr", "bytes": bytes_json(&sect[st..en]), "ins": ij, "err": err_name(&e)}));
                        break;
                    }
                }
            }
        }
    }
    evs.push(json!({"ev": "End", "rows": api["rows"], "end": api["end"], "seqs": api["seqs"]}));
    Some(next)
}

/// `trace_unit` with a panic turned into a `Panic` event (which no action of the trace spec explains).
fn traced(sect: &[u8], offset: usize, asz: u8, le: bool, evs: &mut Vec<Value>, tag: &str, maxprog: usize) -> Option<usize> {
    let mut next = None;
    let o = guarded(|| {
        next = trace_unit(sect, offset, asz, le, evs, tag, maxprog);
        Value::Null
    });
    if o.get("outcome").is_some() {
        evs.push(json!({"ev": "Panic", "tag": tag, "msg": o["msg"], "loc": o["loc"]}));
    }
    next
}

fn uleb(out: &mut Vec<u8>, v: u64) {
    gimli::leb128::write::unsigned(out, v).unwrap();
}
fn sleb(out: &mut Vec<u8>, v: i64) {
    gimli::leb128::write::signed(out, v).unwrap();
}
fn fixed(out: &mut Vec<u8>, v: u64, n: usize, le: bool) {
    let b = v.to_le_bytes();
    if le {
        out.extend_from_slice(&b[..n]);
    } else {
        out.extend(b[..n].iter().rev());
    }
}

struct Params {
    ver: u16,
    fmt64: bool,
    asz: u8,
    le: bool,
    mil: u8,
    maxops: u8,
    lbase: i8,
    lrange: u8,
    obase: u8,
    oplens: Vec<u8>,
}

/// Input generator (not an oracle): a header with small tables followed by `prog`.
fn build_unit(p: &Params, prog: &[u8], rng: &mut Rng) -> Vec<u8> {
    let mut body = vec![p.mil];
    if p.ver >= 4 {
        body.push(p.maxops);
    }
    body.push(rng.below(2) as u8);
    body.push(p.lbase as u8);
    body.push(p.lrange);
    body.push(p.obase);
    body.extend_from_slice(&p.oplens);
    if p.ver <= 4 {
        body.extend_from_slice(b"inc\0");
        if rng.chance(1, 2) {
            body.extend_from_slice(b"d2\0");
        }
        body.push(0);
        body.extend_from_slice(b"a.c\0");
        uleb(&mut body, 1);
        uleb(&mut body, rng.boundary64());
        uleb(&mut body, rng.below(300));
        body.push(0);
    } else {
        // directory format: path(string)
        body.extend_from_slice(&[1, 1, 0x08]);
        body.push(2);
        body.extend_from_slice(b"/cd\0inc\0");
        // file format: path(line_strp or string), directory_index(udata), [md5(data16)]
        let md5 = rng.chance(1, 2);
        let strp = rng.chance(1, 2);
        body.push(if md5 { 3 } else { 2 });
        body.extend_from_slice(&[1, if strp { 0x1f } else { 0x08 }, 2, 0x0f]);
        if md5 {
            body.extend_from_slice(&[5, 0x1e]);
        }
        body.push(2);
        for k in 0..2u64 {
            if strp {
                fixed(&mut body, 0x10 + k, if p.fmt64 { 8 } else { 4 }, p.le);
            } else {
                body.extend_from_slice(b"f.c\0");
            }
            uleb(&mut body, k);
            if md5 {
                for j in 0..16 {
                    body.push((rng.next() as u8) | (j == 0) as u8);
                }
            }
        }
    }
    let mut hdr = Vec::new();
    fixed(&mut hdr, p.ver as u64, 2, p.le);
    if p.ver >= 5 {
        hdr.push(p.asz);
        hdr.push(0);
    }
    fixed(&mut hdr, body.len() as u64, if p.fmt64 { 8 } else { 4 }, p.le);
    hdr.extend_from_slice(&body);
    let n = (hdr.len() + prog.len()) as u64;
    let mut unit = Vec::new();
    if p.fmt64 {
        unit.extend_from_slice(&[0xff; 4]);
        fixed(&mut unit, n, 8, p.le);
    } else {
        fixed(&mut unit, n, 4, p.le);
    }
    unit.extend_from_slice(&hdr);
    unit.extend_from_slice(prog);
    unit
}

fn rand_params(rng: &mut Rng) -> Params {
    let ver = rng.range(2, 5) as u16;
    let obase = *rng.pick(&[13u8, 13, 13, 10, 1, 14, 20, 40, 255]);
    let mut oplens: Vec<u8> = vec![0, 1, 1, 1, 1, 0, 0, 0, 1, 0, 0, 1];
    oplens.truncate(obase as usize - 1);
    while oplens.len() < obase as usize - 1 {
        oplens.push(rng.below(4) as u8);
    }
    Params {
        ver,
        fmt64: rng.chance(1, 4),
        asz: *rng.pick(&[2u8, 4, 8, 8]),
        le: rng.chance(3, 4),
        mil: *rng.pick(&[1u8, 1, 2, 4, 255]),
        maxops: if ver >= 4 { *rng.pick(&[1u8, 1, 2, 4, 255]) } else { 1 },
        lbase: *rng.pick(&[-5i8, -3, -128, 0, 127, -1]),
        lrange: *rng.pick(&[14u8, 12, 1, 255, 4]),
        obase,
        oplens,
    }
}

/// A random mostly-sensible program: forward-moving addresses with occasional
/// boundary operands, tombstone-like addresses, unknown opcodes and padding.
fn rand_program(p: &Params, n: usize, rng: &mut Rng) -> Vec<u8> {
    let mut out = Vec::new();
    let top = if p.asz == 8 { u64::MAX } else { (1u64 << (8 * p.asz)) - 1 };
    let mut base = rng.next() & (top >> 2);
    let ext = |out: &mut Vec<u8>, opc: u8, payload: &[u8], pad: usize| {
        out.push(0);
        uleb(out, (1 + payload.len() + pad) as u64);
        out.push(opc);
        out.extend_from_slice(payload);
        for k in 0..pad {
            out.push(k as u8);
        }
    };
    for _ in 0..n {
        let pad = if rng.chance(1, 10) { rng.below(3) as usize } else { 0 };
        match rng.below(24) {
            0..=5 => out.push(rng.range(p.obase as u64, 255) as u8), // special
            6 => {
                if p.obase > 1 {
                    out.push(1)
                }
            }
            7 => {
                if p.obase > 2 {
                    out.push(2);
                    let v = if rng.chance(1, 8) { rng.boundary64() } else { rng.below(200) };
                    uleb(&mut out, v);
                }
            }
            8 => {
                if p.obase > 3 {
                    out.push(3);
                    let mut v = if rng.chance(1, 8) { rng.boundary64() as i64 } else { rng.below(40) as i64 - 12 };
                    if v == i64::MIN {
                        v += 1; // negate overflow in apply_line_advance is a C01 finding, kept out of C04
                    }
                    sleb(&mut out, v);
                }
            }
            9 => {
                if p.obase > 4 {
                    out.push(4);
                    uleb(&mut out, rng.boundary64());
                }
            }
            10 => {
                if p.obase > 5 {
                    out.push(5);
                    uleb(&mut out, rng.below(300));
                }
            }
            11 => {
                if p.obase > 8 {
                    out.push(*rng.pick(&[6u8, 7, 8, 8]));
                }
            }
            12 => {
                if p.obase > 9 {
                    out.push(9);
                    fixed(&mut out, if rng.chance(1, 6) { 0xffff } else { rng.below(64) }, 2, p.le);
                }
            }
            13 => {
                if p.obase > 12 {
                    let o = *rng.pick(&[10u8, 11, 12]);
                    out.push(o);
                    if o == 12 {
                        uleb(&mut out, rng.boundary64());
                    }
                }
            }
            14 => {
                // unknown standard opcode with its declared operands
                if p.obase > 13 {
                    let o = rng.range(13, p.obase as u64 - 1) as u8;
                    out.push(o);
                    for _ in 0..p.oplens[o as usize - 1] {
                        uleb(&mut out, rng.boundary64());
                    }
                }
            }
            15 | 16 => {
                // end_sequence, then usually a new base address
                ext(&mut out, 1, &[], pad);
                base = rng.next() & (top >> 1);
                if rng.chance(4, 5) {
                    let mut a = Vec::new();
                    fixed(&mut a, base, p.asz as usize, p.le);
                    ext(&mut out, 2, &a, 0);
                }
            }
            17 | 18 => {
                let v = match rng.below(8) {
                    0 => top,
                    1 => top - 1,
                    2 => top - 2,
                    3 => 0,
                    4 => base / 2,
                    _ => {
                        base = base.wrapping_add(rng.below(4096)) & top;
                        base
                    }
                };
                let mut a = Vec::new();
                fixed(&mut a, v, p.asz as usize, p.le);
                ext(&mut out, 2, &a, pad);
            }
            19 => {
                let mut b = Vec::new();
                b.extend_from_slice(b"g.h\0");
                uleb(&mut b, rng.below(3));
                uleb(&mut b, rng.boundary64());
                uleb(&mut b, rng.below(1000));
                ext(&mut out, 3, &b, pad);
            }
            20 => {
                let mut b = Vec::new();
                uleb(&mut b, rng.boundary64());
                ext(&mut out, 4, &b, pad);
            }
            21 => {
                let o = *rng.pick(&[0x80u8, 0xff, 5, 0x30]);
                let l = rng.below(4) as usize;
                let d: Vec<u8> = (0..l).map(|_| rng.next() as u8).collect();
                ext(&mut out, o, &d, 0);
            }
            _ => out.push(rng.range(p.obase as u64, 255) as u8),
        }
    }
    if rng.chance(3, 4) {
        ext(&mut out, 1, &[], 0);
    }
    out
}

/// Multi-sequence mixes of live sequences, sequences interrupted by a tombstone / lower address and
/// sequences that are entirely at a tombstone address (input generator, no expectations).
fn rand_seq_program(p: &Params, nseq: usize, rng: &mut Rng) -> Vec<u8> {
    let mut out = Vec::new();
    let top = if p.asz == 8 { u64::MAX } else { (1u64 << (8 * p.asz)) - 1 };
    let ext = |out: &mut Vec<u8>, opc: u8, payload: &[u8]| {
        out.push(0);
        uleb(out, (1 + payload.len()) as u64);
        out.push(opc);
        out.extend_from_slice(payload);
    };
    let set_addr = |out: &mut Vec<u8>, v: u64| {
        let mut a = Vec::new();
        fixed(&mut a, v, p.asz as usize, p.le);
        ext(out, 2, &a);
    };
    let row = |out: &mut Vec<u8>, rng: &mut Rng| {
        // a row-emitting instruction: a special opcode (copy when there are standard opcodes, sometimes)
        if p.obase > 1 && rng.chance(1, 3) {
            out.push(1);
        } else {
            out.push(rng.range(p.obase as u64, 255) as u8);
        }
    };
    for k in 0..nseq {
        let base = if rng.chance(1, 4) { 0 } else { rng.next() & (top >> 2) };
        let tomb = *rng.pick(&[top, top - 1]);
        match rng.below(5) {
            0 | 1 => {
                // live
                set_addr(&mut out, base);
                for _ in 0..1 + rng.below(3) {
                    row(&mut out, rng);
                }
            }
            2 | 3 => {
                // live, then a tombstone or lower address, then possibly more (swallowed) rows
                set_addr(&mut out, base.max(16));
                for _ in 0..1 + rng.below(3) {
                    row(&mut out, rng);
                }
                set_addr(&mut out, if rng.chance(1, 2) { tomb } else { rng.below(base.max(16)) });
                for _ in 0..rng.below(3) {
                    row(&mut out, rng);
                }
            }
            _ => {
                // entirely at a tombstone address
                set_addr(&mut out, tomb);
                for _ in 0..1 + rng.below(3) {
                    row(&mut out, rng);
                }
            }
        }
        // close the sequence (sometimes twice; the last one sometimes not at all)
        if !(k + 1 == nseq && rng.chance(1, 4)) {
            ext(&mut out, 1, &[]);
            if rng.chance(1, 8) {
                ext(&mut out, 1, &[]);
            }
        }
    }
    out
}

fn record(out: &str, a: &Args) {
    let mut rng = Rng::new(a.num("--seed", 1));
    let n = a.num("--n", 40) as usize;
    let len = a.num("--len", 120) as usize;
    let nraw = a.num("--raw", 40) as usize;
    let mut evs = Vec::new();
    for i in 0..n {
        let p = rand_params(&mut rng);
        let l = 1 + rng.below(len as u64) as usize;
        // every third unit is a directed multi-sequence tombstone mix
        let prog = if i % 3 == 2 { rand_seq_program(&p, 2 + rng.below(4) as usize, &mut rng) } else { rand_program(&p, l, &mut rng) };
        let unit = build_unit(&p, &prog, &mut rng);
        traced(&unit, 0, p.asz, p.le, &mut evs, &format!("{}{}", if i % 3 == 2 { "seq" } else { "rand" }, i), usize::MAX);
    }
    // arbitrary bytes as a program (monotonicity / width clause)
    for i in 0..nraw {
        let p = rand_params(&mut rng);
        let l = 1 + rng.below(len as u64) as usize;
        let prog: Vec<u8> = (0..l)
            .map(|_| if rng.chance(1, 3) { *rng.pick(&[0u8, 1, 2, 3, 9, 0x80, 0xff, 5]) } else { rng.next() as u8 })
            .collect();
        let unit = build_unit(&p, &prog, &mut rng);
        traced(&unit, 0, p.asz, p.le, &mut evs, &format!("raw{}", i), usize::MAX);
    }
    // the repository's own line tables
    if let Some(path) = a.opt("--fixture") {
        if let Ok(sect) = std::fs::read(path) {
            let max = a.num("--fixture-units", 4) as usize;
            let maxprog = a.num("--fixture-maxprog", 1500) as usize;
            let mut off = 0usize;
            let mut k = 0;
            while off < sect.len() && k < max {
                let before = evs.len();
                match traced(&sect, off, 8, true, &mut evs, &format!("fixture@{}", off), maxprog) {
                    Some(next) => off = next,
                    None => break,
                }
                if evs.len() > before {
                    k += 1;
                }
            }
        }
    }
    write_lines(out, &evs);
}

fn main() {
    main_with(replay, record);
}

#[allow(dead_code)]
fn _unused(_: EndianSlice<RunTimeEndian>) {}
