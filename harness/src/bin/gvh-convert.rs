//! C12 driver: read -> write conversion (`write::Dwarf::from`, the stepwise convert
//! API, `write::FrameTable::from`, `ConvertLineProgram`).
//!
//! A recipe names an input (`base`): the repository's own fixture, a compiled corpus
//! variant, sections given in the recipe (`raw`), a `.debug_frame` assembled from
//! fields the specification encoded (`cfi`), or DWARF produced by gimli's own writer
//! from seeded random content (`gen`, the writer is only a generator there).  The
//! input is dumped with gimli's READER, converted, written, read back and dumped
//! again, converted and written a second time and dumped a third time.  The dump is
//! complete and mechanical (every attribute with its reader-side value, references
//! resolved to (unit index, preorder index), lists and file indices resolved through
//! the reader's own resolution functions, unwind rows from `UnwindTable`); WHICH parts
//! of the dump are meaning and how unwind rows are normalised is decided by
//! spec/Convert.tla, not here.  No expectations live here.
//!
//! Output per recipe: `{"events":[...]}` with the events of spec/ConvertTrace.tla.
use gimli::write::{self, Address, EndianVec};
use gimli::{
    constants as c, AttributeValue as AV, BaseAddresses, CfaRule, DebugFrame, EhFrame, Encoding, EndianSlice, Format,
    ReaderOffset, Register, RegisterRule, RunTimeEndian, SectionId, UnwindContext,
    UnwindContextStorage, UnwindSection, UnwindTableRow,
};
use gvh::opjson::op_json;
use gvh::*;
use serde_json::{json, Map, Value as J};
use std::collections::{BTreeMap, HashMap};

type Rd<'a> = EndianSlice<'a, RunTimeEndian>;
type Ids = HashMap<usize, (usize, usize)>;

struct SVec;
impl<T: ReaderOffset> UnwindContextStorage<T> for SVec {
    type Rules = Vec<(Register, RegisterRule<T>)>;
    type Stack = Vec<UnwindTableRow<T, Self>>;
}

fn b8(v: u64) -> J {
    bv(v, 8)
}
fn no_ref() -> J {
    json!({"unit": -2, "idx": -2})
}

// ===========================================================================
// expressions: operation lists with branch targets as operation indices and
// entry references as (unit index, preorder index)
// ===========================================================================
struct RefCtx<'a, 'b> {
    ids: Option<&'a Ids>,
    unit: Option<gimli::UnitRef<'a, Rd<'b>>>,
}

impl<'a, 'b> RefCtx<'a, 'b> {
    fn none() -> Self {
        RefCtx { ids: None, unit: None }
    }
    fn lookup(&self, o: Option<usize>) -> J {
        match (self.ids, o) {
            (Some(ids), Some(o)) => match ids.get(&o) {
                Some((u, i)) => json!({"unit": u, "idx": i}),
                None => json!({"unit": -1, "idx": -1}),
            },
            _ => json!({"unit": -1, "idx": -1}),
        }
    }
    fn unit_ref(&self, off: u64) -> J {
        let o = self
            .unit
            .map(|u| gimli::UnitOffset(off as usize).to_unit_section_offset(&u).0 + sec_bias(&u));
        self.lookup(o)
    }
    fn info_ref(&self, off: u64) -> J {
        self.lookup(Some(off as usize))
    }
}

/// identities of entries in `.debug_types` units are kept apart from `.debug_info` ones
const TYPES_BIAS: usize = 1 << 44;
fn sec_bias(u: &gimli::Unit<Rd<'_>>) -> usize {
    if u.header.section() == SectionId::DebugTypes { TYPES_BIAS } else { 0 }
}

fn ops_meaning(bytes: &[u8], enc: Encoding, endian: RunTimeEndian, cx: &RefCtx) -> J {
    let expr = gimli::Expression(EndianSlice::new(bytes, endian));
    let mut it = expr.clone().operations(enc);
    let mut out: Vec<J> = Vec::new();
    let mut offs: Vec<(i64, i64)> = Vec::new();
    loop {
        let off = it.offset_from(&expr) as i64;
        match it.next() {
            Ok(Some(op)) => {
                let mut j = op_json(&op);
                let k = j["k"].as_str().unwrap_or("").to_string();
                let o = j.as_object_mut().unwrap();
                match k.as_str() {
                    "deref" | "breg" | "typed_literal" | "convert" | "reinterpret" => {
                        let b = unbv(&o["base"]);
                        o.insert("base".into(), if b == 0 { no_ref() } else { cx.unit_ref(b) });
                    }
                    "call" => {
                        let v = unbv(&o["off"]);
                        let to = if o["ref"] == "info" { cx.info_ref(v) } else { cx.unit_ref(v) };
                        o.remove("off");
                        o.remove("ref");
                        o.insert("to".into(), to);
                    }
                    "param_ref" => {
                        let v = unbv(&o["off"]);
                        o.remove("off");
                        o.insert("to".into(), cx.unit_ref(v));
                    }
                    "implicit_pointer" => {
                        let v = unbv(&o["value"]);
                        o.remove("value");
                        o.insert("to".into(), cx.info_ref(v));
                    }
                    "variable_value" => {
                        let v = unbv(&o["off"]);
                        o.remove("off");
                        o.insert("to".into(), cx.info_ref(v));
                    }
                    "entry_value" => {
                        if let gimli::Operation::EntryValue { expression } = &op {
                            let sub = ops_meaning(expression.slice(), enc, endian, cx);
                            o.remove("data");
                            o.insert("sub".into(), sub);
                        }
                    }
                    "addrx" | "constx" => {
                        let idx = unbv(&o["index"]);
                        let r = cx
                            .unit
                            .ok_or(gimli::Error::MissingUnitDie)
                            .and_then(|u| u.address(gimli::DebugAddrIndex(idx as usize)));
                        j = match r {
                            Ok(a) if k == "addrx" => json!({"k":"addr","v":b8(a)}),
                            Ok(a) => json!({"k":"const","v":b8(a)}),
                            Err(e) => json!({"k":"unresolved","name":k,"v":b8(idx),"err":err_name(&e)}),
                        };
                    }
                    "wasm" => {
                        let v = o.remove("index").unwrap_or(json!([]));
                        o.insert("windex".into(), v);
                    }
                    _ => {}
                }
                offs.push((off, it.offset_from(&expr) as i64));
                out.push(j);
            }
            Ok(None) => break,
            Err(e) => {
                out.push(json!({"k":"error","name": err_name(&e)}));
                offs.push((off, off));
                break;
            }
        }
    }
    let total = bytes.len() as i64;
    for i in 0..out.len() {
        let k = out[i]["k"].as_str().unwrap_or("").to_string();
        if k == "skip" || k == "bra" {
            let t = offs[i].1 + out[i]["target"].as_i64().unwrap_or(0);
            let idx = if t == total {
                out.len() as i64
            } else {
                offs.iter().position(|o| o.0 == t).map(|p| p as i64).unwrap_or(-1)
            };
            out[i]["target"] = json!(idx);
        }
    }
    J::Array(out)
}

// ===========================================================================
// frame tables
// ===========================================================================
fn rule_json<S: UnwindSection<Rd<'static>>>(r: &RegisterRule<usize>, sec: &S, enc: Encoding, endian: RunTimeEndian) -> J {
    let ex = |e: &gimli::UnwindExpression<usize>| -> J {
        match e.get(sec) {
            Ok(x) => ops_meaning(x.0.slice(), enc, endian, &RefCtx::none()),
            Err(e) => json!([{"k":"error","name":err_name(&e)}]),
        }
    };
    match r {
        RegisterRule::Undefined => json!({"k":"undefined"}),
        RegisterRule::SameValue => json!({"k":"same_value"}),
        RegisterRule::Offset(v) => json!({"k":"offset","v":b8(*v as u64)}),
        RegisterRule::ValOffset(v) => json!({"k":"val_offset","v":b8(*v as u64)}),
        RegisterRule::Register(r) => json!({"k":"register","r":r.0}),
        RegisterRule::Expression(e) => json!({"k":"expression","ops":ex(e)}),
        RegisterRule::ValExpression(e) => json!({"k":"val_expression","ops":ex(e)}),
        RegisterRule::Architectural => json!({"k":"architectural"}),
        RegisterRule::Constant(v) => json!({"k":"constant","v":b8(*v)}),
    }
}

fn ptr_json(p: Option<gimli::Pointer>) -> J {
    match p {
        Some(gimli::Pointer::Direct(a)) => json!({"has":true,"ind":false,"v":b8(a)}),
        Some(gimli::Pointer::Indirect(a)) => json!({"has":true,"ind":true,"v":b8(a)}),
        None => json!({"has":false,"ind":false,"v":b8(0)}),
    }
}

/// Dump of every FDE of a frame section (in section order) as gimli's reader sees it.
fn frame_dump<S>(sec: &S, endian: RunTimeEndian) -> Result<Vec<J>, String>
where
    S: UnwindSection<Rd<'static>>,
    S::Offset: gimli::UnwindOffset<usize>,
{
    let bases = BaseAddresses::default().set_eh_frame(0);
    let mut out = Vec::new();
    let mut entries = sec.entries(&bases);
    let mut ctx: Box<UnwindContext<usize, SVec>> = Box::new(UnwindContext::new_in());
    loop {
        let e = match entries.next() {
            Ok(Some(e)) => e,
            Ok(None) => break,
            Err(e) => return Err(format!("entries:{}", err_name(&e))),
        };
        let p = match e {
            gimli::CieOrFde::Cie(_) => continue,
            gimli::CieOrFde::Fde(p) => p,
        };
        let fde = match p.parse(S::cie_from_offset) {
            Ok(f) => f,
            Err(e) => return Err(format!("fde:{}", err_name(&e))),
        };
        let cie = fde.cie();
        let enc = cie.encoding();
        let (pe, pp) = match cie.personality_with_encoding() {
            Some((e, p)) => (e.0 as i64, Some(p)),
            None => (-1, None),
        };
        let mut rows = Vec::new();
        let mut fin = "end".to_string();
        match fde.rows(sec, &bases, &mut ctx) {
            Ok(mut table) => loop {
                match table.next_row() {
                    Ok(Some(row)) => {
                        let cfa = match row.cfa() {
                            CfaRule::RegisterAndOffset { register, offset } => {
                                json!({"k":"reg","r":register.0,"off":b8(*offset as u64)})
                            }
                            CfaRule::Expression(e) => json!({"k":"expr","ops": match e.get(sec) {
                                Ok(x) => ops_meaning(x.0.slice(), enc, endian, &RefCtx::none()),
                                Err(e) => json!([{"k":"error","name":err_name(&e)}]),
                            }}),
                        };
                        let mut rules: Vec<(u16, J)> =
                            row.registers().map(|(r, rule)| (r.0, rule_json(rule, sec, enc, endian))).collect();
                        rules.sort_by_key(|x| x.0);
                        let rules: Vec<J> = rules.into_iter().map(|(r, v)| json!({"reg":r,"rule":v})).collect();
                        rows.push(json!({"start":b8(row.start_address()),"end":b8(row.end_address()),
                                         "args":b8(row.saved_args_size()),"cfa":cfa,"rules":rules}));
                    }
                    Ok(None) => break,
                    Err(e) => {
                        fin = err_name(&e);
                        break;
                    }
                }
            },
            Err(e) => fin = format!("rows:{}", err_name(&e)),
        }
        out.push(json!({
            "present": true,
            "start": b8(fde.initial_address()), "len": b8(fde.len()),
            "cie": {"ver": cie.version(), "asz": cie.address_size(), "ra": cie.return_address_register().0,
                    "caf": b8(cie.code_alignment_factor()), "daf": b8(cie.data_alignment_factor() as u64),
                    "pers_enc": pe, "pers": ptr_json(pp),
                    "lsda_enc": cie.lsda_encoding().map(|e| e.0 as i64).unwrap_or(-1),
                    "fde_enc": cie.fde_address_encoding().map(|e| e.0 as i64).unwrap_or(-1),
                    "signal": cie.is_signal_trampoline()},
            "lsda": ptr_json(fde.lsda()),
            "rows": rows, "fin": fin,
        }));
    }
    Ok(out)
}

fn absent_fde() -> J {
    json!({"present": false, "start": b8(0), "len": b8(0),
           "cie": {"ver":0,"asz":0,"ra":0,"caf":b8(0),"daf":b8(0),"pers_enc":-1,"pers":ptr_json(None),"lsda_enc":-1,"fde_enc":-1,"signal":false},
           "lsda": ptr_json(None), "rows": [], "fin": "absent"})
}

fn leak(v: Vec<u8>) -> &'static [u8] {
    Box::leak(v.into_boxed_slice())
}

enum FrameSec {
    Eh(EhFrame<Rd<'static>>),
    Debug(DebugFrame<Rd<'static>>),
}

fn frame_sec(kind: &str, bytes: &'static [u8], endian: RunTimeEndian, asz: u8) -> FrameSec {
    if kind == "eh_frame" {
        let mut s = EhFrame::new(bytes, endian);
        s.set_address_size(asz);
        FrameSec::Eh(s)
    } else {
        let mut s = DebugFrame::new(bytes, endian);
        s.set_address_size(asz);
        FrameSec::Debug(s)
    }
}

impl FrameSec {
    fn dump(&self, endian: RunTimeEndian) -> Result<Vec<J>, String> {
        match self {
            FrameSec::Eh(s) => frame_dump(s, endian),
            FrameSec::Debug(s) => frame_dump(s, endian),
        }
    }
    fn convert(&self) -> Result<write::FrameTable, write::ConvertError> {
        let ca = |a: u64| Some(Address::Constant(a));
        match self {
            FrameSec::Eh(s) => write::FrameTable::from(s, &ca),
            FrameSec::Debug(s) => write::FrameTable::from(s, &ca),
        }
    }
}

fn write_frame(t: &write::FrameTable, kind: &str, endian: RunTimeEndian) -> Result<Vec<u8>, write::Error> {
    if kind == "eh_frame" {
        let mut w = write::EhFrame::from(EndianVec::new(endian));
        t.write_eh_frame(&mut w)?;
        Ok(w.0.into_vec())
    } else {
        let mut w = write::DebugFrame::from(EndianVec::new(endian));
        t.write_debug_frame(&mut w)?;
        Ok(w.0.into_vec())
    }
}

/// Convert one frame section; one `ConvFde` event per FDE and output kind, then a
/// `ConvDone` event with the counts.
fn run_frame(base: &str, kind: &str, bytes: Vec<u8>, endian: RunTimeEndian, asz: u8, sample: &dyn Fn(usize, usize) -> bool, evs: &mut Vec<J>) {
    let tag = |o: &str| json!({"what":"frame","base":base,"sec":kind,"out":o});
    let input = frame_sec(kind, leak(bytes), endian, asz);
    let min = match input.dump(endian) {
        Ok(m) => m,
        Err(e) => {
            evs.push(json!({"ev":"InputRejected","what":"frame","base":base,"sec":kind,"err":e}));
            return;
        }
    };
    let table = match input.convert() {
        Ok(t) => t,
        Err(e) => {
            evs.push(json!({"ev":"ConvertFailed","what":"frame","base":base,"sec":kind,"out":"","stage":"convert","err":format!("{:?}", e)}));
            return;
        }
    };
    for out in ["eh_frame", "debug_frame"] {
        let mut ev = tag(out);
        let b1 = match write_frame(&table, out, endian) {
            Ok(b) => b,
            Err(e) => {
                ev["ev"] = json!("ConvertFailed");
                ev["stage"] = json!("write");
                ev["err"] = json!(format!("{:?}", e));
                evs.push(ev);
                continue;
            }
        };
        let s1 = frame_sec(out, leak(b1), endian, asz);
        let mout = match s1.dump(endian) {
            Ok(m) => m,
            Err(e) => {
                evs.push(json!({"ev":"Abnormal","what":"frame","base":base,"sec":kind,"out":out,"why":"output unreadable","err":e}));
                continue;
            }
        };
        // second conversion of the output, written as the same kind
        let mout2: Result<Vec<J>, J> = match s1.convert() {
            Err(e) => Err(json!({"stage":"convert","err":format!("{:?}", e)})),
            Ok(t2) => match write_frame(&t2, out, endian) {
                Err(e) => Err(json!({"stage":"write","err":format!("{:?}", e)})),
                Ok(b2) => match frame_sec(out, leak(b2), endian, asz).dump(endian) {
                    Ok(m) => Ok(m),
                    Err(e) => Err(json!({"stage":"read","err":e})),
                },
            },
        };
        let (m2, again): (Vec<J>, J) = match mout2 {
            Ok(m) => (m, json!({"ok":true,"stage":"","err":""})),
            Err(e) => (Vec::new(), json!({"ok":false,"stage":e["stage"],"err":e["err"]})),
        };
        let n = min.len().max(mout.len()).max(if again["ok"] == true { m2.len() } else { 0 });
        for i in 0..n {
            if !(sample(i, n) || i >= min.len().min(mout.len())) {
                continue;
            }
            let mut ev = tag(out);
            ev["ev"] = json!("ConvFde");
            ev["i"] = json!(i);
            ev["min"] = min.get(i).cloned().unwrap_or_else(absent_fde);
            ev["mout"] = mout.get(i).cloned().unwrap_or_else(absent_fde);
            ev["again"] = again.clone();
            ev["mout2"] = if again["ok"] == true { m2.get(i).cloned().unwrap_or_else(absent_fde) } else { ev["mout"].clone() };
            evs.push(ev);
        }
        let mut ev = tag(out);
        ev["ev"] = json!("ConvDone");
        ev["nin"] = json!(min.len());
        ev["nout"] = json!(mout.len());
        ev["nout2"] = json!(if again["ok"] == true { m2.len() } else { mout.len() });
        ev["again"] = again;
        evs.push(ev);
    }
}

// ===========================================================================
// DWARF: units, entries, attributes, line programs
// ===========================================================================
type Secs = BTreeMap<String, &'static [u8]>;

fn load_dwarf(secs: &Secs, endian: RunTimeEndian) -> gimli::Dwarf<Rd<'static>> {
    let load = |id: SectionId| -> Result<Rd<'static>, gimli::Error> {
        let name = id.name().trim_start_matches('.');
        Ok(EndianSlice::new(secs.get(name).copied().unwrap_or(&[]), endian))
    };
    gimli::Dwarf::load(load).unwrap()
}

struct UnitDump {
    hdr: J,
    entries: Vec<J>,
    line_hdr: J,
    seqs: Vec<J>,
}

fn str_json(r: Result<Rd<'static>, gimli::Error>) -> J {
    match r {
        Ok(s) => json!({"k":"string","v":bytes_json(s.slice())}),
        Err(e) => json!({"k":"string_unresolved","name":err_name(&e)}),
    }
}
fn str_bytes(r: Result<Rd<'static>, gimli::Error>) -> J {
    match r {
        Ok(s) => bytes_json(s.slice()),
        Err(e) => bytes_json(format!("<{}>", err_name(&e)).as_bytes()),
    }
}

fn file_json(dwarf: &gimli::Dwarf<Rd<'static>>, unit: &gimli::Unit<Rd<'static>>, header: Option<&gimli::LineProgramHeader<Rd<'static>>>, index: u64) -> J {
    // an index that names no file entry keeps its number ("unresolved"); a resolved one is
    // its directory and name
    let none = json!({"found":false,"dir":[],"name":[],"unresolved":b8(index)});
    let Some(h) = header else { return none };
    let Some(f) = h.file(index) else { return none };
    let name = str_bytes(dwarf.attr_string(unit, f.path_name()));
    let dir = match f.directory(h) {
        Some(d) => str_bytes(dwarf.attr_string(unit, d)),
        None => json!([]),
    };
    json!({"found":true,"dir":dir,"name":name,"unresolved":[]})
}

fn value_json(
    dwarf: &gimli::Dwarf<Rd<'static>>,
    unit: &gimli::Unit<Rd<'static>>,
    ids: &Ids,
    endian: RunTimeEndian,
    v: AV<Rd<'static>>,
) -> J {
    let uref = unit.unit_ref(dwarf);
    let cx = RefCtx { ids: Some(ids), unit: Some(uref) };
    let data = |w: u64, x: u64| json!({"k":"const","cls":"data","w":w,"v":b8(x)});
    let en = |x: u64| json!({"k":"enum","v":b8(x)});
    match v {
        AV::Addr(a) => json!({"k":"addr","v":b8(a)}),
        AV::DebugAddrIndex(i) => match uref.address(i) {
            Ok(a) => json!({"k":"addr","v":b8(a),"index":i.0}),
            Err(e) => json!({"k":"addr_unresolved","name":err_name(&e),"index":i.0}),
        },
        AV::Block(r) => json!({"k":"block","v":bytes_json(r.slice())}),
        AV::Data1(x) => data(1, x as u64),
        AV::Data2(x) => data(2, x as u64),
        AV::Data4(x) => data(4, x as u64),
        AV::Data8(x) => data(8, x),
        AV::Data16(x) => json!({"k":"const","cls":"data","w":16,"v":bv128(x, 16)}),
        AV::Sdata(x) => json!({"k":"const","cls":"s","w":0,"v":b8(x as u64)}),
        AV::Udata(x) => json!({"k":"const","cls":"u","w":0,"v":b8(x)}),
        AV::Exprloc(e) => json!({"k":"expr","ops":ops_meaning(e.0.slice(), unit.encoding(), endian, &cx),"raw":bytes_json(e.0.slice())}),
        AV::Flag(b) => json!({"k":"flag","b":b}),
        AV::UnitRef(o) => {
            let mut j = cx.unit_ref(o.0 as u64);
            j["k"] = json!("ref");
            j["off"] = json!(o.0);
            j
        }
        AV::DebugInfoRef(o) => {
            let mut j = cx.info_ref(o.0 as u64);
            j["k"] = json!("ref");
            j["off"] = json!(o.0);
            j
        }
        AV::DebugInfoRefSup(o) => json!({"k":"sup","sec":"info","v":b8(o.0 as u64)}),
        AV::DebugStrRefSup(o) => json!({"k":"sup","sec":"str","v":b8(o.0 as u64)}),
        AV::DebugLineRef(o) => json!({"k":"lineptr","off":o.0}),
        AV::DebugMacinfoRef(o) => json!({"k":"secoff","sec":"macinfo","v":b8(o.0 as u64)}),
        AV::DebugMacroRef(o) => json!({"k":"secoff","sec":"macro","v":b8(o.0 as u64)}),
        AV::SecOffset(o) => json!({"k":"secoff","sec":"","v":b8(o as u64)}),
        AV::DebugAddrBase(o) => json!({"k":"base","raw":o.0}),
        AV::DebugLocListsBase(o) => json!({"k":"base","raw":o.0}),
        AV::DebugRngListsBase(o) => json!({"k":"base","raw":o.0}),
        AV::DebugStrOffsetsBase(o) => json!({"k":"base","raw":o.0}),
        AV::DebugTypesRef(sig) => json!({"k":"sig","v":b8(sig.0)}),
        AV::DwoId(id) => json!({"k":"const","cls":"u","w":0,"v":b8(id.0)}),
        AV::LocationListsRef(_) | AV::DebugLocListsIndex(_) => {
            let mut list = Vec::new();
            let mut err = String::new();
            match dwarf.attr_locations(unit, v) {
                Ok(Some(mut it)) => loop {
                    match it.next() {
                        Ok(Some(l)) => list.push(json!({"b":b8(l.range.begin),"e":b8(l.range.end),
                            "ops":ops_meaning(l.data.0.slice(), unit.encoding(), endian, &cx)})),
                        Ok(None) => break,
                        Err(e) => {
                            err = err_name(&e);
                            break;
                        }
                    }
                },
                Ok(None) => err = "none".into(),
                Err(e) => err = err_name(&e),
            }
            json!({"k":"locs","list":list,"err":err})
        }
        AV::RangeListsRef(_) | AV::DebugRngListsIndex(_) => {
            let mut list = Vec::new();
            let mut err = String::new();
            match dwarf.attr_ranges(unit, v) {
                Ok(Some(mut it)) => loop {
                    match it.next() {
                        Ok(Some(r)) => list.push(json!({"b":b8(r.begin),"e":b8(r.end)})),
                        Ok(None) => break,
                        Err(e) => {
                            err = err_name(&e);
                            break;
                        }
                    }
                },
                Ok(None) => err = "none".into(),
                Err(e) => err = err_name(&e),
            }
            json!({"k":"ranges","list":list,"err":err})
        }
        AV::DebugStrRef(_) | AV::DebugStrOffsetsIndex(_) | AV::DebugLineStrRef(_) | AV::String(_) => {
            str_json(dwarf.attr_string(unit, v))
        }
        AV::Encoding(x) => en(x.0 as u64),
        AV::DecimalSign(x) => en(x.0 as u64),
        AV::Endianity(x) => en(x.0 as u64),
        AV::Accessibility(x) => en(x.0 as u64),
        AV::Visibility(x) => en(x.0 as u64),
        AV::Virtuality(x) => en(x.0 as u64),
        AV::Language(x) => en(x.0 as u64),
        AV::AddressClass(x) => en(x.0),
        AV::IdentifierCase(x) => en(x.0 as u64),
        AV::CallingConvention(x) => en(x.0 as u64),
        AV::Inline(x) => en(x.0 as u64),
        AV::Ordering(x) => en(x.0 as u64),
        AV::FileIndex(i) => {
            let mut j = file_json(dwarf, unit, unit.line_program.as_ref().map(|p| p.header()), i);
            j["k"] = json!("file");
            j["index"] = json!(b8(i));
            j
        }
    }
}

fn row_json(dwarf: &gimli::Dwarf<Rd<'static>>, unit: Option<&gimli::Unit<Rd<'static>>>, h: &gimli::LineProgramHeader<Rd<'static>>, r: &gimli::LineRow) -> J {
    let file = match unit {
        Some(u) => file_json(dwarf, u, Some(h), r.file_index()),
        None => match h.file(r.file_index()) {
            Some(f) => json!({"found":true,"unresolved":[],
                "dir": f.directory(h).map(|d| str_bytes(dwarf.attr_line_string(d))).unwrap_or(json!([])),
                "name": str_bytes(dwarf.attr_line_string(f.path_name()))}),
            None => json!({"found":false,"dir":[],"name":[],"unresolved":b8(r.file_index())}),
        },
    };
    json!({"addr":b8(r.address()),"op_index":b8(r.op_index()),"file_index":b8(r.file_index()),"file":file,
           "line":b8(r.line().map(|l| l.get()).unwrap_or(0)),
           "col":b8(match r.column() { gimli::ColumnType::LeftEdge => 0, gimli::ColumnType::Column(c) => c.get() }),
           "is_stmt":r.is_stmt(),"bb":r.basic_block(),"end":r.end_sequence(),"pe":r.prologue_end(),
           "eb":r.epilogue_begin(),"isa":b8(r.isa()),"disc":b8(r.discriminator())})
}

/// (header dump, sequences): a sequence is {"present":true,"rows":[..],"err":""}
fn line_dump(dwarf: &gimli::Dwarf<Rd<'static>>, unit: Option<&gimli::Unit<Rd<'static>>>, program: &gimli::IncompleteLineProgram<Rd<'static>>) -> (J, Vec<J>) {
    let h = program.header();
    let s = |a: AV<Rd<'static>>| match unit {
        Some(u) => str_bytes(dwarf.attr_string(u, a)),
        None => str_bytes(dwarf.attr_line_string(a)),
    };
    // every directory a file entry can name: for version <= 4 directory 0 is the
    // compilation directory, which is not part of include_directories()
    let mut dirs: Vec<J> = Vec::new();
    if h.version() <= 4 {
        if let Some(d) = h.directory(0) {
            dirs.push(s(d));
        }
    }
    dirs.extend(h.include_directories().iter().map(|d| s(d.clone())));
    let files_of = |h: &gimli::LineProgramHeader<Rd<'static>>| -> Vec<J> {
        h.file_names()
            .iter()
            .map(|f| {
                json!({"dir": f.directory(h).map(|d| s(d)).unwrap_or(json!([])), "name": s(f.path_name()),
                       "ts": b8(f.timestamp()), "size": b8(f.size()), "md5": bytes_json(f.md5()),
                       "src": f.source().map(|x| s(x)).unwrap_or(json!([]))})
            })
            .collect()
    };
    // the file table AFTER the program has run (DW_LNE_define_file adds entries)
    let mut files = files_of(h);
    // names of the decoded instructions (diagnostics only; capped)
    let mut ins: Vec<J> = Vec::new();
    {
        let mut it = h.instructions();
        while let Ok(Some(i)) = it.next_instruction(h) {
            if ins.len() >= 48 {
                break;
            }
            let d = format!("{:?}", i);
            ins.push(json!(d.split(|c: char| c == '(' || c == ' ' || c == '{').next().unwrap_or("")));
        }
    }
    let mut seqs = Vec::new();
    let mut cur: Vec<J> = Vec::new();
    let mut rows = program.clone().rows();
    loop {
        match rows.next_row() {
            Ok(Some((hh, r))) => {
                if hh.file_names().len() != files.len() {
                    files = files_of(hh);
                }
                cur.push(row_json(dwarf, unit, hh, r));
                if r.end_sequence() {
                    seqs.push(json!({"present":true,"rows":std::mem::take(&mut cur),"err":""}));
                }
            }
            Ok(None) => {
                if !cur.is_empty() {
                    seqs.push(json!({"present":true,"rows":std::mem::take(&mut cur),"err":"unterminated"}));
                }
                if rows.header().file_names().len() != files.len() {
                    files = files_of(rows.header());
                }
                break;
            }
            Err(e) => {
                seqs.push(json!({"present":true,"rows":std::mem::take(&mut cur),"err":err_name(&e)}));
                break;
            }
        }
    }
    let hdr = json!({"present":true,"dirs":dirs,"files":files,"ver":h.version(),
                     "mil":h.minimum_instruction_length(),"maxops":h.maximum_operations_per_instruction(),
                     "lbase":h.line_base(),"lrange":h.line_range(),"ins":ins});
    (hdr, seqs)
}

fn absent_unit() -> J {
    json!({"present":false,"ver":0,"fmt":0,"asz":0,"utype":"","nentries":0})
}
fn absent_entry() -> J {
    json!({"present":false,"depth":-1,"tag":0,"attrs":[]})
}
fn absent_line_hdr() -> J {
    json!({"present":false,"dirs":[],"files":[],"ver":0,"mil":0,"maxops":0,"lbase":0,"lrange":0,"ins":[]})
}
fn absent_seq() -> J {
    json!({"present":false,"rows":[],"err":""})
}

fn dwarf_dump(dwarf: &gimli::Dwarf<Rd<'static>>, endian: RunTimeEndian) -> Result<Vec<UnitDump>, String> {
    // pass 1: the entries of every unit and their identity.  Identity = (unit index,
    // index in CANONICAL preorder): preorder in which the root's children of tag
    // DW_TAG_base_type come first (stable), the order the writer emits them in
    // (write::Unit::reorder_base_types); see Convert.tla section 1.
    let mut ids: Ids = HashMap::new();
    let mut units = Vec::new();
    let mut it = dwarf.units();
    loop {
        match it.next() {
            Ok(Some(h)) => units.push(dwarf.unit(h).map_err(|e| format!("unit:{}", err_name(&e)))?),
            Ok(None) => break,
            Err(e) => return Err(format!("units:{}", err_name(&e))),
        }
    }
    // DWARF 4 type units (.debug_types) are units of the forest as well
    let mut tit = dwarf.type_units();
    loop {
        match tit.next() {
            Ok(Some(h)) => units.push(dwarf.unit(h).map_err(|e| format!("type unit:{}", err_name(&e)))?),
            Ok(None) => break,
            Err(e) => return Err(format!("type units:{}", err_name(&e))),
        }
    }
    let mut orders: Vec<Vec<gimli::DebuggingInformationEntry<Rd<'static>>>> = Vec::new();
    for (ui, unit) in units.iter().enumerate() {
        let mut raw = unit.entries_raw(None).map_err(|e| format!("entries:{}", err_name(&e)))?;
        let mut all = Vec::new();
        while !raw.is_empty() {
            let mut e = gimli::DebuggingInformationEntry::null();
            match raw.read_entry(&mut e) {
                Ok(true) => all.push(e),
                Ok(false) => {}
                Err(err) => return Err(format!("entry:{}", err_name(&err))),
            }
        }
        // subtrees of the root's children: [start, end) index ranges at depth 1
        let mut canon: Vec<gimli::DebuggingInformationEntry<Rd<'static>>> = Vec::new();
        if !all.is_empty() {
            let mut groups: Vec<(usize, usize)> = Vec::new();
            let mut i = 1;
            while i < all.len() {
                let mut j = i + 1;
                while j < all.len() && all[j].depth() > all[i].depth() && all[i].depth() == 1 {
                    j += 1;
                }
                groups.push((i, j));
                i = j;
            }
            canon.push(all[0].clone());
            for pass in 0..2 {
                for (a, b) in &groups {
                    let is_base = all[*a].tag() == c::DW_TAG_base_type && all[*a].depth() == 1;
                    if (pass == 0) == is_base {
                        canon.extend(all[*a..*b].iter().cloned());
                    }
                }
            }
        }
        for (idx, e) in canon.iter().enumerate() {
            ids.insert(e.offset().to_unit_section_offset(unit).0 + sec_bias(unit), (ui, idx));
        }
        orders.push(canon);
    }
    // pass 2
    let mut out = Vec::new();
    for (unit, canon) in units.iter().zip(orders.iter()) {
        let mut entries = Vec::new();
        for e in canon {
            let attrs: Vec<J> = e
                .attrs()
                .iter()
                .map(|a| json!({"name":a.name().0,"form":a.form().0,"v":value_json(dwarf, unit, &ids, endian, a.value())}))
                .collect();
            entries.push(json!({"present":true,"depth":e.depth(),"tag":e.tag().0,"attrs":attrs}));
        }
        let h = &unit.header;
        let utype = match h.type_() {
            gimli::UnitType::Compilation => "compile",
            gimli::UnitType::Type { .. } => "type",
            gimli::UnitType::Partial => "partial",
            gimli::UnitType::Skeleton(_) => "skeleton",
            gimli::UnitType::SplitCompilation(_) => "split_compile",
            gimli::UnitType::SplitType { .. } => "split_type",
        };
        let hdr = json!({"present":true,"ver":h.version(),"fmt":if h.format() == Format::Dwarf64 {8} else {4},
                         "asz":h.address_size(),"utype":utype,"nentries":entries.len()});
        let (line_hdr, seqs) = match &unit.line_program {
            Some(p) => line_dump(dwarf, Some(unit), p),
            None => (absent_line_hdr(), Vec::new()),
        };
        out.push(UnitDump { hdr, entries, line_hdr, seqs });
    }
    Ok(out)
}

fn sections_of(sections: &write::Sections<EndianVec<RunTimeEndian>>) -> Secs {
    let mut m = Secs::new();
    for id in [
        SectionId::DebugAbbrev, SectionId::DebugInfo, SectionId::DebugLine, SectionId::DebugLineStr, SectionId::DebugRanges,
        SectionId::DebugRngLists, SectionId::DebugLoc, SectionId::DebugLocLists, SectionId::DebugStr,
    ] {
        if let Some(w) = sections.get(id) {
            m.insert(id.name().trim_start_matches('.').to_string(), leak(w.slice().to_vec()));
        }
    }
    m
}

fn ca(a: u64) -> Option<Address> {
    Some(Address::Constant(a))
}

/// The stepwise convert API used the way its documentation shows; `seed` chooses
/// between read_row and read_sequence for each line program.
/// `retarget`: re-encode every unit and its line program for another DWARF version
/// (`Unit::set_encoding` + `read_line_program(Some(encoding), ..)`).
/// `with_lines = false`: the caller does not convert line programs (no `set_line_program`,
/// DW_AT_stmt_list is not copied).
fn convert_stepwise(from: &gimli::Dwarf<Rd<'static>>, seed: u64, at: &mut String, retarget: Option<u16>, with_lines: bool) -> Result<write::Dwarf, write::ConvertError> {
    let mut rng = Rng::new(seed);
    let mut dwarf = write::Dwarf::new();
    {
        let mut convert = dwarf.convert(from)?;
        while let Some((mut unit, root_entry)) = convert.read_unit()? {
            let by_sequence = rng.chance(1, 2);
            let enc_override = retarget.map(|version| Encoding { version, ..unit.read_unit.encoding() });
            if let Some(e) = enc_override {
                unit.unit.set_encoding(e);
            }
            let lp = {
                match if with_lines { unit.read_line_program(enc_override, None)? } else { None } {
                    None => None,
                    Some(mut cp) => {
                        if by_sequence {
                            while let Some(sequence) = cp.read_sequence()? {
                                if let Some(start) = sequence.start {
                                    cp.set_address(Address::Constant(start));
                                }
                                for row in sequence.rows {
                                    cp.generate_row(row);
                                }
                                if let write::ConvertLineSequenceEnd::Length(length) = sequence.end {
                                    cp.end_sequence(length);
                                }
                            }
                        } else {
                            while let Some(row) = cp.read_row()? {
                                match row {
                                    write::ConvertLineRow::SetAddress(a) => cp.set_address(Address::Constant(a)),
                                    write::ConvertLineRow::Row(r) => cp.generate_row(r),
                                    write::ConvertLineRow::EndSequence(l) => cp.end_sequence(l),
                                }
                            }
                        }
                        if cp.in_sequence() {
                            return Err(write::ConvertError::MissingLineEndSequence);
                        }
                        Some(cp.program())
                    }
                }
            };
            if let Some((program, files)) = lp {
                unit.set_line_program(program, files);
            }
            let root_id = unit.unit.root();
            for attr in &root_entry.attrs {
                if attr.name() == c::DW_AT_GNU_locviews || (!with_lines && attr.name() == c::DW_AT_stmt_list) {
                    continue;
                }
                *at = format!("attr 0x{:x} form 0x{:x} of a root entry", attr.name().0, attr.form().0);
                let value = unit.convert_attribute_value(root_entry.read_unit, attr, &ca)?;
                unit.unit.get_mut(root_id).set(attr.name(), value);
            }
            let mut entry = root_entry;
            while let Some(id) = unit.read_entry(&mut entry)? {
                if id.is_none() {
                    continue;
                }
                let id = unit.add_entry(id, &entry);
                for attr in &entry.attrs {
                    if attr.name() == c::DW_AT_GNU_locviews {
                        continue;
                    }
                    *at = format!("attr 0x{:x} form 0x{:x} of an entry with tag 0x{:x}", attr.name().0, attr.form().0, entry.tag.0);
                    let value = unit.convert_attribute_value(entry.read_unit, attr, &ca)?;
                    unit.unit.get_mut(id).set(attr.name(), value);
                }
            }
        }
    }
    Ok(dwarf)
}

fn convert_write(from: &gimli::Dwarf<Rd<'static>>, api: &str, seed: u64, endian: RunTimeEndian) -> Result<Secs, (String, String)> {
    let mut at = String::new();
    let mut w = if api == "stepwise" {
        convert_stepwise(from, seed, &mut at, None, true)
    } else if api == "stepwise_nolines" {
        convert_stepwise(from, seed, &mut at, None, false)
    } else if let Some(tv) = api.strip_prefix("retarget:") {
        convert_stepwise(from, seed, &mut at, tv.parse().ok(), true)
    } else {
        write::Dwarf::from(from, &ca)
    }
    .map_err(|e| ("convert".to_string(), format!("{:?} {}", e, at).trim().to_string()))?;
    let mut sections = write::Sections::new(EndianVec::new(endian));
    w.write(&mut sections).map_err(|e| ("write".to_string(), format!("{:?}", e)))?;
    Ok(sections_of(&sections))
}

fn again_ok() -> J {
    json!({"ok":true,"stage":"","err":""})
}

/// Convert a whole DWARF object; events per unit / entry / line header / line sequence.
fn run_dwarf(base: &str, api: &str, secs: Secs, endian: RunTimeEndian, seed: u64, sample: &dyn Fn(usize, usize) -> bool, evs: &mut Vec<J>) {
    let tag = || json!({"what":"dwarf","base":base,"api":api});
    let input = load_dwarf(&secs, endian);
    let min = match dwarf_dump(&input, endian) {
        Ok(m) => m,
        Err(e) => {
            evs.push(json!({"ev":"InputRejected","what":"dwarf","base":base,"err":e}));
            return;
        }
    };
    let s1 = match convert_write(&input, api, seed, endian) {
        Ok(s) => s,
        Err((stage, err)) => {
            evs.push(json!({"ev":"ConvertFailed","what":"dwarf","base":base,"api":api,"out":"","stage":stage,"err":err}));
            return;
        }
    };
    let d1 = load_dwarf(&s1, endian);
    let mout = match dwarf_dump(&d1, endian) {
        Ok(m) => m,
        Err(e) => {
            evs.push(json!({"ev":"Abnormal","what":"dwarf","base":base,"api":api,"why":"output unreadable","err":e}));
            return;
        }
    };
    // the output of a re-targeted conversion is converted again without an override
    let retarget: Option<u64> = api.strip_prefix("retarget:").and_then(|v| v.parse().ok());
    let nolines = api == "stepwise_nolines";
    let api2 = if retarget.is_some() { "stepwise" } else { api };
    let (kunit, kentry, kseq) = if retarget.is_some() { ("ConvRetargetUnit", "ConvRetargetEntry", "ConvRetargetSeq") } else { ("ConvUnit", "ConvEntry", "ConvLineSeq") };
    let (mout2, again): (Vec<UnitDump>, J) = match convert_write(&d1, api2, seed, endian) {
        Err((stage, err)) => (Vec::new(), json!({"ok":false,"stage":stage,"err":err})),
        Ok(s2) => match dwarf_dump(&load_dwarf(&s2, endian), endian) {
            Ok(m) => (m, again_ok()),
            Err(e) => (Vec::new(), json!({"ok":false,"stage":"read","err":e})),
        },
    };
    let ok2 = again["ok"] == true;
    let pick3 = |a: Option<&J>, b: Option<&J>, c: Option<&J>, absent: &dyn Fn() -> J| -> (J, J, J) {
        let m1 = b.cloned().unwrap_or_else(absent);
        let m2 = if ok2 { c.cloned().unwrap_or_else(absent) } else { m1.clone() };
        (a.cloned().unwrap_or_else(absent), m1, m2)
    };
    let nu = min.len().max(mout.len()).max(mout2.len());
    let total_entries: usize = min.iter().map(|u| u.entries.len()).sum();
    let total_seqs: usize = min.iter().map(|u| u.seqs.len()).sum();
    let mut ecount = 0usize;
    let mut scount = 0usize;
    for ui in 0..nu {
        let (a, b, c3) = (min.get(ui), mout.get(ui), mout2.get(ui));
        let mut ev = tag();
        ev["ev"] = json!(kunit);
        ev["tv"] = json!(retarget.unwrap_or(0));
        ev["unit"] = json!(ui);
        ev["again"] = again.clone();
        let (x, y, z) = pick3(a.map(|u| &u.hdr), b.map(|u| &u.hdr), c3.map(|u| &u.hdr), &absent_unit);
        ev["min"] = x;
        ev["mout"] = y;
        ev["mout2"] = z;
        evs.push(ev);
        if a.is_none() || b.is_none() {
            // a whole unit is missing on one side: the ConvUnit event says so; its parts are not listed
            continue;
        }
        let ne = [a, b, c3].iter().map(|u| u.map(|u| u.entries.len()).unwrap_or(0)).max().unwrap_or(0);
        for ei in 0..ne {
            let common = [a, b].iter().map(|u| u.map(|u| u.entries.len()).unwrap_or(0)).min().unwrap_or(0);
            ecount += 1;
            if !(sample(ecount, total_entries.max(1)) || ei >= common || ei == 0) {
                continue;
            }
            let mut ev = tag();
            ev["ev"] = json!(kentry);
            ev["unit"] = json!(ui);
            ev["idx"] = json!(ei);
            ev["again"] = again.clone();
            let (x, y, z) = pick3(a.and_then(|u| u.entries.get(ei)), b.and_then(|u| u.entries.get(ei)), c3.and_then(|u| u.entries.get(ei)), &absent_entry);
            ev["min"] = x;
            ev["mout"] = y;
            ev["mout2"] = z;
            evs.push(ev);
        }
        if nolines {
            // the caller chose not to convert line programs
            continue;
        }
        if retarget.is_none() {
            // (a re-targeted header legitimately gains or loses the index-0 entries and the
            // fields the other version cannot hold: only rows and file attributes are compared)
            let mut ev = tag();
            ev["ev"] = json!("ConvLineHeader");
            ev["unit"] = json!(ui);
            ev["again"] = again.clone();
            let (x, y, z) = pick3(a.map(|u| &u.line_hdr), b.map(|u| &u.line_hdr), c3.map(|u| &u.line_hdr), &absent_line_hdr);
            ev["min"] = x;
            ev["mout"] = y;
            ev["mout2"] = z;
            evs.push(ev);
        }
        let ns = [a, b, c3].iter().map(|u| u.map(|u| u.seqs.len()).unwrap_or(0)).max().unwrap_or(0);
        for si in 0..ns {
            let common = [a, b].iter().map(|u| u.map(|u| u.seqs.len()).unwrap_or(0)).min().unwrap_or(0);
            scount += 1;
            if !(sample(scount, total_seqs.max(1)) || si >= common) {
                continue;
            }
            let mut ev = tag();
            ev["ev"] = json!(kseq);
            ev["unit"] = json!(ui);
            ev["seq"] = json!(si);
            ev["ins"] = a.map(|u| u.line_hdr["ins"].clone()).unwrap_or(json!([]));
            ev["maxops"] = a.map(|u| u.line_hdr["maxops"].clone()).unwrap_or(json!(0));
            ev["again"] = again.clone();
            let (x, y, z) = pick3(a.and_then(|u| u.seqs.get(si)), b.and_then(|u| u.seqs.get(si)), c3.and_then(|u| u.seqs.get(si)), &absent_seq);
            ev["min"] = x;
            ev["mout"] = y;
            ev["mout2"] = z;
            evs.push(ev);
        }
    }
    let mut ev = tag();
    ev["ev"] = json!("ConvDone");
    ev["part"] = json!("units");
    ev["nin"] = json!(min.len());
    ev["nout"] = json!(mout.len());
    ev["nout2"] = json!(if ok2 { mout2.len() } else { mout.len() });
    ev["again"] = again;
    evs.push(ev);
}

/// A stand-alone line program (no unit): `Dwarf::read_line_program`.
fn run_line(base: &str, secs: Secs, endian: RunTimeEndian, asz: u8, api: &str, evs: &mut Vec<J>) {
    let by_sequence = api == "read_sequence";
    let all_in_one = api == "convert";
    let tag = || json!({"what":"line","base":base,"api":api});
    let dump = |secs: &Secs| -> Result<(J, Vec<J>, gimli::Dwarf<Rd<'static>>, gimli::IncompleteLineProgram<Rd<'static>>), String> {
        let d = load_dwarf(secs, endian);
        let p = d
            .debug_line
            .program(gimli::DebugLineOffset(0), asz, None, None)
            .map_err(|e| format!("header:{}", err_name(&e)))?;
        let (h, s) = line_dump(&d, None, &p);
        Ok((h, s, d, p))
    };
    let conv = |d: &'static gimli::Dwarf<Rd<'static>>, p: gimli::IncompleteLineProgram<Rd<'static>>| -> Result<Secs, (String, String)> {
        let mut w = write::Dwarf::new();
        let program = if all_in_one {
            let cp = w.read_line_program(d, p, None, None).map_err(|e| ("convert".to_string(), format!("{:?}", e)))?;
            cp.convert(&ca).map_err(|e| ("convert".to_string(), format!("{:?}", e)))?.0
        } else {
            let mut cp = w.read_line_program(d, p, None, None).map_err(|e| ("convert".to_string(), format!("{:?}", e)))?;
            let r: Result<(), write::ConvertError> = (|| {
                if by_sequence {
                    while let Some(sequence) = cp.read_sequence()? {
                        if let Some(start) = sequence.start {
                            cp.set_address(Address::Constant(start));
                        }
                        for row in sequence.rows {
                            cp.generate_row(row);
                        }
                        if let write::ConvertLineSequenceEnd::Length(length) = sequence.end {
                            cp.end_sequence(length);
                        }
                    }
                } else {
                    while let Some(row) = cp.read_row()? {
                        match row {
                            write::ConvertLineRow::SetAddress(a) => cp.set_address(Address::Constant(a)),
                            write::ConvertLineRow::Row(r) => cp.generate_row(r),
                            write::ConvertLineRow::EndSequence(l) => cp.end_sequence(l),
                        }
                    }
                }
                if cp.in_sequence() {
                    return Err(write::ConvertError::MissingLineEndSequence);
                }
                Ok(())
            })();
            r.map_err(|e| ("convert".to_string(), format!("{:?}", e)))?;
            cp.program().0
        };
        w.line_programs.push(program);
        let mut sections = write::Sections::new(EndianVec::new(endian));
        w.write(&mut sections).map_err(|e| ("write".to_string(), format!("{:?}", e)))?;
        Ok(sections_of(&sections))
    };
    let (h0, s0, d0, p0) = match dump(&secs) {
        Ok(x) => x,
        Err(e) => {
            evs.push(json!({"ev":"InputRejected","what":"line","base":base,"err":e}));
            return;
        }
    };
    let d0: &'static gimli::Dwarf<Rd<'static>> = Box::leak(Box::new(d0));
    let s1 = match conv(d0, p0) {
        Ok(s) => s,
        Err((stage, err)) => {
            evs.push(json!({"ev":"ConvertFailed","what":"line","base":base,"api":api,"out":"","stage":stage,"err":err}));
            return;
        }
    };
    let (h1, q1, d1, p1) = match dump(&s1) {
        Ok(x) => x,
        Err(e) => {
            evs.push(json!({"ev":"Abnormal","what":"line","base":base,"api":api,"why":"output unreadable","err":e}));
            return;
        }
    };
    let d1: &'static gimli::Dwarf<Rd<'static>> = Box::leak(Box::new(d1));
    let (h2, q2, again) = match conv(d1, p1) {
        Err((stage, err)) => (h1.clone(), q1.clone(), json!({"ok":false,"stage":stage,"err":err})),
        Ok(s2) => match dump(&s2) {
            Ok((h, q, _, _)) => (h, q, again_ok()),
            Err(e) => (h1.clone(), q1.clone(), json!({"ok":false,"stage":"read","err":e})),
        },
    };
    let ins0 = h0["ins"].clone();
    let maxops0 = h0["maxops"].clone();
    let mut ev = tag();
    ev["ev"] = json!("ConvLineHeader");
    ev["unit"] = json!(0);
    ev["again"] = again.clone();
    ev["min"] = h0;
    ev["mout"] = h1;
    ev["mout2"] = h2;
    evs.push(ev);
    let n = s0.len().max(q1.len()).max(q2.len());
    for i in 0..n {
        let mut ev = tag();
        ev["ev"] = json!("ConvLineSeq");
        ev["unit"] = json!(0);
        ev["seq"] = json!(i);
        ev["again"] = again.clone();
        ev["ins"] = ins0.clone();
        ev["maxops"] = maxops0.clone();
        ev["min"] = s0.get(i).cloned().unwrap_or_else(absent_seq);
        ev["mout"] = q1.get(i).cloned().unwrap_or_else(absent_seq);
        ev["mout2"] = q2.get(i).cloned().unwrap_or_else(absent_seq);
        evs.push(ev);
    }
}

// ===========================================================================
// "gen": DWARF produced by gimli's own writer from seeded random content.
// The writer is only a generator here: whatever it writes is the INPUT of the
// conversion; a seed the writer refuses is skipped (event GenFailed).
// ===========================================================================
fn gen_expr(r: &mut Rng, enc: Encoding, bases: &[write::UnitEntryId], locals: &[write::UnitEntryId], globals: &[(write::UnitId, write::UnitEntryId)], depth: u32) -> write::Expression {
    let mut x = write::Expression::new();
    let n = r.range(1, 7) as usize;
    let mut branches: Vec<(usize, usize)> = Vec::new();
    for _ in 0..n {
        match r.below(30) {
            0 => x.op(*r.pick(&[c::DW_OP_plus, c::DW_OP_minus, c::DW_OP_dup, c::DW_OP_drop, c::DW_OP_and, c::DW_OP_deref, c::DW_OP_call_frame_cfa, c::DW_OP_stack_value, c::DW_OP_nop, c::DW_OP_lit0, c::DW_OP_lit31, c::DW_OP_push_object_address])),
            1 => x.op_addr(Address::Constant(r.boundary64() & if enc.address_size == 4 { 0xffff_ffff } else { u64::MAX })),
            2 | 3 => x.op_constu(r.boundary64()),
            4 | 5 => x.op_consts(r.boundary64() as i64),
            6 => x.op_fbreg(r.boundary64() as i64),
            7 | 8 => x.op_breg(Register(*r.pick(&[0u16, 6, 31, 32, 127, 300])), r.boundary64() as i64),
            9 => x.op_reg(Register(*r.pick(&[0u16, 31, 32, 1000]))),
            10 => x.op_pick(r.below(4) as u8),
            11 => x.op_deref_size(*r.pick(&[1u8, 2, 4, 8])),
            12 => x.op_plus_uconst(r.boundary64()),
            13 | 14 => {
                let i = x.op_skip();
                branches.push((i, r.below(n as u64 + 1) as usize));
            }
            15 | 16 => {
                let i = x.op_bra();
                branches.push((i, r.below(n as u64 + 1) as usize));
            }
            17 if !locals.is_empty() => x.op_call(*r.pick(locals)),
            18 if !globals.is_empty() => {
                let g = *r.pick(globals);
                x.op_call_ref(write::DebugInfoRef::Entry(g.0, g.1))
            }
            19 if !bases.is_empty() => x.op_const_type(*r.pick(bases), (0..*r.pick(&[1u64, 4, 8])).map(|_| r.below(256) as u8).collect::<Vec<u8>>().into_boxed_slice()),
            20 if !bases.is_empty() => x.op_regval_type(Register(r.below(40) as u16), *r.pick(bases)),
            21 if !bases.is_empty() => x.op_deref_type(*r.pick(&[1u8, 4, 8]), *r.pick(bases)),
            22 => {
                let b = if bases.is_empty() || r.chance(1, 3) { None } else { Some(*r.pick(bases)) };
                if r.chance(1, 2) {
                    x.op_convert(b)
                } else {
                    x.op_reinterpret(b)
                }
            }
            23 if depth == 0 => {
                let sub = gen_expr(r, enc, bases, &[], &[], 1);
                x.op_entry_value(sub)
            }
            24 => x.op_implicit_value((0..r.below(5)).map(|_| r.below(256) as u8).collect::<Vec<u8>>().into_boxed_slice()),
            25 if !globals.is_empty() => {
                let g = *r.pick(globals);
                x.op_implicit_pointer(write::DebugInfoRef::Entry(g.0, g.1), r.boundary64() as i64)
            }
            26 => x.op_piece(r.below(300)),
            27 => x.op_bit_piece(r.below(300), r.below(70)),
            28 if !locals.is_empty() => x.op_gnu_parameter_ref(*r.pick(locals)),
            29 if !globals.is_empty() => {
                let g = *r.pick(globals);
                x.op_variable_value(write::DebugInfoRef::Entry(g.0, g.1))
            }
            _ => x.op_constu(r.below(40)),
        }
    }
    let len = n; // number of operations pushed is n (each arm pushes exactly one)
    for (i, t) in branches {
        let t = if t == i { (t + 1) % (len + 1) } else { t };
        x.set_target(i, t);
    }
    x
}

/// Raw expression bytes with constants in NON-canonical forms next to forward and backward
/// branches: conversion re-encodes the constants (their size changes) and has to retarget
/// the branches.  (Byte layout only; what the bytes mean is read back by gimli's reader.)
fn gen_raw_expr(r: &mut Rng, endian: RunTimeEndian) -> write::Expression {
    let le = endian == RunTimeEndian::Little;
    let fix = |v: u64, n: usize| -> Vec<u8> {
        let b = v.to_le_bytes()[..n].to_vec();
        if le { b } else { b.into_iter().rev().collect() }
    };
    let small = |r: &mut Rng| *r.pick(&[0u64, 1, 5, 31, 32, 127, 128, 255, 256, 65535, 65536]);
    let mut x: Vec<u8> = Vec::new();
    match r.below(3) {
        0 => {
            // lit0; bra +9 (over const8u); const8u v; const2u w; plus
            x.push(0x30);
            x.push(0x28);
            x.extend(fix(9, 2));
            x.push(0x0e);
            x.extend(fix(small(r), 8));
            x.push(0x0a);
            x.extend(fix(small(r) & 0xffff, 2));
            x.push(0x22);
        }
        1 => {
            // const4u v; skip +3 (over const2u); const2u w; const1u b; bra -16 (to the start)
            x.push(0x0c);
            x.extend(fix(small(r) & 0xffff_ffff, 4));
            x.push(0x2f);
            x.extend(fix(3, 2));
            x.push(0x0a);
            x.extend(fix(small(r) & 0xffff, 2));
            x.push(0x08);
            x.push(small(r) as u8);
            x.push(0x28);
            x.extend(fix((-16i16) as u16 as u64, 2));
        }
        _ => {
            // const1s; const2s; const4s; const8s; bra +0 (to the end); skip -4 (to the bra... i.e. itself's predecessor)
            x.push(0x09);
            x.push(small(r) as u8);
            x.push(0x0b);
            x.extend(fix(small(r) & 0xffff, 2));
            x.push(0x0d);
            x.extend(fix(small(r) & 0xffff_ffff, 4));
            x.push(0x0f);
            x.extend(fix(small(r).wrapping_neg(), 8));
            x.push(0x28);
            x.extend(fix(3, 2));
            x.push(0x2f);
            x.extend(fix((-15i16) as u16 as u64, 2));
        }
    }
    write::Expression::raw(x)
}

/// An expression that does NOT start with DW_OP_constu, contains the byte 0x10 (as the
/// DW_OP_constu opcode and/or as an operand) in a later position, and refers to entries:
/// references must follow their target when the unit's layout changes.
fn gen_ref_expr(r: &mut Rng, bases: &[write::UnitEntryId], locals: &[write::UnitEntryId], globals: &[(write::UnitId, write::UnitEntryId)]) -> write::Expression {
    let mut x = write::Expression::new();
    match r.below(3) {
        0 => x.op_breg(Register(1), 0x10),
        1 => x.op_fbreg(0x10),
        _ => x.op(c::DW_OP_dup),
    }
    if r.chance(2, 3) {
        x.op_constu(*r.pick(&[0x10u64, 40, 1000]));
    }
    for _ in 0..r.range(1, 3) {
        match r.below(6) {
            0 if !locals.is_empty() => x.op_call(*r.pick(locals)),
            1 if !globals.is_empty() => {
                let g = *r.pick(globals);
                x.op_call_ref(write::DebugInfoRef::Entry(g.0, g.1))
            }
            2 if !globals.is_empty() => {
                let g = *r.pick(globals);
                x.op_implicit_pointer(write::DebugInfoRef::Entry(g.0, g.1), 0x10)
            }
            3 if !bases.is_empty() => x.op_regval_type(Register(0x10), *r.pick(bases)),
            4 if !bases.is_empty() => x.op_const_type(*r.pick(bases), vec![0x10u8, 0, 0, 0].into_boxed_slice()),
            5 if !locals.is_empty() => x.op_gnu_parameter_ref(*r.pick(locals)),
            _ => x.op_plus_uconst(0x10),
        }
    }
    x
}

fn gen_dwarf(seed: u64, endian: RunTimeEndian) -> Result<Secs, String> {
    let mut r = Rng::new(seed);
    let mut dwarf = write::Dwarf::new();
    let nunits = r.range(1, 3) as usize;
    let mut unit_ids = Vec::new();
    let mut encs = Vec::new();
    for _ in 0..nunits {
        let enc = Encoding {
            version: r.range(2, 5) as u16,
            format: if r.chance(1, 4) { Format::Dwarf64 } else { Format::Dwarf32 },
            address_size: *r.pick(&[4u8, 8]),
        };
        let with_lines = r.chance(3, 4);
        let lp = if with_lines {
            let lenc = gimli::LineEncoding {
                minimum_instruction_length: *r.pick(&[1u8, 1, 2, 4]),
                maximum_operations_per_instruction: if enc.version >= 4 && r.chance(1, 4) { *r.pick(&[2u8, 4]) } else { 1 },
                default_is_stmt: r.chance(1, 2),
                line_base: 0,
                line_range: 0,
            };
            let (lb, lr) = *r.pick(&[(-5i8, 14u8), (-3, 12), (-1, 4), (0, 1), (-128, 255), (-3, 4)]);
            let lenc = gimli::LineEncoding { line_base: lb, line_range: lr, ..lenc };
            // all directory and file names of one program must use the same form
            let inline_strings = enc.version <= 4 || r.chance(1, 2);
            let mk = |b: &[u8], ls: &mut write::LineStringTable| -> write::LineString {
                if inline_strings { write::LineString::String(b.to_vec()) } else { write::LineString::new(b, enc, ls) }
            };
            let wd = mk(&b"/work/dir"[..], &mut dwarf.line_strings);
            let sf = mk(&b"main.c"[..], &mut dwarf.line_strings);
            let mut p = write::LineProgram::new(enc, lenc, wd, None, sf, None);
            // every subset of {timestamp, size, MD5, source} independently (DWARF 5 entry formats;
            // earlier versions always carry timestamp and size)
            p.file_has_timestamp = r.chance(1, 2);
            p.file_has_size = r.chance(1, 2);
            if enc.version >= 5 {
                p.file_has_md5 = r.chance(1, 2);
                p.file_has_source = r.chance(1, 3);
            }
            let has_source = p.file_has_source;
            let mut dirs = vec![p.default_directory()];
            for k in 0..r.below(3) {
                let name = format!("inc{}", k);
                let ls = mk(name.as_bytes(), &mut dwarf.line_strings);
                dirs.push(p.add_directory(ls));
            }
            let mut files = Vec::new();
            for k in 0..r.range(1, 4) {
                let name = format!("f{}.h", k % 3);
                let info = if r.chance(5, 6) {
                    let source = if has_source { Some(mk(format!("source text {}", k).as_bytes(), &mut dwarf.line_strings)) } else { None };
                    Some(write::FileInfo { timestamp: 1 + r.below(1000), size: 1 + r.below(100_000), md5: [k as u8 + 1; 16], source })
                } else {
                    None
                };
                let ls = mk(name.as_bytes(), &mut dwarf.line_strings);
                files.push(p.add_file(ls, *r.pick(&dirs), info));
            }
            let mil = lenc.minimum_instruction_length as u64;
            let mut base = 0x1000u64;
            let nseq = r.range(1, 4);
            let mut live = false;
            for si in 0..nseq {
                base += r.below(0x1000) * mil;
                // sequence kinds, in any order within one program: with its own set_address;
                // WITHOUT one (starts at address 0); moved to a tombstone address (-1 / -2 at the
                // address size) from its start; (rows may be empty)
                let tomb = u64::MAX >> (64 - 8 * enc.address_size as u32);
                // at least one sequence of every program is live (a program whose sequences are all
                // tombstoned converts to a unit without line program: notes/C12.md, open question)
                let mut kind = r.below(8);
                if si + 1 == nseq && !live && (kind == 2 || kind == 3) {
                    kind = 5;
                }
                if kind != 2 && kind != 3 {
                    live = true;
                }
                match kind {
                    0 | 1 => p.begin_sequence(None),
                    2 | 3 => p.begin_sequence(Some(Address::Constant(tomb))),
                    _ => p.begin_sequence(Some(Address::Constant(base))),
                }
                // (mid-way tombstones are not generated here: see notes/C12.md D10)
                let tomb_after = u64::MAX;
                let mut nrow = 0u64;
                let mut off = 0u64;
                let mut line = 1u64;
                let mut opi = 0u64;
                for _ in 0..r.range(0, 12) {
                    let row = p.row();
                    let adv = mil * match r.below(6) { 0 => 0, 1 => 1, 2 => r.below(20), 3 => r.below(300), 4 => r.below(70000), _ => 2 };
                    off += adv;
                    row.address_offset = off;
                    if lenc.maximum_operations_per_instruction > 1 {
                        let m = lenc.maximum_operations_per_instruction as u64;
                        opi = if adv == 0 { opi + r.below(m - opi) } else { r.below(m) };
                        row.op_index = opi;
                    }
                    line = match r.below(5) { 0 => line, 1 => line + 1, 2 => line + r.below(20), 3 => line.saturating_sub(r.below(10)), _ => r.below(100000) };
                    row.line = line;
                    row.column = if r.chance(1, 2) { r.below(200) } else { 0 };
                    row.file = *r.pick(&files);
                    row.is_statement = r.chance(3, 4);
                    row.basic_block = r.chance(1, 8);
                    row.prologue_end = r.chance(1, 8);
                    row.epilogue_begin = r.chance(1, 8);
                    row.isa = if r.chance(1, 8) { r.below(5) } else { 0 };
                    row.discriminator = if enc.version >= 4 && r.chance(1, 5) { r.below(300) } else { 0 };
                    p.generate_row();
                    nrow += 1;
                    if nrow == tomb_after {
                        p.set_address(Address::Constant(tomb));
                    }
                }
                off += mil * r.range(1, 40);
                p.end_sequence(off);
                base += off;
            }
            p
        } else {
            write::LineProgram::none()
        };
        let id = dwarf.units.add(write::Unit::new(enc, lp));
        unit_ids.push((id, with_lines));
        encs.push(enc);
    }
    // entries: first create all entries of all units (so that references can go anywhere)
    let tags = [c::DW_TAG_subprogram, c::DW_TAG_variable, c::DW_TAG_formal_parameter, c::DW_TAG_lexical_block, c::DW_TAG_structure_type,
                c::DW_TAG_member, c::DW_TAG_pointer_type, c::DW_TAG_typedef, c::DW_TAG_namespace, c::DW_TAG_inlined_subroutine, c::DW_TAG_base_type];
    let mut vts: Vec<Option<(write::UnitEntryId, Vec<write::UnitEntryId>)>> = Vec::new();
    let mut all: Vec<Vec<write::UnitEntryId>> = Vec::new();
    let mut bases_of: Vec<Vec<write::UnitEntryId>> = Vec::new();
    for (ui, (uid, _)) in unit_ids.iter().enumerate() {
        let unit = dwarf.units.get_mut(*uid);
        let root = unit.root();
        let mut ids = vec![root];
        // possible parents: not inside the subtree of a root-level base type (those subtrees are
        // written first, an expression there could only refer forward to the other base types)
        let mut parents = vec![root];
        let mut bases = Vec::new();
        let n = r.range(3, 30);
        for k in 0..n {
            let parent = if r.chance(1, 3) { root } else { *r.pick(&parents) };
            let tag = if k % 7 == 3 { c::DW_TAG_base_type } else { *r.pick(&tags) };
            let id = unit.add(parent, tag);
            if tag == c::DW_TAG_base_type && parent == root {
                bases.push(id);
            } else {
                parents.push(id);
            }
            ids.push(id);
        }
        // "typed vtable" units: a large base type followed by a run of small ones, so that the
        // small ones sit at unit offsets 2048..2175 (second ULEB128 byte 0x10); see below
        let vt = if r.chance(1, 4) {
            let big = unit.add(root, c::DW_TAG_base_type);
            bases.push(big);
            ids.push(big);
            let mut small = Vec::new();
            for _ in 0..14 {
                let b = unit.add(root, c::DW_TAG_base_type);
                bases.push(b);
                ids.push(b);
                small.push(b);
            }
            Some((big, small))
        } else {
            None
        };
        vts.push(vt);
        let _ = ui;
        all.push(ids);
        bases_of.push(bases);
    }
    let globals: Vec<(write::UnitId, write::UnitEntryId)> = unit_ids
        .iter()
        .zip(all.iter())
        .flat_map(|((uid, _), ids)| ids.iter().skip(1).map(move |e| (*uid, *e)))
        .collect();
    for (ui, (uid, with_lines)) in unit_ids.iter().enumerate() {
        let enc = encs[ui];
        let amask = if enc.address_size == 4 { 0xffff_ffffu64 } else { u64::MAX };
        let locals: Vec<write::UnitEntryId> = all[ui].iter().skip(1).cloned().collect();
        let bases = bases_of[ui].clone();
        let low_pc = if r.chance(2, 3) { 0x1000 + r.below(0x1000) } else { 0 };
        {
            let name = dwarf.strings.add(format!("unit{}.c", ui).into_bytes());
            let unit = dwarf.units.get_mut(*uid);
            let root = unit.root();
            let e = unit.get_mut(root);
            e.set(c::DW_AT_name, write::AttributeValue::StringRef(name));
            e.set(c::DW_AT_comp_dir, write::AttributeValue::String(b"/work/dir".to_vec()));
            e.set(c::DW_AT_language, write::AttributeValue::Language(c::DW_LANG_C11));
            if *with_lines {
                e.set(c::DW_AT_stmt_list, write::AttributeValue::LineProgramRef);
            }
            e.set(c::DW_AT_low_pc, write::AttributeValue::Address(Address::Constant(low_pc)));
        }
        let files: Vec<write::FileId> = {
            let unit = dwarf.units.get(*uid);
            if *with_lines { unit.line_program.files().map(|f| f.0).collect() } else { Vec::new() }
        };
        let names = [c::DW_AT_location, c::DW_AT_type, c::DW_AT_byte_size, c::DW_AT_decl_file, c::DW_AT_decl_line, c::DW_AT_external,
                     c::DW_AT_const_value, c::DW_AT_ranges, c::DW_AT_frame_base, c::DW_AT_linkage_name, c::DW_AT_abstract_origin,
                     c::DW_AT_data_member_location, c::DW_AT_encoding, c::DW_AT_signature, c::DW_AT_call_file, c::DW_AT_upper_bound,
                     c::DW_AT_description, c::DW_AT_high_pc, c::DW_AT_entry_pc, c::DW_AT_specification, c::DW_AT_artificial, c::DW_AT_accessibility,
                     // every other attribute of class exprloc
                     c::DW_AT_vtable_elem_location, c::DW_AT_vtable_elem_location, c::DW_AT_string_length, c::DW_AT_static_link,
                     c::DW_AT_use_location, c::DW_AT_allocated, c::DW_AT_associated, c::DW_AT_data_location, c::DW_AT_call_value,
                     c::DW_AT_call_target, c::DW_AT_lower_bound, c::DW_AT_count, c::DW_AT_byte_stride, c::DW_AT_segment, c::DW_AT_rank];
        // the first few entries of most units carry a non-canonical raw expression: conversion
        // re-encodes it shorter, so the offsets of all later entries SHIFT
        let shifters: Vec<write::UnitEntryId> = if r.chance(4, 5) { locals.iter().filter(|e| !bases.contains(e)).take(r.range(1, 3) as usize).cloned().collect() } else { Vec::new() };
        // typed vtable unit: the ROOT carries a non-canonical expression (it shrinks on conversion,
        // so every base type moves), the padding base type has a ~2000 byte name, and some entries
        // get DW_AT_vtable_elem_location = ONE typed operation naming one of the small base types
        let vt = vts[ui].clone();
        let mut vt_users: Vec<write::UnitEntryId> = Vec::new();
        if let Some((_, small)) = &vt {
            let x = gen_raw_expr(&mut r, endian);
            let unit = dwarf.units.get_mut(*uid);
            let root = unit.root();
            unit.get_mut(root).set(c::DW_AT_return_addr, write::AttributeValue::Exprloc(x));
            for &e in locals.iter().filter(|e| !bases.contains(e)).take(6) {
                let b = *r.pick(small);
                let mut x = write::Expression::new();
                if r.chance(1, 2) { x.op_convert(Some(b)) } else { x.op_reinterpret(Some(b)) }
                unit.get_mut(e).set(c::DW_AT_vtable_elem_location, write::AttributeValue::Exprloc(x));
                vt_users.push(e);
            }
        }
        for &eid in locals.iter() {
            let is_base = bases.contains(&eid);
            let nattr = if is_base { 0 } else { r.below(6) };
            {
                let nm = if vt.as_ref().map(|v| v.0 == eid).unwrap_or(false) { "p".repeat(1975) } else { format!("e{}", r.below(50)) };
                let v = if nm.len() < 100 && r.chance(1, 2) { write::AttributeValue::StringRef(dwarf.strings.add(nm.into_bytes())) } else { write::AttributeValue::String(nm.into_bytes()) };
                dwarf.units.get_mut(*uid).get_mut(eid).set(c::DW_AT_name, v);
            }
            if shifters.contains(&eid) {
                let x = gen_raw_expr(&mut r, endian);
                dwarf.units.get_mut(*uid).get_mut(eid).set(c::DW_AT_return_addr, write::AttributeValue::Exprloc(x));
            }
            for _ in 0..nattr {
                let name = *r.pick(&names);
                if name == c::DW_AT_vtable_elem_location && vt_users.contains(&eid) {
                    continue;
                }
                if files.is_empty() && (name == c::DW_AT_decl_file || name == c::DW_AT_call_file) {
                    continue;
                }
                let v = match name {
                    c::DW_AT_vtable_elem_location | c::DW_AT_string_length | c::DW_AT_return_addr | c::DW_AT_static_link
                    | c::DW_AT_use_location | c::DW_AT_allocated | c::DW_AT_associated | c::DW_AT_data_location | c::DW_AT_call_value
                    | c::DW_AT_call_target | c::DW_AT_lower_bound | c::DW_AT_count | c::DW_AT_byte_stride | c::DW_AT_segment | c::DW_AT_rank => {
                        if r.chance(1, 2) {
                            write::AttributeValue::Exprloc(gen_ref_expr(&mut r, &bases, &locals, &globals))
                        } else {
                            write::AttributeValue::Exprloc(gen_expr(&mut r, enc, &bases, &locals, &globals, 0))
                        }
                    }
                    c::DW_AT_location | c::DW_AT_frame_base | c::DW_AT_data_member_location => {
                        if r.chance(1, 3) && name == c::DW_AT_location {
                            let mut list = Vec::new();
                            let mut have_base = low_pc != 0;
                            for _ in 0..r.range(1, 4) {
                                let data = gen_expr(&mut r, enc, &bases, &locals, &globals, 0);
                                let b = r.below(0x10000);
                                let len = r.range(1, 0x100);
                                match r.below(5) {
                                    0 => {
                                        list.push(write::Location::BaseAddress { address: Address::Constant(0x2000 + r.below(0x1000)) });
                                        have_base = true;
                                    }
                                    1 if have_base => list.push(write::Location::OffsetPair { begin: b, end: b + len, data }),
                                    2 if !have_base || enc.version >= 5 => list.push(write::Location::StartEnd { begin: Address::Constant(b), end: Address::Constant(b + len), data }),
                                    3 if !have_base || enc.version >= 5 => list.push(write::Location::StartLength { begin: Address::Constant(b), length: len, data }),
                                    4 if enc.version >= 5 => list.push(write::Location::DefaultLocation { data }),
                                    _ => {}
                                }
                            }
                            let id = dwarf.units.get_mut(*uid).locations.add(write::LocationList(list));
                            write::AttributeValue::LocationListRef(id)
                        } else if r.chance(1, 5) {
                            write::AttributeValue::Exprloc(gen_raw_expr(&mut r, endian))
                        } else {
                            write::AttributeValue::Exprloc(gen_expr(&mut r, enc, &bases, &locals, &globals, 0))
                        }
                    }
                    c::DW_AT_type | c::DW_AT_abstract_origin | c::DW_AT_specification => {
                        if r.chance(2, 3) {
                            write::AttributeValue::UnitRef(*r.pick(&locals))
                        } else {
                            let g = *r.pick(&globals);
                            write::AttributeValue::DebugInfoRef(write::DebugInfoRef::Entry(g.0, g.1))
                        }
                    }
                    c::DW_AT_byte_size | c::DW_AT_upper_bound => match r.below(6) {
                        0 => write::AttributeValue::Data1(r.next() as u8),
                        1 => write::AttributeValue::Data2(r.next() as u16),
                        2 => write::AttributeValue::Data4(r.next() as u32),
                        3 => write::AttributeValue::Data8(r.boundary64()),
                        4 => write::AttributeValue::Sdata(r.boundary64() as i64),
                        _ => write::AttributeValue::Udata(r.boundary64()),
                    },
                    c::DW_AT_decl_file | c::DW_AT_call_file => {
                        if files.is_empty() { write::AttributeValue::Udata(r.below(3)) } else if enc.version <= 4 && r.chance(1, 8) { write::AttributeValue::FileIndex(None) } else { write::AttributeValue::FileIndex(Some(*r.pick(&files))) }
                    }
                    c::DW_AT_decl_line => write::AttributeValue::Udata(r.below(100000)),
                    c::DW_AT_external | c::DW_AT_artificial => if r.chance(1, 2) { write::AttributeValue::FlagPresent } else { write::AttributeValue::Flag(r.chance(1, 2)) },
                    c::DW_AT_const_value => match r.below(4) {
                        0 => write::AttributeValue::Block((0..r.below(20)).map(|_| r.below(256) as u8).collect()),
                        1 => write::AttributeValue::Sdata(r.boundary64() as i64),
                        2 => write::AttributeValue::Data16(((r.next() as u128) << 64) | r.next() as u128),
                        _ => write::AttributeValue::String(format!("s{}", r.below(9)).into_bytes()),
                    },
                    c::DW_AT_ranges => {
                        let mut list = Vec::new();
                        let mut have_base = low_pc != 0;
                        for _ in 0..r.range(1, 5) {
                            let b = (r.below(0x10000)) & amask;
                            let len = r.range(1, 0x100);
                            match r.below(4) {
                                0 => {
                                    list.push(write::Range::BaseAddress { address: Address::Constant(0x3000 + r.below(0x1000)) });
                                    have_base = true;
                                }
                                1 if have_base => list.push(write::Range::OffsetPair { begin: b, end: b + len }),
                                2 if !have_base || enc.version >= 5 => list.push(write::Range::StartEnd { begin: Address::Constant(b), end: Address::Constant(b + len) }),
                                3 if !have_base || enc.version >= 5 => list.push(write::Range::StartLength { begin: Address::Constant(b), length: len }),
                                _ => {}
                            }
                        }
                        let id = dwarf.units.get_mut(*uid).ranges.add(write::RangeList(list));
                        write::AttributeValue::RangeListRef(id)
                    }
                    c::DW_AT_linkage_name | c::DW_AT_description => match r.below(3) {
                        0 => write::AttributeValue::StringRef(dwarf.strings.add(format!("_Z{}", r.below(30)).into_bytes())),
                        1 if enc.version >= 5 => write::AttributeValue::LineStringRef(dwarf.line_strings.add(format!("ls{}", r.below(9)).into_bytes())),
                        _ => write::AttributeValue::String(format!("str{}", r.below(30)).into_bytes()),
                    },
                    c::DW_AT_encoding => write::AttributeValue::Encoding(*r.pick(&[c::DW_ATE_signed, c::DW_ATE_unsigned, c::DW_ATE_float])),
                    c::DW_AT_accessibility => write::AttributeValue::Accessibility(*r.pick(&[c::DW_ACCESS_public, c::DW_ACCESS_private])),
                    c::DW_AT_signature => write::AttributeValue::DebugTypesRef(gimli::DebugTypeSignature(r.next())),
                    c::DW_AT_high_pc => if r.chance(1, 2) { write::AttributeValue::Udata(r.below(0x1000)) } else { write::AttributeValue::Address(Address::Constant(r.boundary64() & amask)) },
                    c::DW_AT_entry_pc => write::AttributeValue::Address(Address::Constant(r.boundary64() & amask)),
                    _ => write::AttributeValue::Udata(r.below(10)),
                };
                dwarf.units.get_mut(*uid).get_mut(eid).set(name, v);
            }
        }
    }
    let mut sections = write::Sections::new(EndianVec::new(endian));
    dwarf.write(&mut sections).map_err(|e| format!("{:?}", e))?;
    Ok(sections_of(&sections))
}

/// Units whose point is the FILE TABLE: >= 2 extra directories, >= 3 files, rows that use
/// every file, entries with DW_AT_decl_file / DW_AT_call_file for every file; or (`lines` =
/// false) units without a line program whose entries carry file indices 0 / 1 / 7 all the same.
/// Only attribute kinds every DWARF version can hold, so that re-targeting can succeed.
fn gen_files(seed: u64, sv: u16, lines: bool, endian: RunTimeEndian) -> Result<Secs, String> {
    let mut r = Rng::new(seed ^ 0x5151);
    let mut dwarf = write::Dwarf::new();
    for ui in 0..r.range(1, 2) {
        let enc = Encoding { version: sv, format: if r.chance(1, 4) { Format::Dwarf64 } else { Format::Dwarf32 }, address_size: 8 };
        let mut files: Vec<write::FileId> = Vec::new();
        let lp = if lines {
            let s = |b: &str| write::LineString::String(b.as_bytes().to_vec());
            let mut p = write::LineProgram::new(enc, gimli::LineEncoding::default(), s("/work/dir"), None, s("main.c"), None);
            let mut dirs = vec![p.default_directory()];
            for k in 0..r.range(2, 3) {
                dirs.push(p.add_directory(s(&format!("/inc/d{}", k))));
            }
            files.push(p.add_file(s("main.c"), dirs[0], None));
            for k in 0..r.range(3, 5) {
                files.push(p.add_file(s(&format!("h{}.h", k)), dirs[(k as usize + 1) % dirs.len()], None));
            }
            let mut base = 0x1000 * (ui + 1);
            for _ in 0..r.range(1, 2) {
                p.begin_sequence(Some(Address::Constant(base)));
                let mut off = 0;
                let start = r.below(files.len() as u64) as usize;
                for k in 0..(files.len() + r.below(3) as usize) {
                    let row = p.row();
                    off += 1 + r.below(9);
                    row.address_offset = off;
                    row.line = 1 + r.below(500);
                    row.file = files[(start + k) % files.len()];
                    p.generate_row();
                }
                off += 4;
                p.end_sequence(off);
                base += off + 0x100;
            }
            p
        } else {
            write::LineProgram::none()
        };
        let id = dwarf.units.add(write::Unit::new(enc, lp));
        let unit = dwarf.units.get_mut(id);
        let root = unit.root();
        {
            let e = unit.get_mut(root);
            e.set(c::DW_AT_name, write::AttributeValue::String(b"main.c".to_vec()));
            e.set(c::DW_AT_comp_dir, write::AttributeValue::String(b"/work/dir".to_vec()));
            e.set(c::DW_AT_low_pc, write::AttributeValue::Address(Address::Constant(0)));
            if lines {
                e.set(c::DW_AT_stmt_list, write::AttributeValue::LineProgramRef);
            }
        }
        let all_zero = !lines && seed % 4 == 0 && sv <= 4;
        let n = if lines { files.len() + 2 } else { 5 };
        for k in 0..n {
            let tag = if k % 3 == 2 { c::DW_TAG_inlined_subroutine } else { c::DW_TAG_variable };
            let e = unit.add(root, tag);
            let at = if tag == c::DW_TAG_variable { c::DW_AT_decl_file } else { c::DW_AT_call_file };
            let v = if lines {
                write::AttributeValue::FileIndex(Some(files[k % files.len()]))
            } else if all_zero {
                write::AttributeValue::Udata(0)
            } else {
                write::AttributeValue::Udata(*r.pick(&[0u64, 1, 1, 7]))
            };
            let ent = unit.get_mut(e);
            ent.set(c::DW_AT_name, write::AttributeValue::String(format!("v{}", k).into_bytes()));
            ent.set(at, v);
            ent.set(c::DW_AT_decl_line, write::AttributeValue::Udata(10 + k as u64));
        }
    }
    let mut sections = write::Sections::new(EndianVec::new(endian));
    dwarf.write(&mut sections).map_err(|e| format!("{:?}", e))?;
    Ok(sections_of(&sections))
}

fn gen_frame(seed: u64, endian: RunTimeEndian, eh: bool) -> Result<Vec<u8>, String> {
    let mut r = Rng::new(seed);
    let mut t = write::FrameTable::default();
    let mut cies = Vec::new();
    for _ in 0..r.range(1, 3) {
        let enc = Encoding { address_size: 8, format: if !eh && r.chance(1, 4) { Format::Dwarf64 } else { Format::Dwarf32 }, version: if eh { 1 } else { *r.pick(&[1u16, 3, 4]) } };
        let caf = *r.pick(&[1u8, 1, 2, 4]);
        let daf = *r.pick(&[-8i8, -4, -1, 1, 8]);
        let mut cie = write::CommonInformationEntry::new(enc, caf, daf, Register(*r.pick(&[16u16, 30])));
        if eh {
            if r.chance(1, 3) {
                cie.personality = Some((*r.pick(&[c::DW_EH_PE_absptr, c::DW_EH_PE_udata4, gimli::DwEhPe(0x1b), gimli::DwEhPe(0x9b), gimli::DwEhPe(0x80)]), Address::Constant(0x4000 + r.below(0x100))));
            }
            if r.chance(1, 3) {
                cie.lsda_encoding = Some(*r.pick(&[c::DW_EH_PE_absptr, c::DW_EH_PE_udata4, gimli::DwEhPe(0x1b), gimli::DwEhPe(0x9b), gimli::DwEhPe(0x83), gimli::DwEhPe(0x80)]));
            }
            cie.fde_address_encoding = *r.pick(&[c::DW_EH_PE_absptr, c::DW_EH_PE_udata4, gimli::DwEhPe(0x1b), c::DW_EH_PE_sdata4]);
            cie.signal_trampoline = r.chance(1, 5);
        }
        cie.add_instruction(write::CallFrameInstruction::Cfa(Register(7), 8));
        if r.chance(3, 4) {
            cie.add_instruction(write::CallFrameInstruction::Offset(Register(16), daf as i32));
        }
        let has_lsda = cie.lsda_encoding.is_some();
        cies.push((t.add_cie(cie), caf, daf, has_lsda, enc));
    }
    let mut addr = 0x1000u64;
    for _ in 0..r.range(1, 6) {
        let (cid, caf, daf, has_lsda, enc) = *r.pick(&cies);
        let len = r.range(0x20, 0x400) as u32;
        let mut fde = write::FrameDescriptionEntry::new(Address::Constant(addr), len);
        if has_lsda {
            fde.lsda = Some(Address::Constant(0x8000 + r.below(0x100)));
        }
        let mut off = 0u32;
        let mut depth = 0;
        let mut cfa_is_expr = false;
        for _ in 0..r.range(0, 14) {
            off += caf as u32 * match r.below(5) { 0 => 0, 1 => 1, 2 => r.below(70) as u32, 3 => r.below(300) as u32, _ => 4 };
            if off >= len {
                break;
            }
            let reg = Register(*r.pick(&[0u16, 3, 6, 12, 16, 62, 63, 64, 65, 70]));
            let d = daf as i32 * r.range(0, 20) as i32;
            let ins = match r.below(17) {
                0 => { cfa_is_expr = false; write::CallFrameInstruction::Cfa(Register(*r.pick(&[6u16, 7])), *r.pick(&[8i32, 16, 4096, -8, -16]) / if daf < 0 { 1 } else { 1 }) }
                1 if !cfa_is_expr => write::CallFrameInstruction::CfaRegister(Register(6)),
                2 if !cfa_is_expr => write::CallFrameInstruction::CfaOffset(*r.pick(&[16i32, 24, 1 << 20, 0])),
                3 => {
                    cfa_is_expr = true;
                    write::CallFrameInstruction::CfaExpression(gen_expr(&mut r, enc, &[], &[], &[], 1))
                }
                4 => write::CallFrameInstruction::Restore(reg),
                5 => write::CallFrameInstruction::Undefined(reg),
                6 => write::CallFrameInstruction::SameValue(reg),
                7 | 8 => write::CallFrameInstruction::Offset(reg, d),
                9 => write::CallFrameInstruction::ValOffset(reg, -d),
                10 => write::CallFrameInstruction::Register(reg, Register(9)),
                11 => write::CallFrameInstruction::Expression(reg, gen_expr(&mut r, enc, &[], &[], &[], 1)),
                12 => write::CallFrameInstruction::ValExpression(reg, gen_expr(&mut r, enc, &[], &[], &[], 1)),
                13 => { depth += 1; write::CallFrameInstruction::RememberState }
                14 if depth > 0 => { depth -= 1; cfa_is_expr = false; write::CallFrameInstruction::RestoreState }
                15 => write::CallFrameInstruction::ArgsSize(r.below(1 << 20) as u32),
                _ => write::CallFrameInstruction::Offset(Register(6), daf as i32 * 2),
            };
            if matches!(ins, write::CallFrameInstruction::RestoreState) {
                // whether the restored CFA is an expression is unknown; stop changing it piecewise
                cfa_is_expr = true;
            }
            fde.add_instruction(off, ins);
        }
        t.add_fde(cid, fde);
        addr += len as u64 + r.below(0x100);
    }
    write_frame(&t, if eh { "eh_frame" } else { "debug_frame" }, endian).map_err(|e| format!("{:?}", e))
}

// ===========================================================================
// inputs
// ===========================================================================
fn read_file(p: &str) -> Option<Vec<u8>> {
    std::fs::read(p).ok()
}

fn base_dir(base: &str) -> Option<String> {
    if base == "self" {
        Some("/repo/fixtures/self".to_string())
    } else if let Some(d) = base.strip_prefix("dir:") {
        Some(d.to_string())
    } else {
        base.strip_prefix("corpus:").map(|v| format!("/verif/corpus/{}", v))
    }
}

/// `.debug_frame` assembled from fields encoded by the specification (MCConvertCfi):
/// the harness only concatenates fields and computes lengths.
fn assemble_cfi(case: &J) -> Vec<u8> {
    let ver = case["ver"].as_u64().unwrap_or(1) as u8;
    let mut cie: Vec<u8> = Vec::new();
    cie.extend_from_slice(&0xffff_ffffu32.to_le_bytes());
    cie.push(ver);
    cie.push(0); // augmentation ""
    if ver >= 4 {
        cie.push(8);
        cie.push(0);
    }
    cie.extend(bytes_of(&case["caf"]));
    cie.extend(bytes_of(&case["daf"]));
    cie.extend(bytes_of(&case["ra"]));
    cie.extend(bytes_of(&case["cie_ins"]));
    let mut sec: Vec<u8> = Vec::new();
    sec.extend_from_slice(&(cie.len() as u32).to_le_bytes());
    sec.extend(cie);
    let mut fde: Vec<u8> = Vec::new();
    fde.extend_from_slice(&0u32.to_le_bytes());
    fde.extend(bytes_of(&case["start"]));
    fde.extend(bytes_of(&case["len"]));
    fde.extend(bytes_of(&case["fde_ins"]));
    sec.extend_from_slice(&(fde.len() as u32).to_le_bytes());
    sec.extend(fde);
    sec
}

fn replay(case: &J) -> J {
    let mut evs: Vec<J> = Vec::new();
    let what = case["what"].as_str().unwrap_or("");
    let base = case["base"].as_str().unwrap_or("");
    let seed = case["seed"].as_u64().unwrap_or(1);
    let nsample = case["sample"].as_u64().unwrap_or(u64::MAX);
    // deterministic sample of `nsample` indices out of n
    let sample = move |i: usize, n: usize| -> bool {
        if nsample >= n as u64 {
            return true;
        }
        let mut r = Rng::new(seed ^ (i as u64).wrapping_mul(0x9e37_79b9));
        r.below(n as u64) < nsample
    };
    match what {
        "frame" => {
            if base == "cfi" {
                run_frame(base, "debug_frame", assemble_cfi(case), RunTimeEndian::Little, 8, &sample, &mut evs);
            } else if base == "gen" {
                let kind = case["section"].as_str().unwrap_or("eh_frame");
                let endian = if seed % 5 == 0 { RunTimeEndian::Big } else { RunTimeEndian::Little };
                let eh = kind == "eh_frame";
                match std::panic::catch_unwind(move || gen_frame(seed, endian, eh)).unwrap_or_else(|p| Err(format!("generator panic: {}", panic_msg(p)))) {
                    Ok(b) => run_frame(base, kind, b, endian, 8, &sample, &mut evs),
                    Err(e) => evs.push(json!({"ev":"GenFailed","what":"frame","base":base,"err":e})),
                }
            } else if base == "raw" {
                let kind = case["section"].as_str().unwrap_or("debug_frame");
                let le = case["le"].as_bool().unwrap_or(true);
                let endian = if le { RunTimeEndian::Little } else { RunTimeEndian::Big };
                let asz = case["asz"].as_u64().unwrap_or(8) as u8;
                run_frame(base, kind, bytes_of(&case["sections"][kind]), endian, asz, &sample, &mut evs);
            } else if let Some(dir) = base_dir(base) {
                let kind = case["section"].as_str().unwrap_or("eh_frame");
                match read_file(&format!("{}/{}", dir, kind)) {
                    Some(b) => run_frame(base, kind, b, RunTimeEndian::Little, 8, &sample, &mut evs),
                    None => evs.push(json!({"ev":"NoInput","what":"frame","base":base,"sec":kind})),
                }
            }
        }
        "dwarf" => {
            let api = case["api"].as_str().unwrap_or("from");
            let le = case["le"].as_bool().unwrap_or(true);
            let endian = if le { RunTimeEndian::Little } else { RunTimeEndian::Big };
            let mut secs = Secs::new();
            let mut endian = endian;
            if base == "gen" {
                if seed % 5 == 0 {
                    endian = RunTimeEndian::Big;
                }
                match std::panic::catch_unwind(move || gen_dwarf(seed, endian)).unwrap_or_else(|p| Err(format!("generator panic: {}", panic_msg(p)))) {
                    Ok(s) => secs = s,
                    Err(e) => {
                        evs.push(json!({"ev":"GenFailed","what":"dwarf","base":base,"err":e}));
                        return json!({"events": evs});
                    }
                }
            } else if base == "genfiles" {
                let sv = case["sv"].as_u64().unwrap_or(4) as u16;
                let lines = case["lines"].as_bool().unwrap_or(true);
                match std::panic::catch_unwind(move || gen_files(seed, sv, lines, endian)).unwrap_or_else(|p| Err(format!("generator panic: {}", panic_msg(p)))) {
                    Ok(s) => secs = s,
                    Err(e) => {
                        evs.push(json!({"ev":"GenFailed","what":"dwarf","base":base,"err":e}));
                        return json!({"events": evs});
                    }
                }
            } else if base == "raw" {
                if let Some(m) = case["sections"].as_object() {
                    for (k, v) in m {
                        secs.insert(k.clone(), leak(bytes_of(v)));
                    }
                }
            } else if let Some(dir) = base_dir(base) {
                if let Ok(rd) = std::fs::read_dir(&dir) {
                    for f in rd.flatten() {
                        let name = f.file_name().to_string_lossy().to_string();
                        if name.starts_with("debug_") && !name.ends_with(".dwo") {
                            if let Some(b) = read_file(&format!("{}/{}", dir, name)) {
                                secs.insert(name, leak(b));
                            }
                        }
                    }
                }
            }
            if secs.is_empty() {
                evs.push(json!({"ev":"NoInput","what":what,"base":base}));
            } else {
                run_dwarf(base, api, secs, endian, seed, &sample, &mut evs);
            }
        }
        "line" => {
            let le = case["le"].as_bool().unwrap_or(true);
            let endian = if le { RunTimeEndian::Little } else { RunTimeEndian::Big };
            let asz = case["asz"].as_u64().unwrap_or(8) as u8;
            let mut secs = Secs::new();
            if let Some(m) = case["sections"].as_object() {
                for (k, v) in m {
                    secs.insert(k.clone(), leak(bytes_of(v)));
                }
            }
            run_line(base, secs, endian, asz, case["api"].as_str().unwrap_or("convert"), &mut evs);
        }
        _ => evs.push(json!({"ev":"NoInput","what":what,"base":base})),
    }
    json!({"events": evs})
}

fn record(_out: &str, _a: &Args) {
    eprintln!("gvh-convert has no record mode; use replay with recipes");
    std::process::exit(2);
}

fn main() {
    let _ = (BTreeMap::<u8, u8>::new(), Map::<String, J>::new(), SectionId::DebugInfo, Format::Dwarf32, c::DW_AT_name, AV::<Rd>::Flag(true));
    main_with(replay, record);
}
