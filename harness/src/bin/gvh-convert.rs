//! C12 driver: read -> write conversion (`write::Dwarf::from`, the stepwise convert
//! API, `write::FrameTable::from`, `ConvertLineProgram`).
//!
//! A recipe names an input (`base`): the repository's own fixture, a compiled corpus
//! variant, sections given in the recipe (`raw`), a `.debug_frame` assembled from
//! fields the specification encoded (`cfi`), or DWARF produced by gimli's own writer
//! from seeded random content (`gen`, the writer is only a generator there).  The
//! input is dumped with gimli's READER, converted, written, read back and dumped
//! again, converted and written a second time and dumped a third time.  The dump is
//! complete and mechanical (every attribute with its reader-side value, references
//! resolved to (unit index, preorder index), lists and file indices resolved through
//! the reader's own resolution functions, unwind rows from `UnwindTable`); WHICH parts
//! of the dump are meaning and how unwind rows are normalised is decided by
//! spec/Convert.tla, not here.  No expectations live here.
//!
//! Output per recipe: `{"events":[...]}` with the events of spec/ConvertTrace.tla.
use gimli::write::{self, Address, EndianVec};
use gimli::{
    constants as c, AttributeValue as AV, BaseAddresses, CfaRule, DebugFrame, EhFrame, Encoding, EndianSlice, Format,
    Reader, ReaderOffset, Register, RegisterRule, RunTimeEndian, SectionId, UnitSectionOffset, UnwindContext,
    UnwindContextStorage, UnwindSection, UnwindTableRow,
};
use gvh::opjson::op_json;
use gvh::*;
use serde_json::{json, Map, Value as J};
use std::collections::{BTreeMap, HashMap};

type Rd<'a> = EndianSlice<'a, RunTimeEndian>;
type Ids = HashMap<usize, (usize, usize)>;

struct SVec;
impl<T: ReaderOffset> UnwindContextStorage<T> for SVec {
    type Rules = Vec<(Register, RegisterRule<T>)>;
    type Stack = Vec<UnwindTableRow<T, Self>>;
}

fn b8(v: u64) -> J {
    bv(v, 8)
}
fn no_ref() -> J {
    json!({"unit": -2, "idx": -2})
}

// ===========================================================================
// expressions: operation lists with branch targets as operation indices and
// entry references as (unit index, preorder index)
// ===========================================================================
struct RefCtx<'a, 'b> {
    ids: Option<&'a Ids>,
    unit: Option<gimli::UnitRef<'a, Rd<'b>>>,
}

impl<'a, 'b> RefCtx<'a, 'b> {
    fn none() -> Self {
        RefCtx { ids: None, unit: None }
    }
    fn lookup(&self, o: Option<usize>) -> J {
        match (self.ids, o) {
            (Some(ids), Some(o)) => match ids.get(&o) {
                Some((u, i)) => json!({"unit": u, "idx": i}),
                None => json!({"unit": -1, "idx": -1}),
            },
            _ => json!({"unit": -1, "idx": -1}),
        }
    }
    fn unit_ref(&self, off: u64) -> J {
        let o = self
            .unit
            .map(|u| gimli::UnitOffset(off as usize).to_unit_section_offset(&u).0);
        self.lookup(o)
    }
    fn info_ref(&self, off: u64) -> J {
        self.lookup(Some(off as usize))
    }
}

fn ops_meaning(bytes: &[u8], enc: Encoding, endian: RunTimeEndian, cx: &RefCtx) -> J {
    let expr = gimli::Expression(EndianSlice::new(bytes, endian));
    let mut it = expr.clone().operations(enc);
    let mut out: Vec<J> = Vec::new();
    let mut offs: Vec<(i64, i64)> = Vec::new();
    loop {
        let off = it.offset_from(&expr) as i64;
        match it.next() {
            Ok(Some(op)) => {
                let mut j = op_json(&op);
                let k = j["k"].as_str().unwrap_or("").to_string();
                let o = j.as_object_mut().unwrap();
                match k.as_str() {
                    "deref" | "breg" | "typed_literal" | "convert" | "reinterpret" => {
                        let b = unbv(&o["base"]);
                        o.insert("base".into(), if b == 0 { no_ref() } else { cx.unit_ref(b) });
                    }
                    "call" => {
                        let v = unbv(&o["off"]);
                        let to = if o["ref"] == "info" { cx.info_ref(v) } else { cx.unit_ref(v) };
                        o.remove("off");
                        o.remove("ref");
                        o.insert("to".into(), to);
                    }
                    "param_ref" => {
                        let v = unbv(&o["off"]);
                        o.remove("off");
                        o.insert("to".into(), cx.unit_ref(v));
                    }
                    "implicit_pointer" => {
                        let v = unbv(&o["value"]);
                        o.remove("value");
                        o.insert("to".into(), cx.info_ref(v));
                    }
                    "variable_value" => {
                        let v = unbv(&o["off"]);
                        o.remove("off");
                        o.insert("to".into(), cx.info_ref(v));
                    }
                    "entry_value" => {
                        if let gimli::Operation::EntryValue { expression } = &op {
                            let sub = ops_meaning(expression.slice(), enc, endian, cx);
                            o.remove("data");
                            o.insert("sub".into(), sub);
                        }
                    }
                    "addrx" | "constx" => {
                        let idx = unbv(&o["index"]);
                        let r = cx
                            .unit
                            .ok_or(gimli::Error::MissingUnitDie)
                            .and_then(|u| u.address(gimli::DebugAddrIndex(idx as usize)));
                        j = match r {
                            Ok(a) if k == "addrx" => json!({"k":"addr","v":b8(a)}),
                            Ok(a) => json!({"k":"const","v":b8(a)}),
                            Err(e) => json!({"k":"unresolved","name":k,"v":b8(idx),"err":err_name(&e)}),
                        };
                    }
                    "wasm" => {
                        let v = o.remove("index").unwrap_or(json!([]));
                        o.insert("windex".into(), v);
                    }
                    _ => {}
                }
                offs.push((off, it.offset_from(&expr) as i64));
                out.push(j);
            }
            Ok(None) => break,
            Err(e) => {
                out.push(json!({"k":"error","name": err_name(&e)}));
                offs.push((off, off));
                break;
            }
        }
    }
    let total = bytes.len() as i64;
    for i in 0..out.len() {
        let k = out[i]["k"].as_str().unwrap_or("").to_string();
        if k == "skip" || k == "bra" {
            let t = offs[i].1 + out[i]["target"].as_i64().unwrap_or(0);
            let idx = if t == total {
                out.len() as i64
            } else {
                offs.iter().position(|o| o.0 == t).map(|p| p as i64).unwrap_or(-1)
            };
            out[i]["target"] = json!(idx);
        }
    }
    J::Array(out)
}

// ===========================================================================
// frame tables
// ===========================================================================
fn rule_json<S: UnwindSection<Rd<'static>>>(r: &RegisterRule<usize>, sec: &S, enc: Encoding, endian: RunTimeEndian) -> J {
    let ex = |e: &gimli::UnwindExpression<usize>| -> J {
        match e.get(sec) {
            Ok(x) => ops_meaning(x.0.slice(), enc, endian, &RefCtx::none()),
            Err(e) => json!([{"k":"error","name":err_name(&e)}]),
        }
    };
    match r {
        RegisterRule::Undefined => json!({"k":"undefined"}),
        RegisterRule::SameValue => json!({"k":"same_value"}),
        RegisterRule::Offset(v) => json!({"k":"offset","v":b8(*v as u64)}),
        RegisterRule::ValOffset(v) => json!({"k":"val_offset","v":b8(*v as u64)}),
        RegisterRule::Register(r) => json!({"k":"register","r":r.0}),
        RegisterRule::Expression(e) => json!({"k":"expression","ops":ex(e)}),
        RegisterRule::ValExpression(e) => json!({"k":"val_expression","ops":ex(e)}),
        RegisterRule::Architectural => json!({"k":"architectural"}),
        RegisterRule::Constant(v) => json!({"k":"constant","v":b8(*v)}),
    }
}

fn ptr_json(p: Option<gimli::Pointer>) -> J {
    match p {
        Some(gimli::Pointer::Direct(a)) => json!({"has":true,"ind":false,"v":b8(a)}),
        Some(gimli::Pointer::Indirect(a)) => json!({"has":true,"ind":true,"v":b8(a)}),
        None => json!({"has":false,"ind":false,"v":b8(0)}),
    }
}

/// Dump of every FDE of a frame section (in section order) as gimli's reader sees it.
fn frame_dump<S>(sec: &S, endian: RunTimeEndian) -> Result<Vec<J>, String>
where
    S: UnwindSection<Rd<'static>>,
    S::Offset: gimli::UnwindOffset<usize>,
{
    let bases = BaseAddresses::default().set_eh_frame(0);
    let mut out = Vec::new();
    let mut entries = sec.entries(&bases);
    let mut ctx: Box<UnwindContext<usize, SVec>> = Box::new(UnwindContext::new_in());
    loop {
        let e = match entries.next() {
            Ok(Some(e)) => e,
            Ok(None) => break,
            Err(e) => return Err(format!("entries:{}", err_name(&e))),
        };
        let p = match e {
            gimli::CieOrFde::Cie(_) => continue,
            gimli::CieOrFde::Fde(p) => p,
        };
        let fde = match p.parse(S::cie_from_offset) {
            Ok(f) => f,
            Err(e) => return Err(format!("fde:{}", err_name(&e))),
        };
        let cie = fde.cie();
        let enc = cie.encoding();
        let (pe, pp) = match cie.personality_with_encoding() {
            Some((e, p)) => (e.0 as i64, Some(p)),
            None => (-1, None),
        };
        let mut rows = Vec::new();
        let mut fin = "end".to_string();
        match fde.rows(sec, &bases, &mut ctx) {
            Ok(mut table) => loop {
                match table.next_row() {
                    Ok(Some(row)) => {
                        let cfa = match row.cfa() {
                            CfaRule::RegisterAndOffset { register, offset } => {
                                json!({"k":"reg","r":register.0,"off":b8(*offset as u64)})
                            }
                            CfaRule::Expression(e) => json!({"k":"expr","ops": match e.get(sec) {
                                Ok(x) => ops_meaning(x.0.slice(), enc, endian, &RefCtx::none()),
                                Err(e) => json!([{"k":"error","name":err_name(&e)}]),
                            }}),
                        };
                        let mut rules: Vec<(u16, J)> =
                            row.registers().map(|(r, rule)| (r.0, rule_json(rule, sec, enc, endian))).collect();
                        rules.sort_by_key(|x| x.0);
                        let rules: Vec<J> = rules.into_iter().map(|(r, v)| json!({"reg":r,"rule":v})).collect();
                        rows.push(json!({"start":b8(row.start_address()),"end":b8(row.end_address()),
                                         "args":b8(row.saved_args_size()),"cfa":cfa,"rules":rules}));
                    }
                    Ok(None) => break,
                    Err(e) => {
                        fin = err_name(&e);
                        break;
                    }
                }
            },
            Err(e) => fin = format!("rows:{}", err_name(&e)),
        }
        out.push(json!({
            "present": true,
            "start": b8(fde.initial_address()), "len": b8(fde.len()),
            "cie": {"ver": cie.version(), "asz": cie.address_size(), "ra": cie.return_address_register().0,
                    "caf": b8(cie.code_alignment_factor()), "daf": b8(cie.data_alignment_factor() as u64),
                    "pers_enc": pe, "pers": ptr_json(pp),
                    "lsda_enc": cie.lsda_encoding().map(|e| e.0 as i64).unwrap_or(-1),
                    "fde_enc": cie.fde_address_encoding().map(|e| e.0 as i64).unwrap_or(-1),
                    "signal": cie.is_signal_trampoline()},
            "lsda": ptr_json(fde.lsda()),
            "rows": rows, "fin": fin,
        }));
    }
    Ok(out)
}

fn absent_fde() -> J {
    json!({"present": false, "start": b8(0), "len": b8(0),
           "cie": {"ver":0,"asz":0,"ra":0,"caf":b8(0),"daf":b8(0),"pers_enc":-1,"pers":ptr_json(None),"lsda_enc":-1,"fde_enc":-1,"signal":false},
           "lsda": ptr_json(None), "rows": [], "fin": "absent"})
}

fn leak(v: Vec<u8>) -> &'static [u8] {
    Box::leak(v.into_boxed_slice())
}

enum FrameSec {
    Eh(EhFrame<Rd<'static>>),
    Debug(DebugFrame<Rd<'static>>),
}

fn frame_sec(kind: &str, bytes: &'static [u8], endian: RunTimeEndian, asz: u8) -> FrameSec {
    if kind == "eh_frame" {
        let mut s = EhFrame::new(bytes, endian);
        s.set_address_size(asz);
        FrameSec::Eh(s)
    } else {
        let mut s = DebugFrame::new(bytes, endian);
        s.set_address_size(asz);
        FrameSec::Debug(s)
    }
}

impl FrameSec {
    fn dump(&self, endian: RunTimeEndian) -> Result<Vec<J>, String> {
        match self {
            FrameSec::Eh(s) => frame_dump(s, endian),
            FrameSec::Debug(s) => frame_dump(s, endian),
        }
    }
    fn convert(&self) -> Result<write::FrameTable, write::ConvertError> {
        let ca = |a: u64| Some(Address::Constant(a));
        match self {
            FrameSec::Eh(s) => write::FrameTable::from(s, &ca),
            FrameSec::Debug(s) => write::FrameTable::from(s, &ca),
        }
    }
}

fn write_frame(t: &write::FrameTable, kind: &str, endian: RunTimeEndian) -> Result<Vec<u8>, write::Error> {
    if kind == "eh_frame" {
        let mut w = write::EhFrame::from(EndianVec::new(endian));
        t.write_eh_frame(&mut w)?;
        Ok(w.0.into_vec())
    } else {
        let mut w = write::DebugFrame::from(EndianVec::new(endian));
        t.write_debug_frame(&mut w)?;
        Ok(w.0.into_vec())
    }
}

/// Convert one frame section; one `ConvFde` event per FDE and output kind, then a
/// `ConvDone` event with the counts.
fn run_frame(base: &str, kind: &str, bytes: Vec<u8>, endian: RunTimeEndian, asz: u8, sample: &dyn Fn(usize, usize) -> bool, evs: &mut Vec<J>) {
    let tag = |o: &str| json!({"what":"frame","base":base,"sec":kind,"out":o});
    let input = frame_sec(kind, leak(bytes), endian, asz);
    let min = match input.dump(endian) {
        Ok(m) => m,
        Err(e) => {
            evs.push(json!({"ev":"InputRejected","what":"frame","base":base,"sec":kind,"err":e}));
            return;
        }
    };
    let table = match input.convert() {
        Ok(t) => t,
        Err(e) => {
            evs.push(json!({"ev":"ConvertFailed","what":"frame","base":base,"sec":kind,"out":"","stage":"convert","err":format!("{:?}", e)}));
            return;
        }
    };
    for out in ["eh_frame", "debug_frame"] {
        let mut ev = tag(out);
        let b1 = match write_frame(&table, out, endian) {
            Ok(b) => b,
            Err(e) => {
                ev["ev"] = json!("ConvertFailed");
                ev["stage"] = json!("write");
                ev["err"] = json!(format!("{:?}", e));
                evs.push(ev);
                continue;
            }
        };
        let s1 = frame_sec(out, leak(b1), endian, asz);
        let mout = match s1.dump(endian) {
            Ok(m) => m,
            Err(e) => {
                evs.push(json!({"ev":"Abnormal","what":"frame","base":base,"sec":kind,"out":out,"why":"output unreadable","err":e}));
                continue;
            }
        };
        // second conversion of the output, written as the same kind
        let mout2: Result<Vec<J>, J> = match s1.convert() {
            Err(e) => Err(json!({"stage":"convert","err":format!("{:?}", e)})),
            Ok(t2) => match write_frame(&t2, out, endian) {
                Err(e) => Err(json!({"stage":"write","err":format!("{:?}", e)})),
                Ok(b2) => match frame_sec(out, leak(b2), endian, asz).dump(endian) {
                    Ok(m) => Ok(m),
                    Err(e) => Err(json!({"stage":"read","err":e})),
                },
            },
        };
        let (m2, again): (Vec<J>, J) = match mout2 {
            Ok(m) => (m, json!({"ok":true,"stage":"","err":""})),
            Err(e) => (Vec::new(), json!({"ok":false,"stage":e["stage"],"err":e["err"]})),
        };
        let n = min.len().max(mout.len()).max(if again["ok"] == true { m2.len() } else { 0 });
        for i in 0..n {
            if !(sample(i, n) || i >= min.len().min(mout.len())) {
                continue;
            }
            let mut ev = tag(out);
            ev["ev"] = json!("ConvFde");
            ev["i"] = json!(i);
            ev["min"] = min.get(i).cloned().unwrap_or_else(absent_fde);
            ev["mout"] = mout.get(i).cloned().unwrap_or_else(absent_fde);
            ev["again"] = again.clone();
            ev["mout2"] = if again["ok"] == true { m2.get(i).cloned().unwrap_or_else(absent_fde) } else { ev["mout"].clone() };
            evs.push(ev);
        }
        let mut ev = tag(out);
        ev["ev"] = json!("ConvDone");
        ev["nin"] = json!(min.len());
        ev["nout"] = json!(mout.len());
        ev["nout2"] = json!(if again["ok"] == true { m2.len() } else { mout.len() });
        ev["again"] = again;
        evs.push(ev);
    }
}

// ===========================================================================
// inputs
// ===========================================================================
fn read_file(p: &str) -> Option<Vec<u8>> {
    std::fs::read(p).ok()
}

fn base_dir(base: &str) -> Option<String> {
    if base == "self" {
        Some("/repo/fixtures/self".to_string())
    } else {
        base.strip_prefix("corpus:").map(|v| format!("/verif/corpus/{}", v))
    }
}

/// `.debug_frame` assembled from fields encoded by the specification (MCConvertCfi):
/// the harness only concatenates fields and computes lengths.
fn assemble_cfi(case: &J) -> Vec<u8> {
    let ver = case["ver"].as_u64().unwrap_or(1) as u8;
    let mut cie: Vec<u8> = Vec::new();
    cie.extend_from_slice(&0xffff_ffffu32.to_le_bytes());
    cie.push(ver);
    cie.push(0); // augmentation ""
    if ver >= 4 {
        cie.push(8);
        cie.push(0);
    }
    cie.extend(bytes_of(&case["caf"]));
    cie.extend(bytes_of(&case["daf"]));
    cie.extend(bytes_of(&case["ra"]));
    cie.extend(bytes_of(&case["cie_ins"]));
    let mut sec: Vec<u8> = Vec::new();
    sec.extend_from_slice(&(cie.len() as u32).to_le_bytes());
    sec.extend(cie);
    let mut fde: Vec<u8> = Vec::new();
    fde.extend_from_slice(&0u32.to_le_bytes());
    fde.extend(bytes_of(&case["start"]));
    fde.extend(bytes_of(&case["len"]));
    fde.extend(bytes_of(&case["fde_ins"]));
    sec.extend_from_slice(&(fde.len() as u32).to_le_bytes());
    sec.extend(fde);
    sec
}

fn replay(case: &J) -> J {
    let mut evs: Vec<J> = Vec::new();
    let what = case["what"].as_str().unwrap_or("");
    let base = case["base"].as_str().unwrap_or("");
    let seed = case["seed"].as_u64().unwrap_or(1);
    let nsample = case["sample"].as_u64().unwrap_or(u64::MAX);
    // deterministic sample of `nsample` indices out of n
    let sample = move |i: usize, n: usize| -> bool {
        if nsample >= n as u64 {
            return true;
        }
        let mut r = Rng::new(seed ^ (i as u64).wrapping_mul(0x9e37_79b9));
        r.below(n as u64) < nsample
    };
    match what {
        "frame" => {
            if base == "cfi" {
                run_frame(base, "debug_frame", assemble_cfi(case), RunTimeEndian::Little, 8, &sample, &mut evs);
            } else if base == "raw" {
                let kind = case["section"].as_str().unwrap_or("debug_frame");
                let le = case["le"].as_bool().unwrap_or(true);
                let endian = if le { RunTimeEndian::Little } else { RunTimeEndian::Big };
                let asz = case["asz"].as_u64().unwrap_or(8) as u8;
                run_frame(base, kind, bytes_of(&case["sections"][kind]), endian, asz, &sample, &mut evs);
            } else if let Some(dir) = base_dir(base) {
                let kind = case["section"].as_str().unwrap_or("eh_frame");
                match read_file(&format!("{}/{}", dir, kind)) {
                    Some(b) => run_frame(base, kind, b, RunTimeEndian::Little, 8, &sample, &mut evs),
                    None => evs.push(json!({"ev":"NoInput","what":"frame","base":base,"sec":kind})),
                }
            }
        }
        _ => evs.push(json!({"ev":"NoInput","what":what,"base":base})),
    }
    json!({"events": evs})
}

fn record(_out: &str, _a: &Args) {
    eprintln!("gvh-convert has no record mode; use replay with recipes");
    std::process::exit(2);
}

fn main() {
    let _ = (BTreeMap::<u8, u8>::new(), Map::<String, J>::new(), SectionId::DebugInfo, Format::Dwarf32, c::DW_AT_name, AV::<Rd>::Flag(true));
    main_with(replay, record);
}
