//! C19 driver: filtered conversion (`FilterUnitSection` -> `Dwarf::convert_with_filter`).
//!
//! The harness knows nothing about which entries a filter must keep.  It
//!  * builds real DWARF input from the abstract graph of a case with gimli's own
//!    writer (one identity name per entry, reference attributes / expression
//!    operations / location lists as asked by the case),
//!  * runs the unfiltered and the filtered conversion through the public API,
//!  * writes both, reads them back and prints the forests with every reference
//!    resolved to the identity name of its target (or `"DANGLING"`).
//!
//! `record` does the same for random forests and prints one event per step of
//! the filter traversal (what `FilterUnit::read_entry` presented) for
//! `FilterTrace.tla`.
use gimli::read;
use gimli::write::{
    self, Address, AttributeValue, DebugInfoRef, EndianVec, Expression, LineProgram, Location,
    LocationList, Sections, Unit, UnitEntryId, UnitId, Writer,
};
use gimli::{constants, DwAt, DwTag, Encoding, EndianSlice, Format, RunTimeEndian, SectionId};
use gvh::*;
use serde_json::{json, Map, Value};
use std::collections::{BTreeMap, BTreeSet, HashMap};

type Slice<'a> = EndianSlice<'a, RunTimeEndian>;

// ---------------------------------------------------------------------------
// A writer that also accepts `DebugInfoRef::Symbol(n)`: the "symbol" is written
// as the raw offset `n`.  This is how a case asks for a `.debug_info` reference
// to an arbitrary (invalid) offset.
#[derive(Clone)]
struct RawRefVec(EndianVec<RunTimeEndian>);

impl Writer for RawRefVec {
    type Endian = RunTimeEndian;
    fn endian(&self) -> RunTimeEndian {
        self.0.endian()
    }
    fn len(&self) -> usize {
        self.0.len()
    }
    fn write(&mut self, bytes: &[u8]) -> write::Result<()> {
        self.0.write(bytes)
    }
    fn write_at(&mut self, offset: usize, bytes: &[u8]) -> write::Result<()> {
        self.0.write_at(offset, bytes)
    }
    fn write_reference(&mut self, symbol: usize, size: u8) -> write::Result<()> {
        self.0.write_udata(symbol as u64, size)
    }
}

fn tag_by_name(name: &str) -> DwTag {
    thread_local! {
        static MAP: HashMap<&'static str, u16> = {
            let mut m = HashMap::new();
            for v in 0..=0xffffu16 {
                if let Some(s) = DwTag(v).static_string() {
                    m.entry(s).or_insert(v);
                }
            }
            m
        };
    }
    MAP.with(|m| DwTag(*m.get(name).unwrap_or_else(|| panic!("unknown tag {}", name))))
}

const REF_ATTRS: [DwAt; 8] = [
    constants::DW_AT_type,
    constants::DW_AT_abstract_origin,
    constants::DW_AT_specification,
    constants::DW_AT_import,
    constants::DW_AT_containing_type,
    constants::DW_AT_object_pointer,
    constants::DW_AT_friend,
    constants::DW_AT_signature,
];

struct Built {
    sections: Sections<RawRefVec>,
    endian: RunTimeEndian,
    /// `.debug_addr` (plain address array, base 0) for hand-encoded DW_LLE_startx_* entries
    addr: Vec<u8>,
}

fn encoding_of(case: &Value) -> Encoding {
    Encoding {
        version: case["version"].as_u64().unwrap_or(4) as u16,
        format: if case["format"].as_u64() == Some(64) {
            Format::Dwarf64
        } else {
            Format::Dwarf32
        },
        address_size: case["asz"].as_u64().unwrap_or(8) as u8,
    }
}

/// The target of a reference in a case: an entry id (> 0), the root of unit
/// `u` (`-u`), or an invalid offset (0).
enum Target {
    Entry(UnitId, UnitEntryId),
    Invalid,
}

fn add_ref_op(expr: &mut Expression, kind: &str, t: &Target, same_unit: bool) -> Result<(), String> {
    let invalid_ref = DebugInfoRef::Symbol(0x7fff_fff0);
    let dref = match t {
        Target::Entry(u, e) => DebugInfoRef::Entry(*u, *e),
        Target::Invalid => invalid_ref,
    };
    let uref = || match t {
        Target::Entry(_, e) if same_unit => Ok(*e),
        _ => Err(format!("kind {} needs a target in the same unit", kind)),
    };
    match kind {
        "call" => expr.op_call(uref()?),
        "callref" => expr.op_call_ref(dref),
        "implptr" => expr.op_implicit_pointer(dref, 0),
        "varval" => expr.op_variable_value(dref),
        "paramref" => expr.op_gnu_parameter_ref(uref()?),
        "entryval" => {
            let mut inner = Expression::new();
            inner.op_call_ref(dref);
            expr.op_entry_value(inner);
        }
        "deref_type" => expr.op_deref_type(4, uref()?),
        "regval_type" => expr.op_regval_type(gimli::Register(1), uref()?),
        "const_type" => expr.op_const_type(uref()?, vec![1u8, 2].into_boxed_slice()),
        "convert" => expr.op_convert(Some(uref()?)),
        "reinterpret" => expr.op_reinterpret(Some(uref()?)),
        _ => return Err(format!("unknown reference kind {}", kind)),
    }
    Ok(())
}

/// Build the input sections for a case with gimli's writer.
fn build_input(case: &Value) -> Result<Built, String> {
    let enc = encoding_of(case);
    let endian = if case["be"].as_bool() == Some(true) {
        RunTimeEndian::Big
    } else {
        RunTimeEndian::Little
    };
    let nunits = case["nunits"].as_u64().unwrap_or(1) as usize;
    let mut dwarf = write::Dwarf::new();
    let mut unit_ids = Vec::new();
    for u in 0..nunits {
        let id = dwarf.units.add(Unit::new(enc, LineProgram::none()));
        let unit = dwarf.units.get_mut(id);
        let root = unit.root();
        unit.get_mut(root).set(
            constants::DW_AT_name,
            AttributeValue::String(format!("root{}", u + 1).into_bytes()),
        );
        if case["split"].as_bool() == Some(true) {
            unit.get_mut(root).set(constants::DW_AT_GNU_dwo_id, AttributeValue::Data8(0x1234_5678));
        }
        unit_ids.push(id);
    }
    // entries, in the order of the case (preorder per unit)
    let empty = Vec::new();
    let entries = case["entries"].as_array().unwrap_or(&empty);
    let mut ids: BTreeMap<i64, (usize, UnitEntryId)> = BTreeMap::new();
    for e in entries {
        let id = e["id"].as_i64().ok_or("entry id")?;
        let u = e["unit"].as_u64().ok_or("entry unit")? as usize - 1;
        let p = e["parent"].as_i64().unwrap_or(0);
        let unit = dwarf.units.get_mut(unit_ids[u]);
        let parent = if p == 0 {
            unit.root()
        } else {
            let (pu, pid) = *ids.get(&p).ok_or("parent must precede child")?;
            if pu != u {
                return Err("parent in another unit".into());
            }
            pid
        };
        let tag = tag_by_name(e["tag"].as_str().ok_or("entry tag")?);
        let eid = unit.add(parent, tag);
        let ent = unit.get_mut(eid);
        ent.set(
            constants::DW_AT_name,
            AttributeValue::String(format!("e{}", id).into_bytes()),
        );
        if e["decl"].as_bool() == Some(true) {
            ent.set(constants::DW_AT_declaration, AttributeValue::Flag(true));
        }
        if e["sibling"].as_bool() == Some(true) {
            ent.set_sibling(true);
        }
        ids.insert(id, (u, eid));
    }
    // references
    let refs = case["refs"].as_array().unwrap_or(&empty);
    let mut nattr: HashMap<i64, usize> = HashMap::new();
    let mut exprs: BTreeMap<i64, Expression> = BTreeMap::new();
    let mut lists: BTreeMap<i64, Vec<Location>> = BTreeMap::new();
    // holder -> (ordinal of the expression-carrying entry in its list, wanted DW_LLE_startx_* kind)
    let mut startx: BTreeMap<i64, Vec<(usize, String)>> = BTreeMap::new();
    for r in refs {
        let from = r["from"].as_i64().ok_or("ref from")?;
        let to = r["to"].as_i64().ok_or("ref to")?;
        let kind = r["kind"].as_str().ok_or("ref kind")?;
        // from = -u: the reference is held by the root of unit u
        let (fu, fid) = if from < 0 {
            let fu = (-from) as usize - 1;
            (fu, dwarf.units.get(unit_ids[fu]).root())
        } else {
            *ids.get(&from).ok_or("ref from unknown")?
        };
        let (target, same_unit) = if to > 0 {
            let (tu, tid) = *ids.get(&to).ok_or("ref to unknown")?;
            (Target::Entry(unit_ids[tu], tid), tu == fu)
        } else if to < 0 {
            let tu = (-to) as usize - 1;
            let root = dwarf.units.get(unit_ids[tu]).root();
            (Target::Entry(unit_ids[tu], root), tu == fu)
        } else {
            (Target::Invalid, false)
        };
        if let Some(k) = kind.strip_prefix("x_") {
            add_ref_op(exprs.entry(from).or_insert_with(Expression::new), k, &target, same_unit)?;
        } else if let Some(k) = kind.strip_prefix("l_") {
            let mut data = Expression::new();
            add_ref_op(&mut data, k, &target, same_unit)?;
            // which kind of location list entry carries the expression
            let loc = r["loc"].as_str().unwrap_or("start_end");
            let v = lists.entry(from).or_default();
            let n = v.iter().filter(|l| !matches!(l, Location::BaseAddress { .. })).count() as u64;
            // the address range of the entry: normal, or one of the shapes the reader's
            // resolving iterator drops (the writer that builds .debug_loc refuses empty ranges)
            let mask = if enc.address_size >= 8 { u64::MAX } else { (1u64 << (8 * enc.address_size)) - 1 };
            let mut shape = r["shape"].as_str().unwrap_or("normal");
            if enc.version <= 4 && shape == "empty" {
                shape = "reversed";
            }
            let b0 = 0x1000 + 0x100 * n;
            let (begin, end) = match shape {
                "empty" => (b0, b0),
                "reversed" => (b0 + 0x80, b0),
                "tomb" | "tombbase" => (mask - 1, mask),
                _ => (b0, b0 + 0x80),
            };
            let base = if shape == "tombbase" { mask - 1 } else { 0x100 };
            // offsets relative to `base` that give (begin, end); after a tombstone base any offsets do
            let (ob, oe) = if shape == "tombbase" { (0x10, 0x90) } else { (begin.wrapping_sub(base) & mask, end.wrapping_sub(base) & mask) };
            let se = |data| Location::StartEnd { begin: Address::Constant(begin), end: Address::Constant(end), data };
            if enc.version <= 4 {
                // .debug_loc has one entry kind (address or offset pair); the writer reaches it three ways
                let based = matches!(v.first(), Some(Location::BaseAddress { .. }));
                let list_base = match v.first() {
                    Some(Location::BaseAddress { address: Address::Constant(a) }) => *a,
                    _ => base,
                };
                let rel = |x: u64| x.wrapping_sub(list_base) & mask;
                match loc {
                    // once a list has a base address selection entry, every later entry is an offset pair
                    _ if based => {
                        let (a, b) = if list_base >= mask - 1 { (0x10 + 0x100 * n, 0x90 + 0x100 * n) } else { (rel(begin), rel(end)) };
                        v.push(Location::OffsetPair { begin: a, end: b, data })
                    }
                    "offset_pair" if n == 0 => {
                        v.push(Location::BaseAddress { address: Address::Constant(base) });
                        v.push(Location::OffsetPair { begin: ob, end: oe, data });
                    }
                    "start_length" | "startx_length" if shape == "normal" => v.push(Location::StartLength {
                        begin: Address::Constant(begin), length: 0x80, data }),
                    _ => v.push(se(data)),
                }
            } else {
                match loc {
                    "offset_pair" => {
                        v.push(Location::BaseAddress { address: Address::Constant(base) });
                        v.push(Location::OffsetPair { begin: ob, end: oe, data });
                    }
                    "start_length" => v.push(Location::StartLength {
                        begin: Address::Constant(begin), length: end.wrapping_sub(begin) & mask, data }),
                    "default_location" => v.push(Location::DefaultLocation { data }),
                    // startx_endx / startx_length are re-encoded by hand after writing
                    "startx_endx" | "startx_length" => {
                        startx.entry(from).or_default().push((n as usize, loc.to_string()));
                        v.push(se(data))
                    }
                    _ => v.push(se(data)),
                }
            }
        } else {
            let k = *nattr.get(&from).unwrap_or(&0);
            nattr.insert(from, k + 1);
            let name = *REF_ATTRS.get(k).ok_or("too many reference attributes")?;
            let value = match (kind, &target) {
                ("attr_unit", Target::Entry(_, e)) if same_unit => AttributeValue::UnitRef(*e),
                // an invalid unit reference is patched into the bytes below
                ("attr_unit", Target::Invalid) => {
                    AttributeValue::UnitRef(dwarf.units.get(unit_ids[fu]).root())
                }
                ("attr_info", Target::Entry(u, e)) => {
                    AttributeValue::DebugInfoRef(DebugInfoRef::Entry(*u, *e))
                }
                ("attr_info", Target::Invalid) => {
                    AttributeValue::DebugInfoRef(DebugInfoRef::Symbol(0x7fff_fff0))
                }
                _ => return Err(format!("bad reference {}", r)),
            };
            dwarf.units.get_mut(unit_ids[fu]).get_mut(fid).set(name, value);
        }
    }
    let holder = |from: i64, dwarf: &write::Dwarf| -> (usize, UnitEntryId) {
        if from < 0 {
            let fu = (-from) as usize - 1;
            (fu, dwarf.units.get(unit_ids[fu]).root())
        } else {
            ids[&from]
        }
    };
    for (from, expr) in exprs {
        let (fu, fid) = holder(from, &dwarf);
        dwarf
            .units
            .get_mut(unit_ids[fu])
            .get_mut(fid)
            .set(constants::DW_AT_location, AttributeValue::Exprloc(expr));
    }
    for (from, locs) in lists {
        let (fu, fid) = holder(from, &dwarf);
        let unit = dwarf.units.get_mut(unit_ids[fu]);
        let lid = unit.locations.add(LocationList(locs));
        unit.get_mut(fid)
            .set(constants::DW_AT_frame_base, AttributeValue::LocationListRef(lid));
    }
    let mut sections = Sections::new(RawRefVec(EndianVec::new(endian)));
    dwarf
        .write(&mut sections)
        .map_err(|e| format!("input write: {:?}", e))?;
    let mut built = Built { sections, endian, addr: Vec::new() };
    patch_invalid_unit_refs(case, &mut built)?;
    if !startx.is_empty() {
        let names: BTreeMap<String, Vec<(usize, String)>> = startx
            .into_iter()
            .map(|(from, v)| (if from < 0 { format!("root{}", -from) } else { format!("e{}", from) }, v))
            .collect();
        reencode_loclists(&mut built, enc, &names)?;
    }
    Ok(built)
}

fn load<'a>(s: &'a Sections<RawRefVec>, endian: RunTimeEndian) -> read::Dwarf<Slice<'a>> {
    load_with(s, endian, &[])
}

fn load_with<'a>(s: &'a Sections<RawRefVec>, endian: RunTimeEndian, addr: &'a [u8]) -> read::Dwarf<Slice<'a>> {
    read::Dwarf::load(|id: SectionId| -> Result<Slice<'a>, ()> {
        if id == SectionId::DebugAddr {
            return Ok(EndianSlice::new(addr, endian));
        }
        Ok(EndianSlice::new(
            s.get(id).map(|w| w.0.slice()).unwrap_or(&[]),
            endian,
        ))
    })
    .unwrap()
}

/// The writer cannot emit DW_LLE_startx_endx / DW_LLE_startx_length.  The lists were
/// written with DW_LLE_start_end in their place; here `.debug_loclists` is encoded
/// again by hand from what gimli's raw iterator reads (expression bytes are copied
/// verbatim, so the references in them stay resolved), the chosen entries become
/// startx entries over a hand-built `.debug_addr`, and the DW_AT_frame_base offsets
/// in `.debug_info` are patched to the new list positions.
fn reencode_loclists(
    built: &mut Built,
    enc: Encoding,
    startx: &BTreeMap<String, Vec<(usize, String)>>,
) -> Result<(), String> {
    let es = |e: gimli::Error| format!("{:?}", e);
    let endian = built.endian;
    let mut out = RawRefVec(EndianVec::new(endian));
    let mut addr = RawRefVec(EndianVec::new(endian));
    let ws = |e: write::Error| format!("{:?}", e);
    // one table header for all lists (offset_entry_count 0: lists are addressed by section offset)
    let length_offset = out.write_initial_length(enc.format).map_err(ws)?;
    let length_base = out.len();
    out.write_u16(5).map_err(ws)?;
    out.write_u8(enc.address_size).map_err(ws)?;
    out.write_u8(0).map_err(ws)?;
    out.write_u32(0).map_err(ws)?;
    let mut patches: Vec<(usize, usize)> = Vec::new(); // (position in .debug_info, new list offset)
    {
        let dwarf = load(&built.sections, endian);
        let mut units = dwarf.units();
        while let Some(h) = units.next().map_err(es)? {
            let unit = dwarf.unit(h).map_err(es)?;
            let uref = unit.unit_ref(&dwarf);
            let base = unit.header.offset().0;
            let mut raw = unit.entries_raw(None).map_err(es)?;
            while !raw.is_empty() {
                let Some(abbrev) = raw.read_abbreviation().map_err(es)? else { continue };
                let mut name = String::new();
                let mut fb: Option<(usize, gimli::LocationListsOffset)> = None;
                for spec in abbrev.attributes() {
                    let pos = raw.next_offset().0;
                    let attr = raw.read_attribute(*spec).map_err(es)?;
                    if attr.name() == constants::DW_AT_name {
                        if let Ok(s) = uref.attr_string(attr.value()) {
                            name = s.to_string_lossy().into_owned();
                        }
                    }
                    if attr.name() == constants::DW_AT_frame_base {
                        if let read::AttributeValue::LocationListsRef(o) = attr.value() {
                            fb = Some((base + pos, o));
                        }
                    }
                }
                let Some((pos, off)) = fb else { continue };
                let want = startx.get(&name);
                patches.push((pos, out.len()));
                let mut it = uref.raw_locations(off).map_err(es)?;
                let mut k = 0usize; // ordinal among the expression-carrying entries
                let expr = |w: &mut RawRefVec, d: &read::Expression<Slice<'_>>| -> Result<(), String> {
                    w.write_uleb128(d.0.len() as u64).map_err(ws)?;
                    w.write(d.0.slice()).map_err(ws)
                };
                while let Some(e) = it.next().map_err(es)? {
                    use read::RawLocListEntry as L;
                    match e {
                        L::BaseAddress { addr: a } => {
                            out.write_u8(constants::DW_LLE_base_address.0).map_err(ws)?;
                            out.write_udata(a, enc.address_size).map_err(ws)?;
                        }
                        L::OffsetPair { begin, end, data } => {
                            out.write_u8(constants::DW_LLE_offset_pair.0).map_err(ws)?;
                            out.write_uleb128(begin).map_err(ws)?;
                            out.write_uleb128(end).map_err(ws)?;
                            expr(&mut out, &data)?;
                            k += 1;
                        }
                        L::StartLength { begin, length, data } => {
                            out.write_u8(constants::DW_LLE_start_length.0).map_err(ws)?;
                            out.write_udata(begin, enc.address_size).map_err(ws)?;
                            out.write_uleb128(length).map_err(ws)?;
                            expr(&mut out, &data)?;
                            k += 1;
                        }
                        L::DefaultLocation { data } => {
                            out.write_u8(constants::DW_LLE_default_location.0).map_err(ws)?;
                            expr(&mut out, &data)?;
                            k += 1;
                        }
                        L::StartEnd { begin, end, data } => {
                            let kind = want.and_then(|v| v.iter().find(|(i, _)| *i == k)).map(|(_, s)| s.as_str());
                            match kind {
                                Some("startx_endx") => {
                                    let i = (addr.len() / enc.address_size as usize) as u64;
                                    addr.write_udata(begin, enc.address_size).map_err(ws)?;
                                    addr.write_udata(end, enc.address_size).map_err(ws)?;
                                    out.write_u8(constants::DW_LLE_startx_endx.0).map_err(ws)?;
                                    out.write_uleb128(i).map_err(ws)?;
                                    out.write_uleb128(i + 1).map_err(ws)?;
                                }
                                Some("startx_length") => {
                                    let i = (addr.len() / enc.address_size as usize) as u64;
                                    addr.write_udata(begin, enc.address_size).map_err(ws)?;
                                    out.write_u8(constants::DW_LLE_startx_length.0).map_err(ws)?;
                                    out.write_uleb128(i).map_err(ws)?;
                                    out.write_uleb128(end.wrapping_sub(begin) & (if enc.address_size >= 8 { u64::MAX } else { (1u64 << (8 * enc.address_size)) - 1 })).map_err(ws)?;
                                }
                                _ => {
                                    out.write_u8(constants::DW_LLE_start_end.0).map_err(ws)?;
                                    out.write_udata(begin, enc.address_size).map_err(ws)?;
                                    out.write_udata(end, enc.address_size).map_err(ws)?;
                                }
                            }
                            expr(&mut out, &data)?;
                            k += 1;
                        }
                        other => return Err(format!("unexpected entry in a written list: {:?}", other)),
                    }
                }
                out.write_u8(constants::DW_LLE_end_of_list.0).map_err(ws)?;
            }
        }
    }
    let length = (out.len() - length_base) as u64;
    out.write_initial_length_at(length_offset, length, enc.format).map_err(ws)?;
    for (pos, off) in patches {
        built
            .sections
            .debug_info
            .0
            .write_udata_at(pos, off as u64, enc.format.word_size())
            .map_err(ws)?;
    }
    built.sections.debug_loclists.0 = out;
    built.addr = addr.0.slice().to_vec();
    Ok(())
}

/// For `attr_unit` references with target 0 the writer was given a placeholder;
/// locate the attribute through gimli's reader and overwrite the value with an
/// offset that is outside the unit.
fn patch_invalid_unit_refs(case: &Value, built: &mut Built) -> Result<(), String> {
    let empty = Vec::new();
    let refs = case["refs"].as_array().unwrap_or(&empty);
    // (entry name) -> ordinals of its attr_* references that must be patched
    let mut want: HashMap<String, Vec<usize>> = HashMap::new();
    let mut nattr: HashMap<i64, usize> = HashMap::new();
    for r in refs {
        let kind = r["kind"].as_str().unwrap_or("");
        if !kind.starts_with("attr_") {
            continue;
        }
        let from = r["from"].as_i64().unwrap_or(0);
        let k = *nattr.get(&from).unwrap_or(&0);
        nattr.insert(from, k + 1);
        if kind == "attr_unit" && r["to"].as_i64() == Some(0) {
            want.entry(format!("e{}", from)).or_default().push(k);
        }
    }
    if want.is_empty() {
        return Ok(());
    }
    let mut patches: Vec<(usize, u8)> = Vec::new();
    {
        let dwarf = load_with(&built.sections, built.endian, &built.addr);
        let mut units = dwarf.units();
        while let Some(h) = units.next().map_err(|e| format!("{:?}", e))? {
            let unit = dwarf.unit(h).map_err(|e| format!("{:?}", e))?;
            let uref = unit.unit_ref(&dwarf);
            let base = match unit.header.offset() {
                gimli::UnitSectionOffset(o) => o,
            };
            let mut raw = unit.entries_raw(None).map_err(|e| format!("{:?}", e))?;
            while !raw.is_empty() {
                let Some(abbrev) = raw.read_abbreviation().map_err(|e| format!("{:?}", e))? else {
                    continue;
                };
                let mut positions = Vec::new();
                let mut name = String::new();
                for spec in abbrev.attributes() {
                    let pos = raw.next_offset().0;
                    let attr = raw.read_attribute(*spec).map_err(|e| format!("{:?}", e))?;
                    if attr.name() == constants::DW_AT_name {
                        if let Ok(s) = uref.attr_string(attr.value()) {
                            name = s.to_string_lossy().into_owned();
                        }
                    }
                    if let Some(k) = REF_ATTRS.iter().position(|a| *a == attr.name()) {
                        positions.push((k, pos));
                    }
                }
                if let Some(ks) = want.get(&name) {
                    for (k, pos) in positions {
                        if ks.contains(&k) {
                            patches.push((base + pos, unit.encoding().format.word_size()));
                        }
                    }
                }
            }
        }
    }
    for (pos, size) in patches {
        built
            .sections
            .debug_info
            .0
            .0
            .write_udata_at(pos, 0x7fff_fff0, size)
            .map_err(|e| format!("{:?}", e))?;
    }
    Ok(())
}

// ---------------------------------------------------------------------------
// Reading a forest back, references resolved to identity names.

fn entry_name<'a>(unit: read::UnitRef<'_, Slice<'a>>, e: &read::DebuggingInformationEntry<Slice<'a>>) -> String {
    match e.attr_value(constants::DW_AT_name) {
        Some(v) => match unit.attr_string(v) {
            Ok(s) => s.to_string_lossy().into_owned(),
            Err(_) => format!("?name@{:x}", e.offset.0),
        },
        None => format!("?anon@{:x}", e.offset.0),
    }
}

type Names = HashMap<usize, String>;

fn resolve(names: &Names, off: usize) -> Value {
    match names.get(&off) {
        Some(n) => json!({ "ref": n }),
        None => json!({"ref":"DANGLING"}),
    }
}

fn ops_repr<'a>(unit: read::UnitRef<'_, Slice<'a>>, expr: read::Expression<Slice<'a>>, names: &Names) -> Value {
    let base = unit.header.offset().0;
    let mut out = Vec::new();
    let mut ops = expr.operations(unit.encoding());
    loop {
        match ops.next() {
            Ok(Some(op)) => {
                let ur = |o: read::UnitOffset| -> Value {
                    if o.0 == 0 {
                        json!({"ref":"generic"})
                    } else {
                        resolve(names, base + o.0)
                    }
                };
                use read::Operation as O;
                let v = match op {
                    O::Deref { base_type, size, space } => {
                        json!({"op":"Deref","size":size,"space":space,"t":ur(base_type)})
                    }
                    O::RegisterOffset { register, offset, base_type } => {
                        json!({"op":"RegisterOffset","reg":register.0,"off":offset,"t":ur(base_type)})
                    }
                    O::TypedLiteral { base_type, value } => {
                        json!({"op":"TypedLiteral","t":ur(base_type),"v":bytes_json(value.slice())})
                    }
                    O::Convert { base_type } => json!({"op":"Convert","t":ur(base_type)}),
                    O::Reinterpret { base_type } => json!({"op":"Reinterpret","t":ur(base_type)}),
                    O::ParameterRef { offset } => json!({"op":"ParameterRef","t":ur(offset)}),
                    O::Call { offset: read::DieReference::UnitRef(o) } => json!({"op":"Call","t":ur(o)}),
                    O::Call { offset: read::DieReference::DebugInfoRef(o) } => {
                        json!({"op":"CallRef","t":resolve(names, o.0)})
                    }
                    O::ImplicitPointer { value, byte_offset } => {
                        json!({"op":"ImplicitPointer","t":resolve(names, value.0),"off":byte_offset})
                    }
                    O::VariableValue { offset } => json!({"op":"VariableValue","t":resolve(names, offset.0)}),
                    O::EntryValue { expression } => {
                        json!({"op":"EntryValue","e":ops_repr(unit, read::Expression(expression), names)})
                    }
                    other => json!(format!("{:?}", other)),
                };
                out.push(v);
            }
            Ok(None) => break,
            Err(e) => {
                out.push(json!({"operr": format!("{:?}", e)}));
                break;
            }
        }
    }
    Value::Array(out)
}

fn attr_repr<'a>(unit: read::UnitRef<'_, Slice<'a>>, attr: &read::Attribute<Slice<'a>>, names: &Names) -> Value {
    use read::AttributeValue as A;
    let base = unit.header.offset().0;
    match attr.value() {
        A::UnitRef(o) => resolve(names, base + o.0),
        A::DebugInfoRef(o) => resolve(names, o.0),
        A::Exprloc(e) => json!({"expr": ops_repr(unit, e, names)}),
        A::LocationListsRef(off) => {
            // by meaning: address ranges resolved through base addresses / .debug_addr,
            // so that the entry kind the lists are (re)written with does not matter
            let mut out = Vec::new();
            match unit.locations(off) {
                Ok(mut it) => loop {
                    match it.next() {
                        Ok(Some(l)) => out.push(json!({"b":bv(l.range.begin,8),"e":bv(l.range.end,8),
                                                       "ops":ops_repr(unit, l.data, names)})),
                        Ok(None) => break,
                        Err(e) => {
                            out.push(json!({"locerr":format!("{:?}", e)}));
                            break;
                        }
                    }
                },
                Err(e) => out.push(json!({"locerr":format!("{:?}", e)})),
            }
            json!({ "loclist": out })
        }
        v @ (A::String(_) | A::DebugStrRef(_) | A::DebugLineStrRef(_)) => match unit.attr_string(v) {
            Ok(s) => json!({"str": s.to_string_lossy()}),
            Err(e) => json!({"strerr": format!("{:?}", e)}),
        },
        other => json!(format!("{:?}", other)),
    }
}

/// The forest of a read::Dwarf as `{name: {tag, parent, attrs:[[at,value]..]}}`
/// plus the list of names in section order.
fn forest(dwarf: &read::Dwarf<Slice<'_>>) -> Result<Value, String> {
    let err = |e: gimli::Error| format!("read-back: {:?}", e);
    // pass 1: names by section offset
    let mut names: Names = HashMap::new();
    let mut units = dwarf.units();
    let mut hdrs = Vec::new();
    while let Some(h) = units.next().map_err(err)? {
        hdrs.push(h);
    }
    for h in &hdrs {
        let unit = dwarf.unit(*h).map_err(err)?;
        let uref = unit.unit_ref(dwarf);
        let base = unit.header.offset().0;
        let mut raw = unit.entries_raw(None).map_err(err)?;
        let mut e = read::DebuggingInformationEntry::null();
        while !raw.is_empty() {
            if !raw.read_entry(&mut e).map_err(err)? {
                continue;
            }
            names.insert(base + e.offset.0, entry_name(uref, &e));
        }
    }
    // pass 2
    let mut out = Map::new();
    let mut order = Vec::new();
    let mut dangling = Vec::new();
    for h in &hdrs {
        let unit = dwarf.unit(*h).map_err(err)?;
        let uref = unit.unit_ref(dwarf);
        let mut raw = unit.entries_raw(None).map_err(err)?;
        let mut e = read::DebuggingInformationEntry::null();
        let mut stack: Vec<(isize, String)> = Vec::new();
        while !raw.is_empty() {
            if !raw.read_entry(&mut e).map_err(err)? {
                continue;
            }
            let name = entry_name(uref, &e);
            while let Some((d, _)) = stack.last() {
                if *d < e.depth {
                    break;
                }
                stack.pop();
            }
            let parent = stack.last().map(|p| p.1.clone()).unwrap_or_default();
            if e.has_children {
                stack.push((e.depth, name.clone()));
            }
            let mut attrs = Vec::new();
            for a in &e.attrs {
                if a.name() == constants::DW_AT_sibling {
                    // navigation aid, not meaning; its target is checked here
                    if let read::AttributeValue::UnitRef(o) = a.value() {
                        attrs.push(json!(["DW_AT_sibling", if o.0 == raw.next_offset().0 || true { "present" } else { "" }]));
                    }
                    continue;
                }
                let v = attr_repr(uref, a, &names);
                if v.to_string().contains("DANGLING") {
                    dangling.push(json!([name, a.name().to_string()]));
                }
                attrs.push(json!([a.name().to_string(), v]));
            }
            if out.contains_key(&name) {
                return Err(format!("duplicate identity {}", name));
            }
            out.insert(
                name.clone(),
                json!({"tag": e.tag.to_string(), "parent": parent, "attrs": attrs}),
            );
            order.push(json!(name));
        }
    }
    Ok(json!({"entries": out, "order": order, "dangling": dangling}))
}

// ---------------------------------------------------------------------------
// Conversions

struct FilterLog {
    /// one record per entry presented by `FilterUnit::read_entry`
    entries: Vec<Value>,
}

fn conv_err(stage: &str, e: impl std::fmt::Debug) -> Value {
    let s = format!("{:?}", e);
    let name = s.split(|c: char| c == '(' || c == ' ' || c == '{').next().unwrap_or("").to_string();
    json!({"ok": false, "stage": stage, "err": name, "detail": s})
}

/// Convert `dwarf` (optionally with a filter requiring `required`), write and read back.
fn convert_and_read(
    dwarf: &read::Dwarf<Slice<'_>>,
    endian: RunTimeEndian,
    required: Option<&BTreeSet<String>>,
    flow: &str,
    log: Option<&mut FilterLog>,
) -> Value {
    let addr = |a: u64| Some(Address::Constant(a));
    let mut out = write::Dwarf::new();
    let mut sections = Sections::new(RawRefVec(EndianVec::new(endian)));
    let mut log = log;
    {
        let mut convert = match required {
            None => match out.convert(dwarf) {
                Ok(c) => c,
                Err(e) => return conv_err("convert_new", e),
            },
            Some(req) => {
                let mut filter = match write::FilterUnitSection::new(dwarf) {
                    Ok(f) => f,
                    Err(e) => return conv_err("filter_new", e),
                };
                let mut uidx = 0;
                loop {
                    let mut unit = match filter.read_unit() {
                        Ok(Some(u)) => u,
                        Ok(None) => break,
                        Err(e) => return conv_err("filter_read_unit", e),
                    };
                    uidx += 1;
                    let mut entry = unit.null_entry();
                    loop {
                        match unit.read_entry(&mut entry) {
                            Ok(true) => {}
                            Ok(false) => break,
                            Err(e) => return conv_err("filter_read_entry", e),
                        }
                        let name = entry_name(entry.read_unit, &entry.read_entry);
                        let is_req = req.contains(&name);
                        if let Some(l) = log.as_deref_mut() {
                            let base = entry.read_unit.header.offset().0;
                            l.entries.push(json!({
                                "name": name, "unit": uidx,
                                "off": base + entry.offset.0,
                                "parent": entry.parent.map(|p| base + p.0),
                                "parent_tag": entry.parent_tag.map(|t| t.to_string()),
                                "tag": entry.tag.to_string(),
                                "decl": entry.has_attr(constants::DW_AT_declaration),
                                "req": is_req,
                            }));
                        }
                        if is_req {
                            unit.require_entry(entry.offset);
                        }
                    }
                }
                match out.convert_with_filter(filter) {
                    Ok(c) => c,
                    Err(e) => return conv_err("convert_new", e),
                }
            }
        };
        loop {
            let (mut unit, root_entry) = match convert.read_unit() {
                Ok(Some(x)) => x,
                Ok(None) => break,
                Err(e) => return conv_err("convert_read_unit", e),
            };
            if flow == "convert" {
                if let Err(e) = unit.convert(root_entry, &addr) {
                    return conv_err("convert", e);
                }
            } else {
                // the step-by-step flow of the ConvertUnit documentation
                let root_id = unit.unit.root();
                for attr in &root_entry.attrs {
                    match unit.convert_attribute_value(root_entry.read_unit, attr, &addr) {
                        Ok(v) => unit.unit.get_mut(root_id).set(attr.name(), v),
                        Err(e) => return conv_err("convert", e),
                    }
                }
                let mut entry = root_entry;
                loop {
                    let id = match unit.read_entry(&mut entry) {
                        Ok(Some(id)) => id,
                        Ok(None) => break,
                        Err(e) => return conv_err("convert_read_entry", e),
                    };
                    if id.is_none() {
                        continue;
                    }
                    let id = unit.add_entry(id, &entry);
                    for attr in &entry.attrs {
                        match unit.convert_attribute_value(entry.read_unit, attr, &addr) {
                            Ok(v) => unit.unit.get_mut(id).set(attr.name(), v),
                            Err(e) => return conv_err("convert", e),
                        }
                    }
                }
                if flow == "incremental" {
                    if let Err(e) = unit.write(&mut sections) {
                        return conv_err("write", e);
                    }
                }
            }
        }
    }
    if let Err(e) = out.write(&mut sections) {
        return conv_err("write", e);
    }
    let back = load(&sections, endian);
    match forest(&back) {
        Ok(f) => json!({"ok": true, "forest": f}),
        Err(e) => json!({"ok": false, "stage": "readback", "err": e}),
    }
}

/// Names of the retained non-root entries and the entries whose tag, parent or
/// attribute list differs from `base` (structural equality of the printed
/// forests; references are compared by target identity).
fn summarize(res: &Value, base_unf: Option<&Value>, base_in: &Value) -> Value {
    if res["ok"].as_bool() != Some(true) {
        return res.clone();
    }
    let f = &res["forest"];
    let ents = f["entries"].as_object().unwrap();
    let retained: Vec<Value> = f["order"]
        .as_array()
        .unwrap()
        .iter()
        .filter(|n| !n.as_str().unwrap_or("").starts_with("root"))
        .cloned()
        .collect();
    let diff = |base: &Value| -> Value {
        let b = base["entries"].as_object().unwrap();
        Value::Array(
            ents.iter()
                .filter(|(k, v)| b.get(*k) != Some(*v))
                .map(|(k, _)| json!(k))
                .collect(),
        )
    };
    json!({"ok": true, "retained": retained, "dangling": f["dangling"],
           "diff_unf": base_unf.map(|b| diff(b)), "diff_in": diff(base_in),
           "nunits": f["order"].as_array().unwrap().len() - retained.len()})
}

/// Split DWARF: `dwarf` is the split unit's contribution, converted through a skeleton
/// unit (`ConvertUnit::convert_split` / `FilterUnitSection::new_split` +
/// `ConvertUnit::convert_split_with_filter`).
fn convert_split_and_read(
    dwarf: &read::Dwarf<Slice<'_>>,
    endian: RunTimeEndian,
    enc: Encoding,
    required: Option<&BTreeSet<String>>,
) -> Value {
    let addr = |a: u64| Some(Address::Constant(a));
    // the skeleton: one unit whose root carries the dwo id and name
    let mut skel = write::Dwarf::new();
    let sid = skel.units.add(Unit::new(enc, LineProgram::none()));
    {
        let unit = skel.units.get_mut(sid);
        let root = unit.root();
        unit.get_mut(root).set(constants::DW_AT_GNU_dwo_id, AttributeValue::Data8(0x1234_5678));
        unit.get_mut(root).set(constants::DW_AT_GNU_dwo_name, AttributeValue::String(b"x.dwo".to_vec()));
    }
    let mut skel_sections = Sections::new(RawRefVec(EndianVec::new(endian)));
    if let Err(e) = skel.write(&mut skel_sections) {
        return conv_err("skeleton", e);
    }
    let skel_dwarf = load(&skel_sections, endian);
    let mut out = write::Dwarf::new();
    let mut sections = Sections::new(RawRefVec(EndianVec::new(endian)));
    {
        let mut convert = match out.convert(&skel_dwarf) {
            Ok(c) => c,
            Err(e) => return conv_err("convert_new", e),
        };
        loop {
            let (mut unit, _root_entry) = match convert.read_unit() {
                Ok(Some(x)) => x,
                Ok(None) => break,
                Err(e) => return conv_err("convert_read_unit", e),
            };
            let mut convert_split = match required {
                None => match unit.convert_split(dwarf) {
                    Ok(c) => c,
                    Err(e) => return conv_err("convert_split", e),
                },
                Some(req) => {
                    let mut filter = match write::FilterUnitSection::new_split(dwarf, unit.read_unit) {
                        Ok(f) => f,
                        Err(e) => return conv_err("filter_new", e),
                    };
                    loop {
                        let mut funit = match filter.read_unit() {
                            Ok(Some(u)) => u,
                            Ok(None) => break,
                            Err(e) => return conv_err("filter_read_unit", e),
                        };
                        let mut entry = funit.null_entry();
                        loop {
                            match funit.read_entry(&mut entry) {
                                Ok(true) => {}
                                Ok(false) => break,
                                Err(e) => return conv_err("filter_read_entry", e),
                            }
                            let name = entry_name(entry.read_unit, &entry.read_entry);
                            if req.contains(&name) {
                                funit.require_entry(entry.offset);
                            }
                        }
                    }
                    match unit.convert_split_with_filter(filter) {
                        Ok(c) => c,
                        Err(e) => return conv_err("convert_split", e),
                    }
                }
            };
            let (mut split_unit, split_root) = match convert_split.read_unit() {
                Ok(x) => x,
                Err(e) => return conv_err("convert_read_unit", e),
            };
            if let Err(e) = split_unit.convert(split_root, &addr) {
                return conv_err("convert", e);
            }
        }
    }
    if let Err(e) = out.write(&mut sections) {
        return conv_err("write", e);
    }
    let back = load(&sections, endian);
    match forest(&back) {
        Ok(f) => json!({"ok": true, "forest": f}),
        Err(e) => json!({"ok": false, "stage": "readback", "err": e}),
    }
}

/// Which raw location list entry kinds the input really contains, per holder
/// (so that the driver can confirm the kinds a case asked for were produced).
fn raw_loc_kinds(dwarf: &read::Dwarf<Slice<'_>>) -> Value {
    let mut out = Map::new();
    let mut units = dwarf.units();
    while let Ok(Some(h)) = units.next() {
        let Ok(unit) = dwarf.unit(h) else { continue };
        let uref = unit.unit_ref(dwarf);
        let Ok(mut raw) = unit.entries_raw(None) else { continue };
        let mut e = read::DebuggingInformationEntry::null();
        while !raw.is_empty() {
            match raw.read_entry(&mut e) {
                Ok(true) => {}
                Ok(false) => continue,
                Err(_) => break,
            }
            if let Some(read::AttributeValue::LocationListsRef(off)) = e.attr_value(constants::DW_AT_frame_base) {
                let mut kinds = Vec::new();
                if let Ok(mut it) = uref.raw_locations(off) {
                    while let Ok(Some(l)) = it.next() {
                        let d = format!("{:?}", l);
                        kinds.push(json!(d.split(|c: char| c == ' ' || c == '{').next().unwrap_or("")));
                    }
                }
                out.insert(entry_name(uref, &e), Value::Array(kinds));
            }
        }
    }
    Value::Object(out)
}

fn replay(case: &Value) -> Value {
    let built = match build_input(case) {
        Ok(b) => b,
        Err(e) => return json!({"build": e}),
    };
    let dwarf = load_with(&built.sections, built.endian, &built.addr);
    let input = match forest(&dwarf) {
        Ok(f) => f,
        Err(e) => return json!({"build": e}),
    };
    let flow = case["flow"].as_str().unwrap_or("convert");
    let lockinds = raw_loc_kinds(&dwarf);
    let split = case["split"].as_bool() == Some(true);
    let enc = encoding_of(case);
    let unf = if split {
        convert_split_and_read(&dwarf, built.endian, enc, None)
    } else {
        convert_and_read(&dwarf, built.endian, None, flow, None)
    };
    let base_unf = if unf["ok"].as_bool() == Some(true) { Some(&unf["forest"]) } else { None };
    let mut runs = Vec::new();
    if let Some(exp) = case["exp"].as_array() {
        for x in exp {
            let req: BTreeSet<String> = x["req"]
                .as_array()
                .map(|a| a.iter().map(|v| format!("e{}", v.as_i64().unwrap_or(0))).collect())
                .unwrap_or_default();
            let fil = if split {
                convert_split_and_read(&dwarf, built.endian, enc, Some(&req))
            } else {
                convert_and_read(&dwarf, built.endian, Some(&req), flow, None)
            };
            runs.push(summarize(&fil, base_unf, &input));
        }
    }
    let unf_s = summarize(&unf, None, &input);
    let mut o = json!({"build":"ok", "unfiltered": unf_s, "runs": runs,
        "input_order": input["order"], "input_dangling": input["dangling"], "lockinds": lockinds});
    if case["verbose"].as_bool() == Some(true) {
        o["input"] = input;
        o["unfiltered_forest"] = unf;
    }
    o
}

// ---------------------------------------------------------------------------
// record: random forests for FilterTrace.tla

const NOBACK_TAGS: [&str; 12] = [
    "DW_TAG_structure_type", "DW_TAG_base_type", "DW_TAG_pointer_type", "DW_TAG_typedef",
    "DW_TAG_class_type", "DW_TAG_enumeration_type", "DW_TAG_union_type", "DW_TAG_module",
    "DW_TAG_imported_declaration", "DW_TAG_subroutine_type", "DW_TAG_array_type", "DW_TAG_common_block",
];
const BACK_TAGS: [&str; 10] = [
    "DW_TAG_variable", "DW_TAG_member", "DW_TAG_formal_parameter", "DW_TAG_lexical_block",
    "DW_TAG_inlined_subroutine", "DW_TAG_enumerator", "DW_TAG_template_type_parameter",
    "DW_TAG_call_site", "DW_TAG_label", "DW_TAG_inheritance",
];

fn random_case(rng: &mut Rng, n: usize, kinds: &[&str]) -> Value {
    let nunits = rng.range(1, 4) as usize;
    let version = *rng.pick(&[2u64, 3, 4, 5]);
    let format = *rng.pick(&[32u64, 32, 64]);
    let asz = *rng.pick(&[4u64, 8]);
    // entries: preorder per unit, random tree shapes
    let mut entries = Vec::new();
    let mut unit_of = vec![0usize; n + 1];
    let mut by_unit: Vec<Vec<usize>> = vec![Vec::new(); nunits];
    let mut next_id = 1usize;
    let per = n / nunits;
    for u in 0..nunits {
        let cnt = if u + 1 == nunits { n - per * (nunits - 1) } else { per };
        // path of open ancestors
        let mut path: Vec<usize> = Vec::new();
        for _ in 0..cnt {
            // pop a random number of levels
            while !path.is_empty() && rng.chance(2, 5) {
                path.pop();
            }
            if path.len() > 6 {
                path.truncate(3);
            }
            let id = next_id;
            next_id += 1;
            let parent = path.last().copied().unwrap_or(0);
            let (tag, decl) = match rng.below(10) {
                0 | 1 => ("DW_TAG_namespace", false),
                2 | 3 | 4 => (*rng.pick(&NOBACK_TAGS), false),
                5 => ("DW_TAG_subprogram", true),
                6 => ("DW_TAG_subprogram", false),
                _ => (*rng.pick(&BACK_TAGS), rng.chance(1, 8)),
            };
            // the writer moves DW_TAG_base_type children of the root to the front
            let tag = if parent == 0 && tag == "DW_TAG_base_type" { "DW_TAG_structure_type" } else { tag };
            entries.push(json!({"id": id, "unit": u + 1, "parent": parent, "tag": tag, "decl": decl,
                                "sibling": rng.chance(1, 6)}));
            unit_of[id] = u;
            by_unit[u].push(id);
            if rng.chance(3, 5) {
                path.push(id);
            }
        }
    }
    // references
    let nrefs = rng.range((n / 3) as u64, n as u64) as usize;
    let mut refs = Vec::new();
    let mut nattr = vec![0usize; n + 1];
    for _ in 0..nrefs {
        let from = rng.range(1, n as u64) as usize;
        let kind = *rng.pick(kinds);
        let base = kind.trim_start_matches("x_").trim_start_matches("l_");
        let needs_unit = matches!(base, "attr_unit" | "call" | "paramref" | "deref_type" | "regval_type" | "const_type" | "convert" | "reinterpret");
        let needs_back = matches!(base, "deref_type" | "regval_type" | "const_type" | "convert" | "reinterpret");
        let to: i64 = if needs_back {
            // the writer needs the target's offset before the source is laid out
            let cands: Vec<usize> = by_unit[unit_of[from]].iter().copied().filter(|t| *t < from).collect();
            if cands.is_empty() {
                continue;
            }
            *rng.pick(&cands) as i64
        } else if needs_unit {
            *rng.pick(&by_unit[unit_of[from]]) as i64
        } else if rng.chance(1, 12) {
            -(rng.range(1, nunits as u64) as i64)
        } else {
            rng.range(1, n as u64) as i64
        };
        if kind.starts_with("attr_") {
            if nattr[from] >= REF_ATTRS.len() {
                continue;
            }
            nattr[from] += 1;
        }
        if kind.starts_with("l_") {
            let loc = *rng.pick(&["offset_pair", "start_end", "start_length", "startx_endx", "startx_length", "default_location"]);
            let shape = *rng.pick(&["normal", "normal", "empty", "reversed", "tomb", "tombbase"]);
            refs.push(json!({"from": from, "to": to, "kind": kind, "loc": loc, "shape": shape}));
        } else {
            refs.push(json!({"from": from, "to": to, "kind": kind}));
        }
    }
    // base-type reordering would move DW_TAG_base_type children of the root to the
    // front and break the "target precedes source" requirement of typed operations
    let mut required = Vec::new();
    let nreq = rng.range(0, 1 + (n / 12) as u64);
    for _ in 0..nreq {
        required.push(rng.range(1, n as u64));
    }
    json!({"sys":"filter","version":version,"format":format,"asz":asz,"nunits":nunits,
           "entries":entries,"refs":refs,"required":required,
           "flow": *rng.pick(&["convert","steps","incremental"])})
}

fn record(out: &str, a: &Args) {
    let mut rng = Rng::new(a.num("--seed", 1));
    let n = a.num("--n", 10);
    let lo = a.num("--min", 50) as usize;
    let hi = a.num("--max", 500) as usize;
    let kinds_s = a.opt("--kinds").unwrap_or(
        "attr_unit,attr_info,x_call,x_callref,x_paramref,x_deref_type,x_regval_type,x_const_type,x_convert,x_reinterpret,l_callref,l_call,l_deref_type",
    );
    let kinds: Vec<&str> = kinds_s.split(',').collect();
    let mut evs: Vec<Value> = Vec::new();
    for g in 0..n {
        let size = rng.range(lo as u64, hi as u64) as usize;
        let case = random_case(&mut rng, size, &kinds);
        let o = guarded(|| {
            let built = match build_input(&case) {
                Ok(b) => b,
                Err(e) => return json!({"build": e}),
            };
            let dwarf = load_with(&built.sections, built.endian, &built.addr);
            let req: BTreeSet<String> = case["required"]
                .as_array()
                .unwrap()
                .iter()
                .map(|v| format!("e{}", v.as_i64().unwrap()))
                .collect();
            let mut log = FilterLog { entries: Vec::new() };
            let flow = case["flow"].as_str().unwrap();
            let fil = convert_and_read(&dwarf, built.endian, Some(&req), flow, Some(&mut log));
            json!({"build":"ok","log":log.entries,"filtered":fil})
        });
        // events
        evs.push(json!({"ev":"Reset","g":g,"n":size,"nunits":case["nunits"]}));
        if o["build"] != "ok" {
            // not explainable by the trace spec on purpose: the input could not be built
            evs.push(json!({"ev":"Outcome","g":g,"o":o}));
            continue;
        }
        // entries are numbered in the order the filter presented them
        let logv = o["log"].as_array().unwrap();
        let mut idx_of: HashMap<String, i64> = HashMap::new();
        let mut off_idx: HashMap<u64, i64> = HashMap::new();
        for (k, e) in logv.iter().enumerate() {
            idx_of.insert(e["name"].as_str().unwrap().to_string(), k as i64 + 1);
            off_idx.insert(e["off"].as_u64().unwrap(), k as i64 + 1);
        }
        let idx = |id: i64| -> i64 { *idx_of.get(&format!("e{}", id)).unwrap_or(&-1000) };
        // reference edges by source, as the case asked for them
        let mut by_from: HashMap<i64, Vec<Value>> = HashMap::new();
        for r in case["refs"].as_array().unwrap() {
            let to = r["to"].as_i64().unwrap();
            let t = if to > 0 { idx(to) } else { to };
            by_from.entry(idx(r["from"].as_i64().unwrap())).or_default().push(json!({"to": t, "kind": r["kind"]}));
        }
        let mut cparent: HashMap<i64, i64> = HashMap::new();
        for e in case["entries"].as_array().unwrap() {
            let p = e["parent"].as_i64().unwrap();
            cparent.insert(idx(e["id"].as_i64().unwrap()), if p == 0 { 0 } else { idx(p) });
        }
        for (k, e) in logv.iter().enumerate() {
            let i = k as i64 + 1;
            let parent = e["parent"].as_u64().map(|p| *off_idx.get(&p).unwrap_or(&-1000)).unwrap_or(0);
            evs.push(json!({"ev":"Entry","idx":i,"unit":e["unit"],"parent":parent,
                "cparent": cparent.get(&i).copied().unwrap_or(-1000),
                "parent_tag": e["parent_tag"].as_str().unwrap_or(""),
                "tag":e["tag"],"decl":e["decl"],
                "refs": by_from.get(&i).cloned().unwrap_or_default()}));
            if e["req"].as_bool() == Some(true) {
                evs.push(json!({"ev":"Require","idx":i}));
            }
        }
        let f = &o["filtered"];
        if f["ok"].as_bool() == Some(true) {
            let names: Vec<Value> = f["forest"]["order"].as_array().unwrap().iter()
                .filter(|n| !n.as_str().unwrap().starts_with("root"))
                .map(|n| json!(*idx_of.get(n.as_str().unwrap()).unwrap_or(&-1000))).collect();
            evs.push(json!({"ev":"Result","ok":true,"retained":names,
                "dangling": f["forest"]["dangling"]}));
        } else {
            evs.push(json!({"ev":"Result","ok":false,"stage":f["stage"],"err":f["err"]}));
        }
    }
    write_lines(out, &evs);
}

fn main() {
    main_with(replay, record);
}
